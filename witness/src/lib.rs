//! Compile-fail witnesses (WIT): the type checker decides that out-of-order Builder calls, late edges
//! and writes through the read API are not expressible.  Every witness has a compiling twin that
//! differs only by the offending line, so a witness that fails for an unrelated reason (wrong path,
//! renamed method) is noticed: the twin stops compiling too.
//!
//! Run with `cargo +nightly test --doc --offline` (stable ignores the error code).

/// add_parent does not exist before terms_complete()
/// ```compile_fail,E0599
/// let mut b = hpo::builder::Builder::new();
/// b.new_term("Root", 1u32);
/// b.new_term("Child", 2u32);
/// let _ = b.add_parent(1u32, 2u32);
/// ```
/// twin:
/// ```
/// let mut b = hpo::builder::Builder::new();
/// b.new_term("Root", 1u32);
/// b.new_term("Child", 2u32);
/// let mut b = b.terms_complete();
/// let _ = b.add_parent(1u32, 2u32);
/// ```
pub fn w01_add_parent_on_loose_collection() {}

/// new_term does not exist after terms_complete()
/// ```compile_fail,E0599
/// let mut b = hpo::builder::Builder::new();
/// b.new_term("Root", 1u32);
/// let mut b = b.terms_complete();
/// b.new_term("Late", 2u32);
/// ```
/// twin:
/// ```
/// let mut b = hpo::builder::Builder::new();
/// b.new_term("Root", 1u32);
/// b.new_term("Late", 2u32);
/// let _b = b.terms_complete();
/// ```
pub fn w02_new_term_after_terms_complete() {}

/// annotate_gene does not exist before connect_all_terms()
/// ```compile_fail,E0599
/// let mut b = hpo::builder::Builder::new();
/// b.new_term("Root", 1u32);
/// let mut b = b.terms_complete();
/// let _ = b.annotate_gene(1u32.into(), "G", 1u32.into());
/// ```
/// twin:
/// ```
/// let mut b = hpo::builder::Builder::new();
/// b.new_term("Root", 1u32);
/// let mut b = b.terms_complete().connect_all_terms();
/// let _ = b.annotate_gene(1u32.into(), "G", 1u32.into());
/// ```
pub fn w03_annotate_before_connect() {}

/// add_parent does not exist after connect_all_terms(): no late edges
/// ```compile_fail,E0599
/// let mut b = hpo::builder::Builder::new();
/// b.new_term("Root", 1u32);
/// b.new_term("Child", 2u32);
/// let mut b = b.terms_complete().connect_all_terms();
/// let _ = b.add_parent(1u32, 2u32);
/// ```
/// twin:
/// ```
/// let mut b = hpo::builder::Builder::new();
/// b.new_term("Root", 1u32);
/// b.new_term("Child", 2u32);
/// let mut b = b.terms_complete();
/// let _ = b.add_parent(1u32, 2u32);
/// let _b = b.connect_all_terms();
/// ```
pub fn w04_add_parent_after_connect() {}

/// an Ontology cannot be built before the information content is calculated
/// ```compile_fail,E0599
/// let b = hpo::builder::Builder::new().terms_complete().connect_all_terms();
/// let _o = b.build_minimal();
/// ```
/// twin:
/// ```
/// let b = hpo::builder::Builder::new().terms_complete().connect_all_terms();
/// let _o = b.calculate_information_content().unwrap().build_minimal();
/// ```
pub fn w05_build_before_information_content() {}

/// annotate_gene does not exist after calculate_information_content()
/// ```compile_fail,E0599
/// let b = hpo::builder::Builder::new().terms_complete().connect_all_terms();
/// let mut b = b.calculate_information_content().unwrap();
/// let _ = b.annotate_gene(1u32.into(), "G", 1u32.into());
/// ```
/// twin:
/// ```
/// let mut b = hpo::builder::Builder::new().terms_complete().connect_all_terms();
/// let _ = b.annotate_gene(1u32.into(), "G", 1u32.into());
/// let _b = b.calculate_information_content().unwrap();
/// ```
pub fn w06_annotate_after_information_content() {}

/// a transition consumes the builder: the old state cannot be used again
/// ```compile_fail,E0382
/// let mut b = hpo::builder::Builder::new();
/// b.new_term("Root", 1u32);
/// let _next = b.terms_complete();
/// b.new_term("Late", 2u32);
/// ```
/// twin:
/// ```
/// let mut b = hpo::builder::Builder::new();
/// b.new_term("Root", 1u32);
/// b.new_term("Late", 2u32);
/// let _next = b.terms_complete();
/// ```
pub fn w07_builder_consumed_by_transition() {}

/// the internal term record is not nameable from outside the crate
/// ```compile_fail,E0603
/// fn f(_t: &hpo::term::internal::HpoTermInternal) {}
/// ```
/// twin:
/// ```
/// fn f(_t: &hpo::term::HpoTerm) {}
/// ```
pub fn w08_internal_term_not_nameable() {}

/// no mutation of term data through the read API
/// ```compile_fail,E0596
/// let o = hpo::builder::Builder::new().terms_complete().connect_all_terms()
///     .calculate_information_content().unwrap().build_minimal();
/// if let Some(t) = o.hpo(1u32) {
///     *t.information_content().gene_mut() = 1.0;
/// }
/// ```
/// twin:
/// ```
/// let o = hpo::builder::Builder::new().terms_complete().connect_all_terms()
///     .calculate_information_content().unwrap().build_minimal();
/// if let Some(t) = o.hpo(1u32) {
///     let _ic = t.information_content().gene();
/// }
/// ```
pub fn w09_no_mut_through_read_api() {}

/// a Builder in a later state cannot be fabricated: its fields are private
/// ```compile_fail,E0451
/// use hpo::builder::{Builder, ConnectedTerms};
/// let b = Builder::new().terms_complete().connect_all_terms();
/// let _b: Builder<ConnectedTerms> = Builder { state: std::marker::PhantomData, ..b };
/// ```
/// twin:
/// ```
/// use hpo::builder::{Builder, ConnectedTerms};
/// let _b: Builder<ConnectedTerms> = Builder::new().terms_complete().connect_all_terms();
/// ```
pub fn w10_builder_state_not_forgeable() {}

/// the state-cast helper is private
/// ```compile_fail,E0603
/// let b = hpo::builder::Builder::new();
/// let _c: hpo::builder::Builder<hpo::builder::ConnectedTerms> = hpo::builder::transition_state(b);
/// ```
/// twin:
/// ```
/// let b = hpo::builder::Builder::new();
/// let _c: hpo::builder::Builder<hpo::builder::ConnectedTerms> = b.terms_complete().connect_all_terms();
/// ```
pub fn w11_transition_state_private() {}

/// Builder::new only yields the first state
/// ```compile_fail,E0308
/// let _b: hpo::builder::Builder<hpo::builder::AllTerms> = hpo::builder::Builder::new();
/// ```
/// twin:
/// ```
/// let _b: hpo::builder::Builder<hpo::builder::LooseCollection> = hpo::builder::Builder::new();
/// ```
pub fn w12_new_yields_loose_collection() {}

/// connect_all_terms does not exist before terms_complete()
/// ```compile_fail,E0599
/// let b = hpo::builder::Builder::new();
/// let _c = b.connect_all_terms();
/// ```
/// twin:
/// ```
/// let b = hpo::builder::Builder::new();
/// let _c = b.terms_complete().connect_all_terms();
/// ```
pub fn w13_connect_before_terms_complete() {}

/// calculate_information_content does not exist before connect_all_terms()
/// ```compile_fail,E0599
/// let b = hpo::builder::Builder::new().terms_complete();
/// let _c = b.calculate_information_content();
/// ```
/// twin:
/// ```
/// let b = hpo::builder::Builder::new().terms_complete().connect_all_terms();
/// let _c = b.calculate_information_content();
/// ```
pub fn w14_information_content_before_connect() {}

/// the crate-internal term insertion is not callable from outside
/// ```compile_fail,E0624
/// let mut b = hpo::builder::Builder::new().terms_complete();
/// b.add_parent_unchecked(1u32, 2u32);
/// ```
/// twin:
/// ```
/// let mut b = hpo::builder::Builder::new().terms_complete();
/// let _ = b.add_parent(1u32, 2u32);
/// ```
pub fn w15_unchecked_edge_writer_private() {}

/// the id vector of a group is private: sortedness cannot be broken from outside
/// ```compile_fail,E0616
/// let mut g = hpo::term::HpoGroup::new();
/// g.insert(5u32);
/// g.ids.push(1u32.into());
/// ```
/// twin:
/// ```
/// let mut g = hpo::term::HpoGroup::new();
/// g.insert(5u32);
/// g.insert(1u32);
/// ```
pub fn w16_group_ids_private() {}
