"""Check bookkeeping: obligations, floors, anchors, known findings, evidence and the exit protocol."""
import json
import os
import re
import sys
import time

VERIF = os.path.dirname(os.path.dirname(os.path.abspath(__file__)))
EVIDENCE_DIR = os.path.join(VERIF, "evidence")
VIOL_DIR = os.path.join(EVIDENCE_DIR, "violations")
KNOWN = os.path.join(VERIF, "known_findings.json")


def load_known():
    try:
        with open(KNOWN) as f:
            j = json.load(f)
    except OSError:
        return {"findings": [], "fixed": []}
    j.setdefault("findings", [])
    j.setdefault("fixed", [])
    return j


def apply_private_deps(ck, prog):
    """obligations that lean on the NAME of a private item (table lint/private_deps.json, produced by lint/privdeps.py) are undecided,
    not violated, when that name no longer occurs in the program: a behaviour-preserving refactoring may rename or move private items.
    While every name of the table is present this does nothing."""
    import fnmatch
    p = os.path.join(os.path.dirname(os.path.abspath(__file__)), "private_deps.json")
    try:
        with open(p) as f:
            whole = json.load(f)
            table = whole["deps"]
            sites = whole.get("sites", {})
    except (OSError, ValueError, KeyError):
        return []
    have = set(prog.bodies)
    for path, adt in prog.adts.items():
        for v in adt.get("variants", []):
            for fl in v.get("fields", []):
                have.add("%s.%s" % (path, fl.get("name", "")))
    present = set()
    for b in prog.bodies.values():
        for seg in re.split(r"::|<|>|,| |'", b.id):
            if seg:
                present.add(seg)
    for path, adt in prog.adts.items():
        present.add(path.rsplit("::", 1)[-1])
        for v in adt.get("variants", []):
            for fl in v.get("fields", []):
                present.add(fl.get("name", ""))
    missing = sorted(n for n in table if n not in present or any(st not in have for st in sites.get(n, [])))
    demoted = []
    for n in missing:
        pats = table[n].get(ck.pid, [])
        if not pats:
            continue
        # granularity: the RULES (first segment of the key) that were seen to depend on the name.  A refactoring that renames a
        # private item usually restructures around it as well, so the instances that fail need not be the ones the plain rename made fail
        rules = {pt.split("/", 1)[0] for pt in pats}
        for o in ck.obligations:
            if o["ok"] is False and (o["rule"] in rules or any(fnmatch.fnmatchcase(o["key"], pt) for pt in pats)):
                o["ok"] = None
                o["msg"] = "[the private item `%s` this rule instance is phrased over is no longer in the program (renamed / moved / inlined?): not decided] %s" % (n, o["msg"])
                demoted.append((n, o["key"]))
    if missing:
        ck.note("private identifiers of the dependence table that are absent from this tree: %s" % ", ".join(missing))
    return demoted


class Check:
    def __init__(self, pid, tier="quick", seed=0, claim="", not_decided="", write_evidence=True):
        self.pid = pid
        self.tier = tier
        self.seed = seed
        self.claim = claim
        self.not_decided = not_decided
        self.t0 = time.time()
        self.obligations = []  # dicts
        self.notes = []
        self.assumptions = []
        self.programs = 0
        self.extra = {}
        self.write_evidence = write_evidence
        self.rules = {}
        self.clauses = []

    # ------------------------------------------------------------------ recording
    def rule(self, name, text):
        self.rules[name] = text

    def ob(self, rule, key, ok, msg, where=None, detail=None):
        """one rule instance.  ok: True (discharged) | False (violation) | None (undecided: unrecognised idiom)"""
        self.obligations.append(
            {"rule": rule, "key": "%s/%s" % (rule, key), "ok": ok, "msg": msg, "where": where, "detail": detail}
        )
        return ok

    def violation(self, rule, key, msg, where=None, detail=None):
        return self.ob(rule, key, False, msg, where, detail)

    def undecided(self, rule, key, msg, where=None):
        return self.ob(rule, key, None, msg, where)

    def anchor(self, rule, name, obj, private=False):
        """a hard anchor (public item / trait impl) must exist: fail closed.  An item that is NOT part of the public API (a private
        function, something in a private module) can be renamed or moved by a behaviour-preserving refactoring: when it is missing
        the rules phrased over it are undecided, not violated."""
        if private and (obj is None or obj == [] or obj is False):
            self.undecided(rule, "anchor/" + name, "private item `%s` not found (renamed or moved?): the rules phrased over it are not decided" % name)
            return False
        if obj is None or obj == [] or obj is False:
            self.ob(rule, "anchor/" + name, False, "coverage-floor: hard anchor `%s` not found in the fact base" % name)
            return False
        return True

    def floor(self, rule, what, count, minimum, soft=False):
        """fewer instances than confirmed by hand: the rule has gone (partly) vacuous.  `soft`: the instances are private items that a
        refactoring may rename, merge or inline - then the shortfall is reported as undecided, not as a violation."""
        ok = count >= minimum
        if soft and not ok:
            self.undecided(rule, "floor/" + what, "%s: only %d instance(s) recognised on this tree (%d when the rule was written): the rule covers less than it did" % (what, count, minimum))
            return False
        self.ob(
            rule,
            "floor/" + what,
            ok,
            ("%s: %d instance(s) analysed (floor %d)" % (what, count, minimum))
            if ok
            else ("coverage-floor: %s: only %d instance(s) found, expected at least %d" % (what, count, minimum)),
        )
        return ok

    def note(self, text):
        self.notes.append(text)

    def assume(self, text):
        if text not in self.assumptions:
            self.assumptions.append(text)

    # ------------------------------------------------------------------ finishing
    def finish(self, programs=None):
        known = load_known()
        known_keys = {(k["property"], k["key"]): k for k in known["findings"]}
        viols = [o for o in self.obligations if o["ok"] is False]
        und = [o for o in self.obligations if o["ok"] is None]
        good = [o for o in self.obligations if o["ok"] is True]
        new_viols = []
        lines = []
        for v in viols:
            kk = (self.pid, v["key"])
            if kk in known_keys:
                lines.append("KNOWN-FINDING: property=%s %s [%s]" % (self.pid, known_keys[kk].get("what", v["msg"]), v["key"]))
            else:
                new_viols.append(v)
        os.makedirs(VIOL_DIR, exist_ok=True)
        for v in new_viols:
            fn = os.path.join(VIOL_DIR, "%s-%s.json" % (self.pid, re.sub(r"[^A-Za-z0-9_.-]+", "_", v["key"])[:150]))
            with open(fn, "w") as f:
                json.dump({"property": self.pid, "key": v["key"], "rule": v["rule"], "msg": v["msg"], "where": v["where"], "detail": v["detail"], "tier": self.tier}, f, indent=1)
            lines.append("%s %s %s: %s" % (self.pid, v["rule"], v["where"] or "", v["msg"]))
            lines.append("VIOLATION property=%s replay=%s" % (self.pid, fn))
        wall = time.time() - self.t0
        distinct = len({o["key"] for o in self.obligations if o["ok"] is not None and "/floor/" not in o["key"] and "/anchor/" not in o["key"]})
        samples = []
        for o in (viols + good + und)[:400]:
            samples.append({k: o[k] for k in ("key", "ok", "msg", "where") if o.get(k) is not None or k == "ok"})
        per_rule = {}
        for o in self.obligations:
            r = per_rule.setdefault(o["rule"], {"obligations": 0, "discharged": 0, "violations": 0, "undecided": 0})
            r["obligations"] += 1
            if o["ok"] is True:
                r["discharged"] += 1
            elif o["ok"] is False:
                r["violations"] += 1
            else:
                r["undecided"] += 1
        ev = {
            "property_id": self.pid,
            "tier": self.tier,
            "seed": self.seed,
            "level": "other",
            "coverage": {
                "explanation": (
                    "Static analysis of the type-checked program (rustc MIR facts of /repo's current working tree). "
                    "DECIDES: " + self.claim + "  DOES NOT DECIDE: " + self.not_decided + " "
                    "Each obligation is one rule instance (a call site, field write, branch edge, table row or compile-fail witness) "
                    "located in the resolved program; a violation names the construct."
                ),
                "programs": programs if programs is not None else self.programs,
                "obligations": len(self.obligations),
                "discharged": len(good),
                "undecided": len(und),
                "evaluations": len(self.obligations),
                "distinct_nontrivial": distinct,
                "rule": "one evaluation per rule instance; non-trivial = the rule's premise matched a construct of the analysed tree (floors and anchors excluded); distinct by rule/function/site key",
                "samples": samples,
                "rules": self.rules,
                "per_rule": per_rule,
                "undecided_list": [{"key": o["key"], "msg": o["msg"]} for o in und],
                "known_findings_reported": [v["key"] for v in viols if (self.pid, v["key"]) in known_keys],
                "notes": self.notes,
            },
            "assumptions": self.assumptions,
            "wall_s": round(wall, 3),
            "violations": len(new_viols),
        }
        ev["coverage"].update(self.extra)
        if self.write_evidence:
            os.makedirs(EVIDENCE_DIR, exist_ok=True)
            with open(os.path.join(EVIDENCE_DIR, "%s.json" % self.pid), "w") as f:
                json.dump(ev, f, indent=1, sort_keys=False)
        for l in lines:
            print(l)
        print(
            "%s [%s] obligations=%d discharged=%d undecided=%d violations=%d known=%d wall=%.1fs"
            % (self.pid, self.tier, len(self.obligations), len(good), len(und), len(new_viols), len(viols) - len(new_viols), wall)
        )
        sys.stdout.flush()
        return 1 if new_viols else 0, ev
