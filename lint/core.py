"""Check bookkeeping: obligations, floors, anchors, known findings, evidence and the exit protocol."""
import json
import os
import re
import sys
import time

VERIF = os.path.dirname(os.path.dirname(os.path.abspath(__file__)))
EVIDENCE_DIR = os.path.join(VERIF, "evidence")
VIOL_DIR = os.path.join(EVIDENCE_DIR, "violations")
KNOWN = os.path.join(VERIF, "known_findings.json")


def load_known():
    try:
        with open(KNOWN) as f:
            j = json.load(f)
    except OSError:
        return {"findings": [], "fixed": []}
    j.setdefault("findings", [])
    j.setdefault("fixed", [])
    return j


class Check:
    def __init__(self, pid, tier="quick", seed=0, claim="", not_decided="", write_evidence=True):
        self.pid = pid
        self.tier = tier
        self.seed = seed
        self.claim = claim
        self.not_decided = not_decided
        self.t0 = time.time()
        self.obligations = []  # dicts
        self.notes = []
        self.assumptions = []
        self.programs = 0
        self.extra = {}
        self.write_evidence = write_evidence
        self.rules = {}
        self.clauses = []

    # ------------------------------------------------------------------ recording
    def rule(self, name, text):
        self.rules[name] = text

    def ob(self, rule, key, ok, msg, where=None, detail=None):
        """one rule instance.  ok: True (discharged) | False (violation) | None (undecided: unrecognised idiom)"""
        self.obligations.append(
            {"rule": rule, "key": "%s/%s" % (rule, key), "ok": ok, "msg": msg, "where": where, "detail": detail}
        )
        return ok

    def violation(self, rule, key, msg, where=None, detail=None):
        return self.ob(rule, key, False, msg, where, detail)

    def undecided(self, rule, key, msg, where=None):
        return self.ob(rule, key, None, msg, where)

    def anchor(self, rule, name, obj):
        """a hard anchor (public item / trait impl) must exist: fail closed"""
        if obj is None or obj == [] or obj is False:
            self.ob(rule, "anchor/" + name, False, "coverage-floor: hard anchor `%s` not found in the fact base" % name)
            return False
        return True

    def floor(self, rule, what, count, minimum):
        ok = count >= minimum
        self.ob(
            rule,
            "floor/" + what,
            ok,
            ("%s: %d instance(s) analysed (floor %d)" % (what, count, minimum))
            if ok
            else ("coverage-floor: %s: only %d instance(s) found, expected at least %d" % (what, count, minimum)),
        )
        return ok

    def note(self, text):
        self.notes.append(text)

    def assume(self, text):
        if text not in self.assumptions:
            self.assumptions.append(text)

    # ------------------------------------------------------------------ finishing
    def finish(self, programs=None):
        known = load_known()
        known_keys = {(k["property"], k["key"]): k for k in known["findings"]}
        viols = [o for o in self.obligations if o["ok"] is False]
        und = [o for o in self.obligations if o["ok"] is None]
        good = [o for o in self.obligations if o["ok"] is True]
        new_viols = []
        lines = []
        for v in viols:
            kk = (self.pid, v["key"])
            if kk in known_keys:
                lines.append("KNOWN-FINDING: property=%s %s [%s]" % (self.pid, known_keys[kk].get("what", v["msg"]), v["key"]))
            else:
                new_viols.append(v)
        os.makedirs(VIOL_DIR, exist_ok=True)
        for v in new_viols:
            fn = os.path.join(VIOL_DIR, "%s-%s.json" % (self.pid, re.sub(r"[^A-Za-z0-9_.-]+", "_", v["key"])[:150]))
            with open(fn, "w") as f:
                json.dump({"property": self.pid, "key": v["key"], "rule": v["rule"], "msg": v["msg"], "where": v["where"], "detail": v["detail"], "tier": self.tier}, f, indent=1)
            lines.append("%s %s %s: %s" % (self.pid, v["rule"], v["where"] or "", v["msg"]))
            lines.append("VIOLATION property=%s replay=%s" % (self.pid, fn))
        wall = time.time() - self.t0
        distinct = len({o["key"] for o in self.obligations if o["ok"] is not None and "/floor/" not in o["key"] and "/anchor/" not in o["key"]})
        samples = []
        for o in (viols + good + und)[:400]:
            samples.append({k: o[k] for k in ("key", "ok", "msg", "where") if o.get(k) is not None or k == "ok"})
        per_rule = {}
        for o in self.obligations:
            r = per_rule.setdefault(o["rule"], {"obligations": 0, "discharged": 0, "violations": 0, "undecided": 0})
            r["obligations"] += 1
            if o["ok"] is True:
                r["discharged"] += 1
            elif o["ok"] is False:
                r["violations"] += 1
            else:
                r["undecided"] += 1
        ev = {
            "property_id": self.pid,
            "tier": self.tier,
            "seed": self.seed,
            "level": "other",
            "coverage": {
                "explanation": (
                    "Static analysis of the type-checked program (rustc MIR facts of /repo's current working tree). "
                    "DECIDES: " + self.claim + "  DOES NOT DECIDE: " + self.not_decided + " "
                    "Each obligation is one rule instance (a call site, field write, branch edge, table row or compile-fail witness) "
                    "located in the resolved program; a violation names the construct."
                ),
                "programs": programs if programs is not None else self.programs,
                "obligations": len(self.obligations),
                "discharged": len(good),
                "undecided": len(und),
                "evaluations": len(self.obligations),
                "distinct_nontrivial": distinct,
                "rule": "one evaluation per rule instance; non-trivial = the rule's premise matched a construct of the analysed tree (floors and anchors excluded); distinct by rule/function/site key",
                "samples": samples,
                "rules": self.rules,
                "per_rule": per_rule,
                "undecided_list": [{"key": o["key"], "msg": o["msg"]} for o in und],
                "known_findings_reported": [v["key"] for v in viols if (self.pid, v["key"]) in known_keys],
                "notes": self.notes,
            },
            "assumptions": self.assumptions,
            "wall_s": round(wall, 3),
            "violations": len(new_viols),
        }
        ev["coverage"].update(self.extra)
        if self.write_evidence:
            os.makedirs(EVIDENCE_DIR, exist_ok=True)
            with open(os.path.join(EVIDENCE_DIR, "%s.json" % self.pid), "w") as f:
                json.dump(ev, f, indent=1, sort_keys=False)
        for l in lines:
            print(l)
        print(
            "%s [%s] obligations=%d discharged=%d undecided=%d violations=%d known=%d wall=%.1fs"
            % (self.pid, self.tier, len(self.obligations), len(good), len(und), len(new_viols), len(viols) - len(new_viols), wall)
        )
        sys.stdout.flush()
        return 1 if new_viols else 0, ev
