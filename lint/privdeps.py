"""Which rule instances lean on the NAME of a private item?

The rules find most of their instances structurally, but many start from the name of a private helper, field or constant
(`link_gene_term`, `all_grandparents`, `FCACHE`, ...).  A behaviour-preserving refactoring may rename or move any of those.
This tool measures the dependence mechanically: for every identifier that names only non-public items it makes a scratch copy of
/repo with that identifier renamed everywhere (`\\bNAME\\b` -> `NAME_zz`), rebuilds the facts, runs every property's rules and
records which obligations stop being discharged.  The result, `lint/private_deps.json`, maps  identifier -> property -> key patterns
(the new name replaced by `*`).

At check time (`core.apply_private_deps`) an identifier of that table that no longer occurs in the program means: the obligations
matching its patterns are UNDECIDED instead of violated (the rule lost its anchor, not the code its property).  Nothing is demoted
while all names are present, so the checks on the unchanged tree and on every seeded change / mutant are unaffected.

usage:  python3 lint/privdeps.py [--jobs N] [name ...]      (regenerates the table; development tool, not part of any check)
"""
import fnmatch
import importlib
import json
import multiprocessing
import os
import re
import shutil
import subprocess
import sys

HERE = os.path.dirname(os.path.abspath(__file__))
sys.path.insert(0, HERE)
import build  # noqa: E402
import core  # noqa: E402
import facts  # noqa: E402

PROPS = "C01 C02 C03 C04 C05 C06 C07 C08 C09 C10 C11 C12 C13 C14 C15 C17 C18 C19 C20".split()
TABLE = os.path.join(HERE, "private_deps.json")
SUFFIX = "_zz"
RUST_WORDS = {"new", "len", "get", "iter", "next", "from", "into", "default", "clone", "fmt", "eq", "hash", "cmp", "insert", "push", "contains", "is_empty", "id", "name", "map", "test", "tests",
              "get_mut", "iter_mut", "values", "keys", "extend", "index", "add", "bitor", "bitand", "try_from", "from_iter", "into_iter", "partial_cmp", "source", "version", "parse", "clear", "retain",
              "with_capacity", "first", "last", "size_hint", "next_back", "min", "max", "drop", "deref", "as_ref", "borrow", "to_string", "from_str", "try_into", "sum", "count", "position"}


def identifiers(prog):
    """identifiers that name ONLY non-public items: private functions / methods, private fields, private constants"""
    public = set()
    private = set()
    for b in prog.production():
        if b.kind not in ("Fn", "AssocFn", "Const"):
            continue
        nm = b.name if b.kind != "Const" else b.id.rsplit("::", 1)[-1]
        if not nm or not re.match(r"^[A-Za-z_][A-Za-z0-9_]*$", nm):
            continue
        is_pub = bool(b.exported or b.reachable or b.impl_trait)
        (public if is_pub else private).add(nm)
    for path, adt in prog.adts.items():
        if adt.get("test"):
            continue
        for v in adt.get("variants", []):
            for f in v.get("fields", []):
                n = f.get("name", "")
                if re.match(r"^[A-Za-z_][A-Za-z0-9_]*$", n):
                    (public if f.get("pub") else private).add(n)
    return sorted(n for n in private - public if n not in RUST_WORDS and len(n) > 2)


def sites_of(prog, names):
    """name -> the qualified items that carry it on the tree the table was generated from (function ids, `Adt.field`): the name
    counts as gone when ANY of them is gone (the same field name can live in several structs)"""
    out = {}
    for n in names:
        ss = []
        for b in prog.production():
            if b.kind in ("Fn", "AssocFn", "Const") and (b.name == n or (b.kind == "Const" and b.id.rsplit("::", 1)[-1] == n)):
                ss.append(b.id)
        for path, adt in prog.adts.items():
            if adt.get("test"):
                continue
            for v in adt.get("variants", []):
                for f in v.get("fields", []):
                    if f.get("name") == n:
                        ss.append("%s.%s" % (path, n))
        out[n] = sorted(set(ss))
    return out


def names_in(prog):
    out = set()
    for b in prog.bodies.values():
        for seg in re.split(r"::|<|>|,| ", b.id):
            if seg:
                out.add(seg)
    for path, adt in prog.adts.items():
        out.add(path.rsplit("::", 1)[-1])
        for v in adt.get("variants", []):
            for f in v.get("fields", []):
                out.add(f.get("name", ""))
    return out


def run_all(root):
    """{pid: {key: ok}} of every obligation on the tree `root`"""
    f = build.ensure_facts(root)
    prog = facts.load(f["lib"])
    out = {}
    for pid in PROPS:
        mod = importlib.import_module("props." + pid)
        ck = core.Check(pid, "quick", 0, claim="", not_decided="", write_evidence=False)
        try:
            mod.run(ck, prog, {"tier": "quick", "seed": 0, "root": root, "facts": f})
        except Exception as e:  # a rule that crashes on the renamed tree is a dependence too
            ck.violation("CRASH", "crash", "%s: %s" % (type(e).__name__, e))
        out[pid] = {}
        for o in ck.obligations:
            if o["ok"] is False:
                out[pid][o["key"]] = False
    return out


def _worker(args):
    name, idx = args
    wd = "/tmp/privdeps-%d" % os.getpid()
    build.CACHE = os.path.join(wd, "cache")
    src = os.path.join(wd, "tree")
    shutil.rmtree(src, ignore_errors=True)
    os.makedirs(src)
    subprocess.run("git -C /repo archive HEAD | tar -x -C %s" % src, shell=True, check=True)
    new = name + SUFFIX
    n = 0
    for dp, dns, fns in os.walk(os.path.join(src, "src")):
        for fn in fns:
            if fn.endswith(".rs"):
                p = os.path.join(dp, fn)
                with open(p) as f:
                    s = f.read()
                s2 = re.sub(r"\b%s\b" % re.escape(name), new, s)
                if s2 != s:
                    n += 1
                    with open(p, "w") as f:
                        f.write(s2)
    if not n:
        return name, None, "not found in src"
    try:
        res = run_all(src)
    except build.BuildError as e:
        return name, None, "does not build after the rename"
    deps = {}
    for pid, keys in res.items():
        ks = sorted({k.replace(new, "*") for k in keys})
        if ks:
            deps[pid] = ks
    return name, deps, None


def main():
    jobs = 10
    args = sys.argv[1:]
    if args and args[0] == "--jobs":
        jobs = int(args[1])
        args = args[2:]
    # the committed tree (HEAD), not the working tree: other tools may have a patch applied to /repo at this moment
    head = "/tmp/privdeps-head"
    shutil.rmtree(head, ignore_errors=True)
    os.makedirs(head)
    subprocess.run("git -C /repo archive HEAD | tar -x -C %s" % head, shell=True, check=True)
    f = build.ensure_facts(head)
    prog = facts.load(f["lib"])
    base = run_all(head)
    assert not any(base[p] for p in base), "the unchanged tree has failing obligations: %s" % {p: v for p, v in base.items() if v}
    names = args or identifiers(prog)
    print("%d identifiers" % len(names))
    table = {}
    if args and os.path.exists(TABLE):
        with open(TABLE) as fh:
            table = json.load(fh)["deps"]
    skipped = {}
    with multiprocessing.Pool(jobs) as pool:
        for name, deps, why in pool.imap_unordered(_worker, [(n, i) for i, n in enumerate(names)]):
            if deps is None:
                skipped[name] = why
            elif deps:
                table[name] = deps
                print(name, {p: len(k) for p, k in deps.items()})
            else:
                table.pop(name, None)
    # a key can carry the names of OTHER private functions (the function an instance sits in): those may be renamed in the same
    # refactoring, so every long private identifier inside a pattern is a wildcard too
    wild = sorted([n for n in identifiers(prog) if len(n) >= 8], key=len, reverse=True)
    for name, deps in table.items():
        for pid, pats in deps.items():
            out = set()
            for pt in pats:
                for w in wild:
                    pt = re.sub(r"(?<![A-Za-z0-9_])%s(?![A-Za-z0-9_])" % re.escape(w), "*", pt)
                out.add(pt)
            deps[pid] = sorted(out)
    sites = sites_of(prog, table)
    with open(TABLE, "w") as fh:
        json.dump({"sites": sites, "generated_from": subprocess.check_output(["git", "-C", "/repo", "rev-parse", "HEAD"], text=True).strip(), "suffix": SUFFIX,
                   "deps": {k: table[k] for k in sorted(table)}, "examined": len(names), "skipped": skipped}, fh, indent=1)
    for d in os.listdir("/tmp"):
        if d.startswith("privdeps-"):
            shutil.rmtree(os.path.join("/tmp", d), ignore_errors=True)
    print("%d identifiers with dependent obligations, %d skipped" % (len(table), len(skipped)))


if __name__ == "__main__":
    main()
