"""Fact base: loads the JSON written by the hpo-facts driver and provides CFG, dominators,
def-use, call graph.  Pure Python 3 standard library.  Nothing here runs or interprets hpo code."""
import json
import os
import re
from collections import defaultdict


class Place:
    __slots__ = ("local", "proj")

    def __init__(self, j):
        self.local = j["l"]
        self.proj = j["p"]

    def fields(self):
        """projection as a tuple of simplified elems: '*' | ('f', name, adt) | ('dc', Variant) | ('idx',) """
        out = []
        for e in self.proj:
            if e == "*":
                out.append("*")
            elif isinstance(e, dict):
                if "f" in e:
                    out.append(("f", e["f"], e["adt"]))
                elif "dc" in e:
                    out.append(("dc", e["dc"]))
                elif "idx" in e:
                    out.append(("idx", e["idx"]))
                elif "cidx" in e:
                    out.append(("cidx", e["cidx"]))
                else:
                    out.append(("sub",))
            else:
                out.append(("opaque",))
        return tuple(out)

    def is_local(self):
        return not self.proj

    def __repr__(self):
        s = "_%d" % self.local
        for e in self.proj:
            if e == "*":
                s = "(*%s)" % s
            elif isinstance(e, dict) and "f" in e:
                s += "." + e["f"]
            elif isinstance(e, dict) and "dc" in e:
                s = "(%s as %s)" % (s, e["dc"])
            elif isinstance(e, dict) and "idx" in e:
                s += "[_%d]" % e["idx"]
            elif isinstance(e, dict) and "cidx" in e:
                s += "[%d]" % e["cidx"]
            else:
                s += "[..]"
        return s


class Operand:
    __slots__ = ("kind", "place", "const")

    def __init__(self, j):
        if "copy" in j:
            self.kind = "copy"
            self.place = Place(j["copy"])
            self.const = None
        elif "move" in j:
            self.kind = "move"
            self.place = Place(j["move"])
            self.const = None
        elif "const" in j:
            self.kind = "const"
            self.place = None
            self.const = j["const"]
        else:
            self.kind = "other"
            self.place = None
            self.const = {"ty": "?", "val": str(j)}

    def is_const(self):
        return self.kind == "const"

    def int_value(self):
        if self.kind == "const":
            return self.const.get("int")
        return None

    def float_value(self):
        if self.kind == "const" and self.const["ty"] in ("f32", "f64"):
            m = re.match(r"^(-?[0-9.eE+-]+?)(_?f(32|64))?$", self.const["val"])
            if m:
                try:
                    return float(m.group(1))
                except ValueError:
                    return None
        return None

    def __repr__(self):
        if self.kind == "const":
            return "const " + self.const["val"]
        return ("move " if self.kind == "move" else "") + repr(self.place)


class Stmt:
    __slots__ = ("k", "place", "rv", "line", "exp", "ops", "raw")

    def __init__(self, j):
        self.k = j["k"]
        self.place = Place(j["place"])
        self.line = j["line"]
        self.exp = j.get("exp")
        self.raw = j
        self.rv = None
        self.ops = []
        if self.k == "assign":
            rv = dict(j["rv"])
            k = rv["k"]
            if k == "use":
                rv["op"] = Operand(rv["op"])
                self.ops = [rv["op"]]
            elif k in ("ref", "rawptr", "discr"):
                rv["place"] = Place(rv["place"])
            elif k == "cast":
                rv["op"] = Operand(rv["op"])
                self.ops = [rv["op"]]
            elif k == "bin":
                rv["l"] = Operand(rv["l"])
                rv["r"] = Operand(rv["r"])
                self.ops = [rv["l"], rv["r"]]
            elif k == "un":
                rv["o"] = Operand(rv["o"])
                self.ops = [rv["o"]]
            elif k == "agg":
                rv["ops"] = [Operand(o) for o in rv["ops"]]
                self.ops = rv["ops"]
            elif k == "repeat":
                rv["op"] = Operand(rv["op"])
                self.ops = [rv["op"]]
            self.rv = rv

    def __repr__(self):
        rv = self.rv
        if rv is None:
            return "%s: %s" % (self.k, self.place)
        k = rv["k"]
        if k == "use":
            r = repr(rv["op"])
        elif k == "ref":
            r = ("&mut " if rv["mut"] else "&") + repr(rv["place"])
        elif k == "bin":
            r = "%s(%r, %r)" % (rv["op"], rv["l"], rv["r"])
        elif k == "un":
            r = "%s(%r)" % (rv["op"], rv["o"])
        elif k == "cast":
            r = "%r as %s (%s)" % (rv["op"], rv["ty"], rv["kind"])
        elif k == "discr":
            r = "discr(%r)" % rv["place"]
        elif k == "agg":
            r = "%s %s%s [%s]" % (
                rv["agg"],
                rv.get("adt", rv.get("closure", "")),
                ("::" + rv["variant"]) if rv.get("variant") else "",
                ", ".join(repr(o) for o in rv["ops"]),
            )
        else:
            r = str({a: b for a, b in rv.items() if a != "k"})
        return "%r = %s" % (self.place, r)


class Callee:
    """Resolved callee of a call terminator (or of a fn item used as a value)."""

    def __init__(self, j):
        self.raw = j
        self.indirect = "indirect" in j
        self.indirect_op = Operand(j["indirect"]) if self.indirect else None
        self.deff = j.get("def")  # unresolved def path
        self.def_args = j.get("def_args")  # with generic args
        self.res = j.get("res")  # resolved def path or None
        self.res_args = j.get("res_args")
        self.res_local = j.get("res_local", False)
        self.trait = j.get("trait")
        self.self_ty = j.get("self_ty")  # {'s','k','adt'} for trait methods
        self.impl_self = j.get("impl_self")
        self.gargs = j.get("gargs", [])
        self.ctor = j.get("ctor", False)
        self.local = j.get("local", False)

    @property
    def name(self):
        """best identity: resolved path if known, else the declared one"""
        return self.res or self.deff or "<indirect>"

    @property
    def method(self):
        """last path segment without generic args"""
        n = self.deff or ""
        n = re.sub(r"::<[^>]*>$", "", n)
        return n.rsplit("::", 1)[-1]

    def is_trait_method(self, trait, method=None):
        if self.trait != trait:
            return False
        return method is None or self.method == method

    def __repr__(self):
        return self.def_args or ("<indirect %r>" % self.indirect_op)


class Term:
    __slots__ = ("k", "raw", "line", "exp", "target", "targets", "otherwise", "discr", "callee", "args", "dest", "cond", "expected", "msg", "place", "discr_ty")

    def __init__(self, j):
        self.k = j["k"]
        self.raw = j
        self.line = j.get("line")
        self.exp = j.get("exp")
        self.target = j.get("target")
        self.targets = None
        self.otherwise = None
        self.discr = None
        self.callee = None
        self.args = []
        self.dest = None
        self.cond = None
        self.expected = None
        self.msg = None
        self.place = None
        self.discr_ty = None
        if self.k == "switch":
            self.discr = Operand(j["discr"])
            self.targets = [(v, t) for v, t in j["targets"]]
            self.otherwise = j["otherwise"]
            self.discr_ty = j.get("discr_ty")
        elif self.k == "call":
            self.callee = Callee(j["func"])
            self.args = [Operand(a) for a in j["args"]]
            self.dest = Place(j["dest"])
            if j.get("fn_line"):
                self.line = j["fn_line"]
        elif self.k == "assert":
            self.cond = Operand(j["cond"])
            self.expected = j["expected"]
            self.msg = j["msg"]
        elif self.k == "drop":
            self.place = Place(j["place"])

    def successors(self):
        if self.k in ("goto", "drop", "assert"):
            return [self.target]
        if self.k == "call":
            return [self.target] if self.target is not None else []
        if self.k == "switch":
            out = []
            for _, t in self.targets:
                if t not in out:
                    out.append(t)
            if self.otherwise not in out:
                out.append(self.otherwise)
            return out
        return []

    def __repr__(self):
        if self.k == "call":
            return "%r = CALL %r(%s) -> bb%s" % (self.dest, self.callee, ", ".join(repr(a) for a in self.args), self.target)
        if self.k == "switch":
            return "switch %r %s else bb%d" % (self.discr, self.targets, self.otherwise)
        if self.k == "assert":
            return "assert(%r == %s, %s) -> bb%s" % (self.cond, self.expected, self.msg, self.target)
        if self.k in ("goto", "drop"):
            return "%s -> bb%s" % (self.k, self.target)
        return self.k


class Block:
    __slots__ = ("stmts", "term", "cleanup")

    def __init__(self, j):
        self.cleanup = j["cleanup"]
        self.stmts = [Stmt(s) for s in j["stmts"]]
        self.term = Term(j["term"])


class Body:
    def __init__(self, j, prog):
        self.prog = prog
        self.id = j["id"]
        self.kind = j["kind"]
        self.file = j["file"]
        self.line = j["line"]
        self.exp = j.get("exp")
        self.test = j.get("test", False)
        self.nargs = j["arg_count"]
        self.vis = j.get("vis")
        self.reachable = j.get("reachable", False)
        self.exported = j.get("exported", False)
        self.name = j.get("name")
        self.sig = j.get("sig")
        self.root = j.get("root")
        self.parent = j.get("parent")
        self.upvars = j.get("upvars", [])
        self.impl_self = j.get("impl_self")
        self.impl_trait = j.get("impl_trait")
        self.impl_trait_ref = j.get("impl_trait_ref")
        self.trait_provided = j.get("trait_provided")
        self.promoted_of = j.get("promoted_of")
        self.spec_of = j.get("spec_of")
        self.locals = j["locals"]
        self.blocks = [Block(b) for b in j["blocks"]]
        self.debug = {}
        self.arg_names = {}
        for d in j["debug"]:
            if "place" in d and not d["place"]["p"]:
                self.debug.setdefault(d["place"]["l"], d["name"])
            if "arg" in d and "place" in d and not d["place"]["p"]:
                self.arg_names[d["place"]["l"]] = d["name"]
        self._cfg()

    # ---------------------------------------------------------------- CFG
    def _cfg(self):
        n = len(self.blocks)
        self.succ = [[] for _ in range(n)]
        self.pred = [[] for _ in range(n)]
        for i, b in enumerate(self.blocks):
            if b.cleanup:
                continue
            for t in b.term.successors():
                if t is None or self.blocks[t].cleanup:
                    continue
                self.succ[i].append(t)
                self.pred[t].append(i)
        # reachable blocks
        seen = {0}
        st = [0]
        order = []
        while st:
            x = st.pop()
            order.append(x)
            for y in self.succ[x]:
                if y not in seen:
                    seen.add(y)
                    st.append(y)
        self.reach = seen
        self.exits = [i for i in seen if self.blocks[i].term.k == "return"]
        self._idom = None
        self._ipdom = None

    def _dominators(self, succ, pred, entry_nodes, nodes):
        # iterative set-based dominators (bodies are small)
        nodes = list(nodes)
        dom = {x: set(nodes) for x in nodes}
        for e in entry_nodes:
            dom[e] = {e}
        changed = True
        while changed:
            changed = False
            for x in nodes:
                if x in entry_nodes:
                    continue
                ps = [p for p in pred[x] if p in dom]
                if ps:
                    new = set.intersection(*(dom[p] for p in ps)) | {x}
                else:
                    new = {x}
                if new != dom[x]:
                    dom[x] = new
                    changed = True
        return dom

    @property
    def dom(self):
        if self._idom is None:
            self._idom = self._dominators(self.succ, self.pred, {0}, self.reach)
        return self._idom

    @property
    def pdom(self):
        """post-dominators w.r.t. a virtual exit joining all return blocks"""
        if self._ipdom is None:
            nodes = set(self.reach)
            EXIT = -1
            succ = {x: list(self.succ[x]) for x in nodes}
            pred = {x: list(self.pred[x]) for x in nodes}
            succ[EXIT] = []
            pred[EXIT] = []
            for e in self.exits:
                succ[e].append(EXIT)
                pred[EXIT].append(e)
            rs = {x: pred[x] for x in list(nodes) + [EXIT]}
            rp = {x: succ[x] for x in list(nodes) + [EXIT]}
            self._ipdom = self._dominators(rs, rp, {EXIT}, list(nodes) + [EXIT])
        return self._ipdom

    def dominates(self, a, b):
        """block a dominates block b"""
        return b in self.dom and a in self.dom[b]

    def pos_dominates(self, pa, pb):
        """position (bb, idx) pa dominates position pb"""
        if pa[0] == pb[0]:
            return pa[1] <= pb[1]
        return self.dominates(pa[0], pb[0])

    def reachable_from(self, start, avoid_edge=None, avoid_blocks=()):
        seen = set()
        st = [start]
        while st:
            x = st.pop()
            if x in seen or x in avoid_blocks:
                continue
            seen.add(x)
            for y in self.succ[x]:
                if avoid_edge is not None and (x, y) == avoid_edge:
                    continue
                st.append(y)
        return seen

    def edge_dominates(self, edge, bb):
        """every path from entry to bb uses CFG edge `edge`"""
        if bb not in self.reach:
            return True
        return bb not in self.reachable_from(0, avoid_edge=edge)

    def region(self, edge):
        """blocks that are reachable only through `edge`"""
        r = self.reachable_from(0, avoid_edge=edge)
        return set(self.reach) - r

    def can_reach(self, a, b, avoid_blocks=()):
        return b in self.reachable_from(a, avoid_blocks=avoid_blocks)

    def natural_loops(self):
        """header block -> set of blocks of the natural loop (union over its back edges)"""
        loops = {}
        for t in self.reach:
            for h in self.succ[t]:
                if self.dominates(h, t):
                    body = loops.setdefault(h, {h})
                    st = [t]
                    while st:
                        x = st.pop()
                        if x in body:
                            continue
                        body.add(x)
                        st.extend(self.pred[x])
        return loops

    def loop_of(self, bb):
        """innermost natural loop (header, blocks) that contains bb, or None"""
        best = None
        for h, blocks in self.natural_loops().items():
            if bb in blocks and (best is None or len(blocks) < len(best[1])):
                best = (h, blocks)
        return best

    # ---------------------------------------------------------------- iteration helpers
    def positions(self):
        for bi in sorted(self.reach):
            b = self.blocks[bi]
            for si, s in enumerate(b.stmts):
                yield (bi, si), s
            yield (bi, len(b.stmts)), b.term

    def calls(self):
        for bi in sorted(self.reach):
            t = self.blocks[bi].term
            if t.k == "call":
                yield bi, t

    def stmts(self):
        for bi in sorted(self.reach):
            for si, s in enumerate(self.blocks[bi].stmts):
                yield (bi, si), s

    def local_name(self, l):
        return self.debug.get(l, "_%d" % l)

    def where(self, line=None):
        return "%s:%s" % (self.file, line if line is not None else self.line)

    @property
    def short(self):
        return short_path(self.id)

    def dump(self):
        out = ["== %s [%s] %s:%d vis=%s" % (self.id, self.kind, self.file, self.line, self.vis)]
        out.append("   args=%d debug=%s" % (self.nargs, self.debug))
        for bi, b in enumerate(self.blocks):
            if b.cleanup or bi not in self.reach:
                continue
            out.append(" bb%d: (pred %s)" % (bi, self.pred[bi]))
            for s in b.stmts:
                out.append("    %r   @%d %s" % (s, s.line, s.exp or ""))
            out.append("    %r   @%s %s" % (b.term, b.term.line, b.term.exp or ""))
        return "\n".join(out)


def short_path(p):
    """human-oriented shortening of a def path (drops module prefixes of the crate)"""
    p = re.sub(r"\b(?:[a-z_0-9]+::)+(?=[A-Z<])", "", p)
    return p


class Program:
    def __init__(self, j, path=None):
        self.path = path
        self.crate = j["crate"]
        self.nonce = j.get("nonce")
        self.test_build = j.get("test_build", False)
        self.bodies = {}
        self.order = []
        for bj in j["bodies"]:
            b = Body(bj, self)
            # several promoted bodies etc. have unique ids; closures too
            self.bodies[b.id] = b
            self.order.append(b.id)
        self.adts = {a["path"]: a for a in j["adts"]}
        self._cg = None
        self._closure_sites = None
        self._raw = {bj["id"]: bj for bj in j["bodies"]}
        self.superseded = set()
        self._specialise_fn_pointer_helpers()
        self._fold_named_float_consts()

    # ---------------------------------------------------------------- context sensitivity by cloning
    def _specialise_fn_pointer_helpers(self):
        """A private helper that CALLS one of its parameters (`fn annotate(&mut self, link: fn(&mut Self, ..) -> .., ..)`) has indirect calls no
        rule can look through.  Where a call site hands it function items (or non-capturing closures coerced to fn pointers), the helper is
        cloned for that site with the indirect calls replaced by direct calls of those functions, and the site is retargeted to the clone
        (`<helper>@<caller>#<bb>`).  This is call-site cloning over the resolved MIR - nothing is executed; on a tree without such helpers (the
        reviewed tree has none) it does nothing.  A helper all of whose call sites were retargeted leaves the production set."""
        import copy
        samples = {}
        for b in self.bodies.values():
            for _, t in b.calls():
                if t.callee.res and not t.callee.indirect and t.callee.res not in samples:
                    samples[t.callee.res] = t.callee.raw

        def param_of(body, place):
            if place is None or place.proj:
                return None
            l, seen = place.local, set()
            while l not in seen:
                seen.add(l)
                if 1 <= l <= body.nargs:
                    # never reassigned
                    if any(st.k == "assign" and st.place.is_local() and st.place.local == l for _, st in body.stmts()):
                        return None
                    return l
                ds = [st for _, st in body.stmts() if st.k == "assign" and st.place.is_local() and st.place.local == l]
                if len(ds) != 1 or ds[0].rv is None:
                    return None
                rv = ds[0].rv
                if rv["k"] == "use" and rv["op"].place is not None and not rv["op"].place.proj:
                    l = rv["op"].place.local
                elif rv["k"] == "ref" and not [e for e in rv["place"].fields() if e != "*"]:
                    l = rv["place"].local
                else:
                    return None
            return None

        def fn_value(body, op, depth=0):
            """(target body id, is_closure) of an operand that is a function item / a capture-free closure, possibly coerced to a fn pointer"""
            if op.kind == "const":
                for v in (op.const.get("res"), op.const.get("fn")):
                    if v in self.bodies:
                        return (v, False)
                return None
            if op.place is None or depth > 6:
                return None
            if op.place.proj:
                # `let (id, terms) = (Gene::id, Gene::hpo_terms);` - component i of a tuple aggregate
                es = [e for e in op.place.fields() if e != "*"]
                if len(es) == 1 and es[0][0] == "f" and str(es[0][1]).isdigit():
                    ds0 = [st for _, st in body.stmts() if st.k == "assign" and st.place.is_local() and st.place.local == op.place.local]
                    if len(ds0) == 1 and ds0[0].rv is not None and ds0[0].rv["k"] == "agg" and ds0[0].rv.get("agg") == "tuple" and int(es[0][1]) < len(ds0[0].rv["ops"]):
                        return fn_value(body, ds0[0].rv["ops"][int(es[0][1])], depth + 1)
                return None
            l = op.place.local
            ds = [st for _, st in body.stmts() if st.k == "assign" and st.place.is_local() and st.place.local == l]
            if len(ds) != 1 or ds[0].rv is None:
                return None
            rv = ds[0].rv
            if rv["k"] in ("use", "cast"):
                return fn_value(body, rv["op"], depth + 1)
            if rv["k"] == "agg" and rv.get("agg") == "closure" and not rv.get("ops") and rv.get("closure") in self.bodies:
                return (rv["closure"], True)
            return None

        for _round in range(2):
            changed = False
            for hid in list(self.order):
                H = self.bodies.get(hid)
                if H is None or H.kind not in ("Fn", "AssocFn") or H.test or H.exported or H.reachable or hid not in self._raw:
                    continue
                used = {}
                generic_params = set()
                for bi, t in H.calls():
                    if t.callee.indirect and t.callee.indirect_op is not None:
                        p_ = param_of(H, t.callee.indirect_op.place)
                        if p_:
                            used.setdefault(p_, []).append(bi)
                    elif t.callee.trait in ("std::ops::Fn", "std::ops::FnMut", "std::ops::FnOnce") and t.callee.res is None and len(t.args) == 2 and t.args[0].place is not None:
                        # `f(a, b)` for a parameter `f: impl Fn(A, B)`:  <F as Fn<(A, B)>>::call(&f, (a, b))
                        p_ = param_of(H, t.args[0].place)
                        if p_:
                            used.setdefault(p_, []).append(bi)
                            generic_params.add(p_)
                if not used or not (set(used) - generic_params):
                    # (helpers whose only function-typed parameters are generic `impl Fn`s - the reviewed tree has three - stay as they are: the rules
                    # and the provenance engine read them through their Fn::call sites)
                    continue
                sites, missed = [], 0
                for caller in list(self.bodies.values()):
                    for bi, t in caller.calls():
                        if t.callee.res != hid:
                            continue
                        tg = {}
                        for p_ in used:
                            v = fn_value(caller, t.args[p_ - 1]) if p_ - 1 < len(t.args) else None
                            if v is None:
                                break
                            if v[1] and p_ in generic_params:
                                # a closure handed to a generic `impl Fn` parameter: the provenance engine binds closure parameters through the
                                # helper's Fn::call sites already (Prov._bind_through_local_consumer); cloning is for what it cannot follow
                                v = None
                                break
                            tg[p_] = v
                        else:
                            sites.append((caller, bi, t, tg))
                            continue
                        missed += 1
                for caller, bi, t, tg in sites:
                    tag = "@%s#%d" % (re.sub(r"^.*::", "", caller.id if caller.kind != "Closure" else caller.id.rsplit("::", 2)[-2] + "::" + caller.id.rsplit("::", 1)[-1]), bi)
                    nid = hid + tag
                    if nid in self.bodies:
                        continue
                    fam = [hid] + [c.id for c in self.bodies.values() if c.kind == "Closure" and c.root == hid and c.id in self._raw]
                    for oid in fam:
                        cj = copy.deepcopy(self._raw[oid])
                        if oid == hid:
                            tuple_defs = {}
                            for blk in cj["blocks"]:
                                for sj in blk["stmts"]:
                                    if sj.get("k") == "assign" and not sj["place"]["p"] and sj.get("rv", {}).get("k") == "agg" and sj["rv"].get("agg") == "tuple":
                                        tuple_defs.setdefault(sj["place"]["l"], []).append(sj["rv"]["ops"])
                            for blk in cj["blocks"]:
                                tj = blk["term"]
                                if tj["k"] == "call" and tj["func"].get("trait") in ("std::ops::Fn", "std::ops::FnMut", "std::ops::FnOnce") and tj["func"].get("res") is None and len(tj["args"]) == 2:
                                    a0 = tj["args"][0].get("move") or tj["args"][0].get("copy")
                                    a1 = tj["args"][1].get("move") or tj["args"][1].get("copy")
                                    p_ = param_of(H, Place(a0)) if a0 else None
                                    if p_ in tg and a1 and not a1["p"] and len(tuple_defs.get(a1["l"], [])) == 1:
                                        target, is_closure = tg[p_]
                                        fj = copy.deepcopy(samples.get(target)) if target in samples else {"def": target, "def_args": target, "local": True, "gargs": [], "res": target, "res_args": target, "res_local": True}
                                        fj["via_fn_param"] = p_
                                        tj["func"] = fj
                                        tj["args"] = ([tj["args"][0]] if is_closure else []) + copy.deepcopy(tuple_defs[a1["l"]][0])
                                    continue
                                if tj["k"] != "call" or "indirect" not in tj["func"]:
                                    continue
                                p_ = param_of(H, Place(tj["func"]["indirect"].get("move") or tj["func"]["indirect"].get("copy"))) if ("move" in tj["func"]["indirect"] or "copy" in tj["func"]["indirect"]) else None
                                if p_ not in tg:
                                    continue
                                target, is_closure = tg[p_]
                                fj = copy.deepcopy(samples.get(target)) if target in samples else {"def": target, "def_args": target, "local": True, "gargs": [], "res": target, "res_args": target, "res_local": True}
                                fj["via_fn_pointer"] = p_
                                tj["func"] = fj
                                if is_closure:
                                    tj["args"] = [{"const": {"ty": "()", "val": "()"}}] + tj["args"]
                        txt = json.dumps(cj).replace(json.dumps(hid + "::{closure")[1:-1], json.dumps(nid + "::{closure")[1:-1])
                        cj = json.loads(txt)
                        cj["id"] = nid if oid == hid else oid.replace(hid, nid, 1)
                        if oid != hid:
                            if cj.get("root") == hid:
                                cj["root"] = nid
                            if cj.get("parent") == hid:
                                cj["parent"] = nid
                        cj["spec_of"] = oid
                        nb = Body(cj, self)
                        nb.spec_of = oid
                        self.bodies[nb.id] = nb
                        self.order.append(nb.id)
                        self._raw[nb.id] = cj
                    t.callee.res = nid
                    t.callee.raw["res"] = nid
                    changed = True
                if sites and not missed:
                    self.superseded.add(hid)
                    for c in self.bodies.values():
                        if c.kind == "Closure" and c.root == hid:
                            self.superseded.add(c.id)
            if not changed:
                break
        self._cg = None

    def _fold_named_float_consts(self):
        """`const EMPTY: f32 = 0.0;` used as an operand reads like the literal it names (integer constants are evaluated by the driver)"""
        lit = {}
        for b in self.bodies.values():
            if b.kind != "Const":
                continue
            sts = [st for _, st in b.stmts() if st.k == "assign" and st.place.is_local() and st.place.local == 0]
            if len(sts) == 1 and len(b.blocks) == 1 and sts[0].rv and sts[0].rv["k"] == "use" and sts[0].rv["op"].kind == "const" and sts[0].rv["op"].float_value() is not None and "def" not in sts[0].rv["op"].const:
                lit[b.id] = sts[0].rv["op"].const["val"]
        if not lit:
            return
        for b in self.bodies.values():
            ops = []
            for _, st in b.stmts():
                ops += list(getattr(st, "ops", []) or [])
            for _, t in b.calls():
                ops += list(t.args)
            for o in ops:
                if o.kind == "const" and o.const.get("def") in lit and o.const.get("ty") in ("f32", "f64") and o.float_value() is None:
                    o.const["named"] = o.const["val"]
                    o.const["val"] = lit[o.const["def"]]

    def body(self, id):
        return self.bodies.get(id)

    def find(self, pattern, kinds=("Fn", "AssocFn")):
        """bodies whose id matches the regex (search)"""
        rx = re.compile(pattern)
        return [b for b in self.bodies.values() if b.kind in kinds and rx.search(b.id)]

    def one(self, pattern, kinds=("Fn", "AssocFn")):
        r = self.find(pattern, kinds)
        return r[0] if len(r) == 1 else None

    def production(self):
        return [b for b in self.bodies.values() if not b.test and b.id not in self.superseded]

    def closures_of(self, body_id):
        """closure bodies nested (transitively) in body_id"""
        out = []
        for b in self.bodies.values():
            if b.kind == "Closure" and b.root == body_id:
                out.append(b)
        return out

    def family(self, body):
        """a body with its nested closures"""
        root = body.id
        return [body] + self.closures_of(root)

    # ---------------------------------------------------------------- call graph
    @property
    def callgraph(self):
        """body id -> set of (callee body id) for crate-local resolved callees, closures created in the
        body, and fn items / closures referenced as values"""
        if self._cg is None:
            cg = defaultdict(set)
            for b in self.bodies.values():
                for _, t in b.calls():
                    c = t.callee
                    if c.res and c.res in self.bodies:
                        cg[b.id].add(c.res)
                    elif c.res is None and c.deff in self.bodies:
                        # unresolved (generic) but declared in the crate: a provided trait method
                        cg[b.id].add(c.deff)
                    for a in t.args:
                        self._value_edges(b, a, cg)
                for _, s in b.stmts():
                    if s.rv is None:
                        continue
                    if s.rv["k"] == "agg" and s.rv.get("agg") == "closure":
                        if s.rv["closure"] in self.bodies:
                            cg[b.id].add(s.rv["closure"])
                    for o in s.ops:
                        self._value_edges(b, o, cg)
            self._cg = cg
        return self._cg

    def _value_edges(self, b, o, cg):
        if o.kind == "const":
            c = o.const
            for key in ("res", "fn", "closure"):
                v = c.get(key)
                if v and v in self.bodies:
                    cg[b.id].add(v)
                    break
            if "promoted" in c:
                pid = "%s::promoted[%d]" % (c["def"], c["promoted"])
                if pid in self.bodies:
                    cg[b.id].add(pid)

    def reachable_bodies(self, start_ids, stop=()):
        seen = set()
        st = list(start_ids)
        while st:
            x = st.pop()
            if x in seen or x in stop:
                continue
            seen.add(x)
            st.extend(self.callgraph.get(x, ()))
        return seen

    def callers_of(self, body_id):
        out = []
        for b in self.bodies.values():
            for bi, t in b.calls():
                c = t.callee
                if c.res == body_id or (c.res is None and c.deff == body_id):
                    out.append((b, bi, t))
        return out

    @property
    def closure_sites(self):
        """closure body id -> list of (parent body, pos, stmt) where the closure value is built"""
        if self._closure_sites is None:
            cs = defaultdict(list)
            for b in self.bodies.values():
                for pos, s in b.stmts():
                    if s.rv and s.rv["k"] == "agg" and s.rv.get("agg") == "closure":
                        cs[s.rv["closure"]].append((b, pos, s))
            self._closure_sites = cs
        return self._closure_sites


def load(path):
    with open(path) as f:
        j = json.load(f)
    return Program(j, path)
