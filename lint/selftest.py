"""Checker self-test: every engine primitive must FIRE on its seeded bad instance in /verif/fixtures and stay silent
on the good twin.  Run at the end of every check (facts of the fixture crate are cached by content hash)."""
import os
import sys

HERE = os.path.dirname(os.path.abspath(__file__))
VERIF = os.path.dirname(HERE)
sys.path.insert(0, HERE)
import absint  # noqa: E402
import build  # noqa: E402
import engines  # noqa: E402
import facts  # noqa: E402
from prov import Prov, field_names  # noqa: E402

_result = None


def run():
    """returns list of (name, ok, detail)"""
    global _result
    if _result is not None:
        return _result
    out = []
    try:
        f = build.ensure_facts(os.path.join(VERIF, "fixtures"))
    except build.BuildError as e:
        _result = [("fixtures-build", False, str(e)[-400:])]
        return _result
    prog = facts.load(f["lib"])
    pv = Prov(prog, inline=False)

    def body(n):
        return prog.body(n)

    # PANIC primitives
    scan = engines.PanicScan(prog)
    for fn, want in (("panic_slice", True), ("panic_unwrap", True), ("panic_index", True), ("total_lookup", False)):
        b = body(fn)
        fnd, und, st = scan.scan([b.id]) if b else ([], [], {})
        out.append(("PANIC/" + fn, b is not None and bool(fnd) == want, "findings=%d" % len(fnd)))
    # endianness
    for fn, want in (("endian_le", ["le"]), ("endian_be", ["be"])):
        b = body(fn)
        fams = [x[2] for x in engines.endian_sites(prog, [b])] if b else None
        out.append(("TABLE/endian/" + fn, fams == want, str(fams)))
    # GUARD
    ai = absint.Interp(prog)
    for fn, want_ok in (("div_unguarded", False), ("div_guarded", True)):
        b = body(fn)
        sites = [s for s in engines.float_div_sites(b) if s["kind"] == "div"] if b else []
        cls = [ai.class_at(b, s["pos"], s["den"]) for s in sites]
        ok = bool(sites) and all((c in (absint.P, absint.NZ)) == want_ok for c in cls)
        out.append(("GUARD/" + fn, ok, str(cls)))
    # SELECT
    pvs = Prov(prog, inline=False, bind_closures=False)
    for fn, want in (("select_min", "min"), ("select_max", "max")):
        b = body(fn)
        sel = [s["kind"] for s in engines.classify_selection(b, pvs)] if b else []
        out.append(("SELECT/" + fn, sel == [want], str(sel)))
    # DOM zero test
    for fn, want in (("Store::get_checked", True), ("Store::get_unguarded", False)):
        b = body(fn)
        if b is None:
            out.append(("DOM/" + fn, False, "missing"))
            continue
        tests = engines.zero_test_edges(b, pv, lambda atoms: "slots" in field_names(atoms, "Store"))
        acc = [bi for bi, t in b.calls() if t.callee.method == "get" and "u32" in (t.callee.def_args or "")]
        ok = bool(acc) and all(any(b.edge_dominates(e, bi) for tst in tests for e in tst["nonzero_edges"]) for bi in acc)
        out.append(("DOM/" + fn, ok == want, "tests=%d access=%d" % (len(tests), len(acc))))
    # ATOMIC
    b = body("Store::set_bad")
    if b is not None:
        ms = engines.MutSummary(prog)
        sites = ms.mutation_sites(b)
        out.append(("ATOMIC/mutation-site", len(sites) == 1 and sites[0]["callee"].method == "push", str([s["what"] for s in sites])))
    else:
        out.append(("ATOMIC/mutation-site", False, "missing"))
    # narrowing cast census
    b = body("narrow")
    casts = [s for _, s in b.stmts() if s.k == "assign" and s.rv["k"] == "cast" and "IntToInt" in s.rv["kind"]] if b else []
    out.append(("GUARD/narrowing-cast", len(casts) == 1 and casts[0].rv["from_ty"] == "usize" and casts[0].rv["ty"] == "u8", str(len(casts))))
    # TAINT source/sink
    b = body("truncate_bytes")
    ok = False
    if b is not None:
        for bi, t in b.calls():
            if t.callee.method == "take" and t.callee.trait == "std::iter::Iterator":
                ok = any(a[0] == "call" and a[1].endswith("str>::as_bytes") for a in pv.of_operand(b, t.args[0]))
    out.append(("TAINT/as_bytes->take", ok, ""))
    _result = out
    return out


def attach(ck):
    res = run()
    bad = [r for r in res if not r[1]]
    ck.extra["selftest"] = {"primitives": len(res), "failed": [r[0] for r in bad]}
    for name, ok, detail in bad:
        ck.violation("SELFTEST", name, "checker-selftest: engine primitive %s does not behave as expected on its fixture (%s): this run is invalid" % (name, detail))
    if not bad:
        ck.ob("SELFTEST", "fixtures", True, "all %d engine primitives fire on their seeded bad instance and stay silent on the good twin (/verif/fixtures)" % len(res))


if __name__ == "__main__":
    for r in run():
        print(r)
