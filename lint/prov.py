"""Provenance: flow-insensitive backward slice of a value to its origins ("atoms"), field- and
path-sensitive for aggregates built in the same body, inter-procedural through crate-local callees
(result inlined, parameters substituted by the call site's arguments) and through closures
(upvars resolved at the closure-creation site, item parameters bound to the receiver of the std
adaptor the closure is passed to).

This is a MAY analysis (over-approximation): rules use it as  required ⊆ atoms  and
forbidden ∩ atoms = ∅, never as equality.  Nothing is evaluated.

Atoms (tuples):
  ('param', body_id, index, path)         parameter of the query's root body (index is the MIR local)
  ('field', adt_path, field_name)         a read of that field (of any base value)
  ('call', callee_name, def_args, body_id, bb, path)   result of a call (path = projection applied to it)
  ('const', ty, val)   ('constdef', def_path)   ('fn', path)   ('closure', path)
  ('op', opname, body_id, bb, idx)        arithmetic / comparison on the way
  ('upvar', closure_id, name)             unresolved captured variable
  ('mutcall', callee_name, body_id, bb)   value was passed by &mut to that call
"""
import re
from facts import Place, Operand

MAX_PATH = 8
MAX_CTX = 5


def strip_generics(name):
    """remove all <...> groups that follow '::' (turbofish), keep leading <T as Trait> forms"""
    out = []
    depth = 0
    i = 0
    n = len(name)
    while i < n:
        if name.startswith("::<", i):
            # skip balanced
            j = i + 2
            d = 0
            while j < n:
                if name[j] == "<":
                    d += 1
                elif name[j] == ">" and name[j - 1] != "-":
                    d -= 1
                    if d == 0:
                        break
                j += 1
            i = j + 1
            continue
        out.append(name[i])
        i += 1
    return "".join(out)


def callee_method(callee):
    return callee.method


# value-preserving std wrappers: result carries arg0 unchanged (same projection path)
PASS_THROUGH = {
    "copied", "cloned", "clone", "deref", "deref_mut", "as_ref", "as_mut", "borrow", "borrow_mut", "into",
    "from", "iter", "iter_mut", "into_iter", "by_ref", "to_vec", "to_string", "to_owned", "as_str", "as_bytes",
    "as_slice", "rev", "skip", "take", "chain", "enumerate_DISABLED", "peekable", "values", "keys", "collect",
    "sum", "min", "max", "trim", "lines", "try_into", "try_from", "unwrap_or_default", "to_lowercase",
    "into_boxed_slice", "into_vec", "from_iter", "step_by", "zip_DISABLED", "index", "index_mut", "get", "get_mut",
    "last", "first", "as_deref", "flatten", "ok", "err", "map_err", "copied", "then_some", "cmp_DISABLED", "abs", "ln", "exp", "sqrt", "sin", "mul", "add",
    "sub", "div", "neg", "not", "bitor", "bitand", "difference", "union", "intersection",
}
UNWRAP_LIKE = {"unwrap", "expect", "unwrap_or", "unwrap_or_else", "unwrap_unchecked", "unwrap_or_default"}
# closure's return value becomes (part of) the result
MAP_LIKE = {
    "map", "filter_map", "flat_map", "and_then", "map_or", "map_or_else", "find_map", "fold", "reduce",
    "or_insert_with", "unwrap_or_else", "then", "map_err", "or_else", "get_or_insert_with",
}
# closure only selects / observes; result carries the receiver's items
FILTER_LIKE = {
    "filter", "find", "any", "all", "position", "skip_while", "take_while", "min_by_key", "max_by_key",
    "inspect", "for_each", "retain", "is_some_and", "min_by", "max_by", "sort_by", "sort_by_key", "and_modify",
}
ITER_ADAPTORS = MAP_LIKE | FILTER_LIKE


def _is_iter_item_adaptor(callee):
    """adaptors whose closure parameter is an *item* of the receiver (vs the payload of an Option)"""
    st = (callee.self_ty or {}).get("s", "") if callee.self_ty else ""
    imp = callee.impl_self or ""
    if callee.trait == "std::iter::Iterator":
        return True
    if imp.startswith("std::option::Option") or imp.startswith("std::result::Result"):
        return False
    if "Entry" in imp or "Entry" in st:
        return False
    return True


class Prov:
    def __init__(self, prog, sources=None, inline=True, mutflow=True, bind_closures=True):
        """sources: predicate(callee) -> label or None.  A source callee cuts the slice: the result is
        ('source', label, body_id, bb, path) and its arguments do not leak."""
        self.prog = prog
        self.sources = sources
        self.inline = inline
        self.mutflow = mutflow
        self.bind_closures = bind_closures
        self._mut_sites = {}
        self._defs = {}

    # ------------------------------------------------------------ per-body indexes
    def defs(self, body):
        d = self._defs.get(body.id)
        if d is None:
            d = {}
            for pos, s in body.stmts():
                if s.k != "assign":
                    continue
                d.setdefault(s.place.local, []).append(("assign", pos, s))
            for bi, t in body.calls():
                d.setdefault(t.dest.local, []).append(("call", (bi, len(body.blocks[bi].stmts)), t))
            self._defs[body.id] = d
        return d

    def mut_sites(self, body):
        """local L -> list of (bb, term, argindex) where &mut L(.proj) (or a reborrow of the &mut local L)
        is an argument of the call"""
        m = self._mut_sites.get(body.id)
        if m is None:
            m = {}
            # temp -> base local for `_t = &mut P`
            tmp = {}
            for pos, s in body.stmts():
                if s.k == "assign" and s.rv["k"] == "ref" and s.rv["mut"] and s.place.is_local():
                    tmp[s.place.local] = s.rv["place"].local
            for bi, t in body.calls():
                for ai, a in enumerate(t.args):
                    if a.place is not None and a.place.is_local() and a.place.local in tmp:
                        base = tmp[a.place.local]
                        m.setdefault(base, []).append((bi, t, ai))
            self._mut_sites[body.id] = m
        return m

    def closure_mut_sites(self, body, local):
        """calls INSIDE closures created in `body` (and closures nested in those) that receive a `&mut` reborrow of the captured
        `local`: list of (closure body, bb, term, argindex).  `acc.insert(x)` inside `for_each(|x| ..)` mutates the captured `acc`."""
        key = (body.id, local)
        got = self._closure_mut.get(key) if hasattr(self, "_closure_mut") else None
        if not hasattr(self, "_closure_mut"):
            self._closure_mut = {}
        if got is None:
            got = [x for x in self._mut_targets(body, lambda pl: pl.local == local, 0) if x[0] is not body]
            self._closure_mut[key] = got
        return got

    def _mut_targets(self, body, pred, depth):
        if depth > 4:
            return []
        tmp = set()
        alias = set()  # `_6 = (*_1).upvar` : a copy of the captured reference
        for pos, s in body.stmts():
            if s.k == "assign" and s.rv["k"] == "use" and s.place.is_local() and s.rv["op"].place is not None and pred(s.rv["op"].place):
                alias.add(s.place.local)
        for pos, s in body.stmts():
            if s.k == "assign" and s.rv["k"] == "ref" and s.rv["mut"] and s.place.is_local() and (pred(s.rv["place"]) or s.rv["place"].local in alias):
                tmp.add(s.place.local)
        if not tmp:
            return []
        res = []
        for bi, t in body.calls():
            for ai, a in enumerate(t.args):
                if a.place is not None and a.place.is_local() and a.place.local in tmp:
                    res.append((body, bi, t, ai))
        for pos, s in body.stmts():
            if s.k == "assign" and s.rv["k"] == "agg" and s.rv.get("agg") == "closure":
                cb = self.prog.bodies.get(s.rv["closure"])
                names = s.rv.get("fields", [])
                if cb is None:
                    continue
                for i, o in enumerate(s.rv["ops"]):
                    if o.place is not None and o.place.is_local() and o.place.local in tmp and i < len(names):
                        nm = names[i]

                        def up(pl, nm=nm):
                            es = [e for e in pl.fields() if e != "*"]
                            return pl.local == 1 and bool(es) and es[0][0] == "f" and es[0][1] == nm and es[0][2].startswith("closure:")
                        res += self._mut_targets(cb, up, depth + 1)
        return res

    # ------------------------------------------------------------ public API
    def of_operand(self, body, op, path=(), def_filter=None):
        out = set()
        self._operand(body, op, tuple(path), (), out, set(), def_filter)
        return frozenset(out)

    def of_place(self, body, place, path=(), def_filter=None):
        out = set()
        self._place(body, place, tuple(path), (), out, set(), def_filter)
        return frozenset(out)

    def of_local(self, body, local, path=(), def_filter=None):
        out = set()
        self._local(body, local, tuple(path), (), out, set(), def_filter)
        return frozenset(out)

    def of_return(self, body, path=()):
        return self.of_local(body, 0, path)

    def through_callers(self, atoms, depth=2):
        """replace the parameter atoms of PRIVATE functions (not reachable from the public API) by the provenance of the arguments
        at their call sites inside the crate: `fn helper(total: usize)` called as `helper(self.genes.len())`"""
        out = set(atoms)
        for _ in range(depth):
            changed = False
            for a in list(out):
                if a[0] != "param":
                    continue
                b = self.prog.bodies.get(a[1])
                if b is None or b.kind not in ("Fn", "AssocFn") or b.reachable or b.impl_trait:
                    continue
                sites = [(cb, t) for cb, bi, t in self.prog.callers_of(b.id)] if hasattr(self.prog, "callers_of") else []
                got = False
                for cb, t in sites:
                    i = a[2] - 1
                    if 0 <= i < len(t.args):
                        # caller side without mutation smear: `helper(&mut xs, n)` makes n flow into xs, and xs is what the other
                        # parameter is read from
                        if getattr(self, "_nomut", None) is None:
                            self._nomut = Prov(self.prog, inline=self.inline, mutflow=False) if self.mutflow else self
                        out |= self._nomut.of_operand(cb, t.args[i], a[3] if len(a) > 3 else ())
                        got = True
                if got:
                    out.discard(a)
                    changed = True
            if not changed:
                break
        return frozenset(out)

    def _resolve_in_ctx(self, body, op, ctx):
        out = set()
        self._operand(body, op, (), ctx, out, set())
        return frozenset(out)

    def of_operand_ctx(self, body, op, ctx, path=()):
        out = set()
        self._operand(body, op, tuple(path), tuple(ctx), out, set())
        return frozenset(out)

    # ------------------------------------------------------------ engine
    def _operand(self, body, op, path, ctx, out, seen, def_filter=None):
        if op.kind == "const":
            c = op.const
            if "fn" in c:
                out.add(("fn", c.get("res") or c["fn"]))
            elif "closure" in c:
                out.add(("closure", c["closure"]))
                self._closure_return(c["closure"], path, out, seen)
            elif "promoted" in c:
                pid = "%s::promoted[%d]" % (c["def"], c["promoted"])
                pb = self.prog.bodies.get(pid)
                if pb is not None:
                    self._local(pb, 0, path, (), out, seen)
                else:
                    out.add(("const", c["ty"], c["val"]))
            elif "def" in c:
                out.add(("constdef", c["def"]))
                out.add(("const", c["ty"], c["val"]))
            else:
                out.add(("const", c["ty"], c["val"]))
            return
        if op.place is None:
            return
        self._place(body, op.place, path, ctx, out, seen, def_filter)

    def _place(self, body, place, path, ctx, out, seen, def_filter=None):
        elems = [e for e in place.fields() if e != "*"]
        # field atoms for every ADT field projection; upvar handling for closure environments
        npath = tuple(elems) + tuple(path)
        for e in elems:
            if e[0] == "f":
                adt = e[2]
                if adt.startswith("closure:"):
                    continue
                if adt not in ("tuple", "?"):
                    out.add(("field", adt, e[1]))
        if body.kind == "Closure" and place.local == 1 and elems and elems[0][0] == "f" and elems[0][2].startswith("closure:"):
            self._upvar(body, elems[0][1], npath[1:], out, seen)
            return
        self._local(body, place.local, npath, ctx, out, seen, def_filter)

    def _norm_path(self, path):
        path = tuple(e for e in path if e != "*")
        if len(path) > MAX_PATH:
            return ()
        return path

    def _local(self, body, local, path, ctx, out, seen, def_filter=None):
        path = self._norm_path(path)
        key = (body.id, local, path, ctx)
        if key in seen:
            return
        seen.add(key)
        defs = self.defs(body).get(local, [])
        is_param = 1 <= local <= body.nargs
        if is_param:
            self._param(body, local, path, ctx, out, seen)
        for kind, pos, x in defs:
            if def_filter is not None and not def_filter(body, pos):
                continue
            if kind == "assign":
                self._assign(body, pos, x, path, ctx, out, seen)
            else:
                self._call(body, pos, x, path, ctx, out, seen)
        # values written through &mut by calls
        for bi, t, ai in (self.mut_sites(body).get(local, []) if self.mutflow else ()):
            c = t.callee
            out.add(("mutcall", c.name, body.id, bi))
            m = c.method
            if m in FILTER_LIKE and m != "and_modify":
                continue
            for aj, a in enumerate(t.args):
                if aj == ai:
                    continue
                self._operand(body, a, (), ctx, out, seen)
        # ... and by calls inside closures that captured the local mutably
        for cb, bi, t, ai in (self.closure_mut_sites(body, local) if self.mutflow else ()):
            c = t.callee
            out.add(("mutcall", c.name, cb.id, bi))
            if c.method in FILTER_LIKE and c.method != "and_modify":
                continue
            for aj, a in enumerate(t.args):
                if aj == ai:
                    continue
                self._operand(cb, a, (), (), out, seen)

    def _assign(self, body, pos, s, path, ctx, out, seen):
        # partial definition  L.f = v : only relevant if the path goes through f (or is empty)
        tgt = [e for e in s.place.fields() if e != "*"]
        if tgt:
            # match the target projection against the path prefix
            i = 0
            while i < len(tgt) and i < len(path) and self._same_elem(tgt[i], path[i]):
                i += 1
            if i < len(tgt) and i < len(path):
                return  # writes a different component
            path = path[i:] if i == len(tgt) else ()
        rv = s.rv
        k = rv["k"]
        if k == "use":
            self._operand(body, rv["op"], path, ctx, out, seen)
        elif k in ("ref", "rawptr"):
            self._place(body, rv["place"], path, ctx, out, seen)
        elif k == "cast":
            self._operand(body, rv["op"], path, ctx, out, seen)
        elif k == "bin":
            out.add(("op", rv["op"], body.id, pos[0], pos[1]))
            self._operand(body, rv["l"], (), ctx, out, seen)
            self._operand(body, rv["r"], (), ctx, out, seen)
        elif k == "un":
            if rv["op"] != "PtrMetadata":
                out.add(("op", rv["op"], body.id, pos[0], pos[1]))
            else:
                out.add(("len",))
            self._operand(body, rv["o"], (), ctx, out, seen)
        elif k == "discr":
            out.add(("discr",))
            self._place(body, rv["place"], (), ctx, out, seen)
        elif k == "agg":
            self._agg(body, rv, path, ctx, out, seen)
        elif k == "repeat":
            self._operand(body, rv["op"], (), ctx, out, seen)

    @staticmethod
    def _same_elem(a, b):
        if a[0] != b[0]:
            return False
        if a[0] == "f":
            return a[1] == b[1]
        if a[0] == "dc":
            return a[1] == b[1]
        return True

    def _agg(self, body, rv, path, ctx, out, seen):
        ops = rv["ops"]
        kind = rv["agg"]
        if kind == "closure":
            out.add(("closure", rv["closure"]))
            self._closure_return(rv["closure"], path, out, seen)
            return
        p = list(path)
        if kind == "adt" and p and p[0][0] in ("okval", "errval"):
            want = ("Some", "Ok", "Continue") if p[0][0] == "okval" else ("Err", "Break")
            if rv["variant"] in want:
                if ops:
                    self._operand(body, ops[0], tuple(p[1:]), ctx, out, seen)
                return
            if rv["variant"] in ("Some", "Ok", "Continue", "Err", "Break", "None"):
                return
            p = p[1:]
        if kind == "adt":
            if p and p[0][0] == "dc":
                if p[0][1] != rv["variant"]:
                    return
                p = p[1:]
            if p and p[0][0] == "f":
                names = rv["fields"]
                if p[0][1] in names:
                    i = names.index(p[0][1])
                    if i < len(ops):
                        self._operand(body, ops[i], tuple(p[1:]), ctx, out, seen)
                    return
                # numeric field of tuple struct/variant
                if p[0][1].isdigit() and int(p[0][1]) < len(ops):
                    self._operand(body, ops[int(p[0][1])], tuple(p[1:]), ctx, out, seen)
                    return
        elif kind == "tuple":
            if p and p[0][0] == "f" and p[0][1].isdigit():
                i = int(p[0][1])
                if i < len(ops):
                    self._operand(body, ops[i], tuple(p[1:]), ctx, out, seen)
                return
        elif kind == "array":
            if p and p[0][0] == "cidx":
                i = p[0][1]
                if i < len(ops):
                    self._operand(body, ops[i], tuple(p[1:]), ctx, out, seen)
                return
            if p and p[0][0] in ("idx", "sub", "item"):
                p = p[1:]
        # whole value (or unmatched path): all operands
        rest = tuple(p) if (p and p[0][0] == "item") else ()
        for o in ops:
            self._operand(body, o, rest, ctx, out, seen)

    def _param(self, body, local, path, ctx, out, seen):
        if ctx:
            frame = ctx[-1]
            kind = frame[0]
            if kind == "call":
                _, cbody_id, cbi = frame
                cbody = self.prog.bodies[cbody_id]
                t = cbody.blocks[cbi].term
                ai = local - 1
                if ai < len(t.args):
                    self._operand(cbody, t.args[ai], path, ctx[:-1], out, seen)
                return
        if body.kind == "Closure" and local >= 2 and self.bind_closures:
            if self._closure_param(body, local, path, out, seen):
                return
        out.add(("param", body.id, local, path))

    # ------------------------------------------------------------ closures
    def _upvar(self, cbody, name, path, out, seen):
        sites = self.prog.closure_sites.get(cbody.id, [])
        done = False
        for pbody, pos, s in sites:
            names = s.rv.get("fields", [])
            if name in names:
                i = names.index(name)
                if i < len(s.rv["ops"]):
                    self._operand(pbody, s.rv["ops"][i], path, (), out, seen)
                    done = True
        if not done:
            out.add(("upvar", cbody.id, name))

    def _closure_return(self, closure_id, path, out, seen):
        """atoms of what a closure returns (used when a closure value flows into a map-like adaptor)"""
        # handled at the adaptor call; a bare closure value contributes only its identity
        return

    def closure_use(self, cbody):
        """Find where the closure value is consumed: returns list of (parent body, bb, term, argindex)."""
        res = []
        for pbody, pos, s in self.prog.closure_sites.get(cbody.id, []):
            # follow the closure local through moves to a call argument
            work = [s.place.local]
            visited = set()
            while work:
                l = work.pop()
                if l in visited:
                    continue
                visited.add(l)
                for p2, s2 in pbody.stmts():
                    if s2.k != "assign":
                        continue
                    rv = s2.rv
                    src = None
                    if rv["k"] == "use" and rv["op"].place is not None:
                        src = rv["op"].place
                    elif rv["k"] in ("ref",):
                        src = rv["place"]
                    if src is not None and src.local == l and s2.place.is_local():
                        work.append(s2.place.local)
                for bi, t in pbody.calls():
                    for ai, a in enumerate(t.args):
                        if a.place is not None and a.place.local == l:
                            res.append((pbody, bi, t, ai))
        return res

    def _closure_param(self, cbody, local, path, out, seen):
        """bind a closure's parameter to the data the consuming adaptor feeds it with"""
        uses = self.closure_use(cbody)
        bound = False
        for pbody, bi, t, ai in uses:
            c = t.callee
            m = c.method
            if c.res_local and c.res in self.prog.bodies:
                # crate-local consumer: bind through its Fn::call sites
                if self._bind_through_local_consumer(cbody, local, path, pbody, bi, t, ai, out, seen):
                    bound = True
                continue
            if m in ITER_ADAPTORS or m in ("or_insert_with",):
                item = (("item",),) if _is_iter_item_adaptor(c) else (("dc", "Some"), ("f", "0", "opt"))
                if m == "fold":
                    # args: recv, init, closure ; closure params: acc (2), item (3)
                    if local == 2:
                        self._operand(pbody, t.args[1], path, (), out, seen)
                        self._local(cbody, 0, path, (), out, seen)
                    else:
                        self._operand(pbody, t.args[0], item + tuple(path), (), out, seen)
                elif m == "reduce":
                    self._operand(pbody, t.args[0], item + tuple(path), (), out, seen)
                    if local == 2:
                        self._local(cbody, 0, path, (), out, seen)
                elif m == "map_or":
                    self._operand(pbody, t.args[0], item + tuple(path), (), out, seen)
                elif m in ("and_modify",):
                    self._operand(pbody, t.args[0], path, (), out, seen)
                else:
                    self._operand(pbody, t.args[0], item + tuple(path), (), out, seen)
                bound = True
        return bound

    def _bind_through_local_consumer(self, cbody, local, path, pbody, bi, t, ai, out, seen):
        callee_body = self.prog.bodies[t.callee.res]
        plocal = ai + 1
        bound = False
        # find  <F as Fn*>::call*(&param, (args,))  in the consumer
        for cbi, ct in callee_body.calls():
            cc = ct.callee
            if cc.trait in ("std::ops::Fn", "std::ops::FnMut", "std::ops::FnOnce") and ct.args:
                recv_atoms = self.of_operand(callee_body, ct.args[0])
                if any(a[0] == "param" and a[2] == plocal for a in recv_atoms):
                    if len(ct.args) > 1:
                        tup = ct.args[1]
                        idx = local - 2
                        self._operand(callee_body, tup, (("f", str(idx), "tuple"),) + tuple(path), (("call", pbody.id, bi),), out, seen)
                        bound = True
        return bound

    # ------------------------------------------------------------ calls
    def _call(self, body, pos, t, path, ctx, out, seen):
        c = t.callee
        name = c.name
        if self.sources is not None:
            label = self.sources(c, body, t, lambda op: self._resolve_in_ctx(body, op, ctx))
            if label is not None:
                out.add(("source", label, body.id, pos[0], path))
                return
        out.add(("call", name, c.def_args or "", body.id, pos[0], path))
        m = c.method
        # ---- crate-local callee: inline its result
        target = None
        if c.res and c.res in self.prog.bodies:
            target = self.prog.bodies[c.res]
        elif c.res is None and c.deff in self.prog.bodies:
            target = self.prog.bodies[c.deff]
        if c.trait in ("std::ops::Fn", "std::ops::FnMut", "std::ops::FnOnce") and c.res in self.prog.bodies:
            # direct call of a closure / fn item: args are (callee, (tuple,)) - inline the closure's return
            tb = self.prog.bodies[c.res]
            if tb.kind == "Closure":
                self._local(tb, 0, path, (), out, seen)
                for a in t.args:
                    self._operand(body, a, (), ctx, out, seen)
                return
        if target is not None and self.inline and target.kind in ("Fn", "AssocFn") and len(ctx) < MAX_CTX:
            frame = ("call", body.id, pos[0])
            if frame not in ctx:
                self._local(target, 0, path, ctx + (frame,), out, seen)
                return
        if c.ctor:
            # tuple struct / variant constructor used as a function
            p = list(path)
            if p and p[0][0] == "dc":
                p = p[1:]
            if p and p[0][0] == "f" and p[0][1].isdigit() and int(p[0][1]) < len(t.args):
                self._operand(body, t.args[int(p[0][1])], tuple(p[1:]), ctx, out, seen)
                return
            for a in t.args:
                self._operand(body, a, (), ctx, out, seen)
            return
        # ---- std wrappers with a known shape
        if c.is_trait_method("std::ops::Try", "branch") and t.args:
            p = list(path)
            if p and p[0] == ("dc", "Continue"):
                p = p[1:]
                if p and p[0][0] == "f":
                    p = p[1:]
                self._operand(body, t.args[0], (("okval",),) + tuple(p), ctx, out, seen)
                return
            if p and p[0] == ("dc", "Break"):
                self._operand(body, t.args[0], (("errval",),), ctx, out, seen)
                return
            self._operand(body, t.args[0], (), ctx, out, seen)
            return
        if m in UNWRAP_LIKE and t.args:
            self._operand(body, t.args[0], (("okval",),) + tuple(path), ctx, out, seen)
            if m == "unwrap_or" and len(t.args) > 1:
                self._operand(body, t.args[1], path, ctx, out, seen)
            if m == "unwrap_or_else" and len(t.args) > 1:
                self._closure_arg_return(body, t.args[1], path, out, seen)
            return
        if m in ("ok_or", "ok_or_else") and t.args:
            p = list(path)
            if p and p[0][0] == "okval":
                self._operand(body, t.args[0], tuple(p), ctx, out, seen)
                return
            if p and p[0][0] == "errval":
                if len(t.args) > 1:
                    self._operand(body, t.args[1], (), ctx, out, seen)
                return
            for a in t.args:
                self._operand(body, a, (), ctx, out, seen)
            return
        if m == "next" and t.args and (c.trait == "std::iter::Iterator" or True):
            p = list(path)
            # Option<Item>: Some.0 / okval -> item of the iterator
            if p and (p[0][0] == "okval"):
                p = p[1:]
            elif len(p) >= 2 and p[0] == ("dc", "Some") and p[1][0] == "f":
                p = p[2:]
            self._operand(body, t.args[0], (("item",),) + tuple(p), ctx, out, seen)
            return
        if m in ("zip", "enumerate") and c.trait == "std::iter::Iterator" and t.args:
            # the item is a pair: `.0` comes from the receiver (zip) / is the running index (enumerate), `.1` from the other side / the receiver
            p = list(path)
            if len(p) >= 2 and p[0][0] == "item" and p[1][0] == "f" and p[1][1] in ("0", "1"):
                side = int(p[1][1])
                rest = tuple(p[2:])
                if m == "zip" and len(t.args) == 2:
                    self._operand(body, t.args[side], (("item",),) + rest, ctx, out, seen)
                    return
                if m == "enumerate":
                    if side == 1:
                        self._operand(body, t.args[0], (("item",),) + rest, ctx, out, seen)
                    return
        if m in MAP_LIKE and t.args:
            # result (item) ⊇ closure return; plus default/init args
            p = list(path)
            if p and p[0][0] in ("item", "okval"):
                p = p[1:]
            elif len(p) >= 2 and p[0] == ("dc", "Some") and p[1][0] == "f":
                p = p[2:]
            got_closure = False
            for ai, a in enumerate(t.args):
                if ai == 0:
                    continue
                if self._closure_arg_return(body, a, tuple(p), out, seen):
                    got_closure = True
                else:
                    self._operand(body, a, tuple(p), ctx, out, seen)
            if not got_closure or m in ("fold", "reduce", "map_or", "map_or_else", "unwrap_or_else", "or_else", "filter_map", "flat_map", "and_then"):
                pass
            if m in ("reduce",):
                self._operand(body, t.args[0], (("item",),) + tuple(p), ctx, out, seen)
            if path and path[0][0] == "errval" and m in ("map", "and_then", "map_or", "inspect"):
                # the error alternative of the receiver passes through unchanged
                self._operand(body, t.args[0], path, ctx, out, seen)
            fn_item = any(self._is_fn_item(body, a) for a in t.args[1:])
            if not got_closure or fn_item or m in ("map_err", "or_else", "unwrap_or_else", "ok_or_else", "inspect", "inspect_err"):
                # the closure only supplies the error / fallback alternative: the payload is the receiver's
                self._operand(body, t.args[0], path, ctx, out, seen)
            return
        if m in FILTER_LIKE and t.args:
            self._operand(body, t.args[0], path, ctx, out, seen)
            return
        if (m in PASS_THROUGH or m.startswith("to_") or m.startswith("as_") or m.startswith("into_")) and t.args:
            self._operand(body, t.args[0], path, ctx, out, seen)
            for a in t.args[1:]:
                self._operand(body, a, (), ctx, out, seen)
            return
        # ---- opaque: transparent in all arguments, projection path is lost
        for a in t.args:
            if self._closure_arg_return(body, a, (), out, seen):
                continue
            self._operand(body, a, (), ctx, out, seen)

    def _is_fn_item(self, body, op):
        """a named function handed to an adaptor (`map(HpoTermId::from)`): it is applied to the receiver's payload, which a
        non-inlining provenance cannot bind to the function's parameter - the receiver is followed instead"""
        cid = self.closure_of_operand(body, op)
        cb = self.prog.bodies.get(cid) if cid is not None else None
        return cb is not None and cb.kind != "Closure"

    def _closure_arg_return(self, body, op, path, out, seen):
        """if `op` is a closure (or fn item) value, add what it returns; True if it was one"""
        cid = self.closure_of_operand(body, op)
        if cid is None:
            return False
        cb = self.prog.bodies.get(cid)
        if cb is None:
            return True
        out.add(("closure" if cb.kind == "Closure" else "fn", cid))
        self._local(cb, 0, path, (), out, seen)
        return True

    def closure_of_operand(self, body, op):
        """the closure body id (or fn item body id) an operand denotes, following moves/refs"""
        if op.kind == "const":
            c = op.const
            if "closure" in c:
                return c["closure"]
            if "fn" in c:
                r = c.get("res") or c["fn"]
                return r if r in self.prog.bodies else None
            return None
        if op.place is None:
            return None
        l = op.place.local
        ty = body.locals[l]
        if ty["k"] not in ("closure", "fndef") and not (ty["k"] in ("ref", "refmut") and ty.get("adt") and ty["adt"] in self.prog.bodies):
            return None
        seen = set()
        work = [l]
        while work:
            x = work.pop()
            if x in seen:
                continue
            seen.add(x)
            for kind, pos, d in self.defs(body).get(x, []):
                if kind != "assign":
                    continue
                rv = d.rv
                if rv["k"] == "agg" and rv.get("agg") == "closure":
                    return rv["closure"]
                if rv["k"] == "use":
                    o = rv["op"]
                    if o.kind == "const":
                        c = o.const
                        if "closure" in c:
                            return c["closure"]
                        if "fn" in c:
                            r = c.get("res") or c["fn"]
                            return r if r in self.prog.bodies else None
                    elif o.place is not None:
                        work.append(o.place.local)
                elif rv["k"] == "ref":
                    work.append(rv["place"].local)
        adt = ty.get("adt")
        if adt in self.prog.bodies:
            return adt
        return None


# ------------------------------------------------------------------ helpers over atom sets
def fields_of(atoms):
    return {(a[1], a[2]) for a in atoms if a[0] == "field"}


def field_names(atoms, adt_suffix=None):
    out = set()
    for a in atoms:
        if a[0] == "field":
            if adt_suffix is None or a[1].endswith(adt_suffix):
                out.add(a[2])
    return out


def calls_of(atoms):
    return {a[1] for a in atoms if a[0] == "call"}


def call_atoms(atoms):
    return [a for a in atoms if a[0] == "call"]


def params_of(atoms, body_id=None):
    return {a[2] for a in atoms if a[0] == "param" and (body_id is None or a[1] == body_id)}


def consts_of(atoms):
    return {a[2] for a in atoms if a[0] == "const"}


def has_call(atoms, rx):
    r = re.compile(rx)
    return any(a[0] == "call" and (r.search(a[1]) or r.search(a[2])) for a in atoms)
