"""Seeded changes (written by independent sub-agents): ingest, confirm, and run the checks against them.

  seeded.py ingest <agent-worktree> <property> <name>   confirm the change in a fresh scratch worktree and store it as
                                                         /verif/seeded/<name>/{patch.diff, seeded_demo.rs, SEEDED.md, meta.json}
  seeded.py check <name> [--all]                        apply the patch to /repo, run the property's quick check (or all),
                                                         ALWAYS undo it afterwards; records the outcome in meta.json
"""
import json
import os
import re
import shutil
import subprocess
import sys
import time

HERE = os.path.dirname(os.path.abspath(__file__))
VERIF = os.path.dirname(HERE)
REPO = "/repo"
SEEDED = os.path.join(VERIF, "seeded")
VERIFY_WT = "/tmp/wt-verify"
TARGET = "/tmp/seeded-target"
ALL = ["C%02d" % i for i in range(1, 21) if i not in (16,)]


def sh(cmd, cwd=None, env=None, timeout=3600):
    e = dict(os.environ, CARGO_NET_OFFLINE="true")
    if env:
        e.update(env)
    r = subprocess.run(cmd, cwd=cwd, env=e, stdout=subprocess.PIPE, stderr=subprocess.STDOUT, text=True, shell=isinstance(cmd, str), timeout=timeout)
    return r.returncode, r.stdout


def test_summary(out):
    res = re.findall(r"^test result: (\w+)\. (\d+) passed; (\d+) failed", out, re.M)
    return [(a, int(b), int(c)) for a, b, c in res]


def extract_needs(text):
    """section (b) of the agent's SEEDED.md: what the change needs in order to manifest"""
    m = re.search(r"\(b\)[^\n]*\n(.*?)(?=\n#+ |\n\*\*\(c\)|\n\(c\)|\n## \(c\)|\Z)", text, re.S)
    txt = m.group(1).strip() if m else None
    if txt is None or len(txt) < 20:
        m = re.search(r"\(b\)\s*(.*?)(?=\(c\))", text, re.S)
        txt = m.group(1).strip() if m else None
    return re.sub(r"\s+", " ", txt or "")[:900] or None


def backfill():
    for d in sorted(os.listdir(SEEDED)):
        mp = os.path.join(SEEDED, d, "meta.json")
        sp = os.path.join(SEEDED, d, "SEEDED.md")
        if os.path.exists(mp) and os.path.exists(sp):
            with open(mp) as f:
                meta = json.load(f)
            with open(sp) as f:
                meta["needs"] = extract_needs(f.read())
            with open(mp, "w") as f:
                json.dump(meta, f, indent=1)


def ingest(wt, pid, name):
    d = os.path.join(SEEDED, name)
    os.makedirs(d, exist_ok=True)
    sh(["git", "-C", wt, "add", "-A", "--", "src"])
    rc, diff = sh(["git", "-C", wt, "diff", "--cached", "--", "src"])
    if not diff.strip():
        print("no source change in", wt)
        return 1
    with open(os.path.join(d, "patch.diff"), "w") as f:
        f.write(diff)
    demo = os.path.join(wt, "tests", "seeded_demo.rs")
    if not os.path.exists(demo):
        print("no demo in", wt)
        return 1
    shutil.copy(demo, os.path.join(d, "seeded_demo.rs"))
    if os.path.exists(os.path.join(wt, "SEEDED.md")):
        shutil.copy(os.path.join(wt, "SEEDED.md"), os.path.join(d, "SEEDED.md"))
    # confirm in my own scratch worktree
    if not os.path.exists(VERIFY_WT):
        rc, out = sh(["git", "-C", REPO, "worktree", "add", "-q", "--detach", VERIFY_WT, "HEAD"])
        if rc:
            print(out)
            return 1
    sh("git checkout -q --detach $(git -C /repo rev-parse HEAD) && git checkout -- . && git clean -fdq -e target", cwd=VERIFY_WT)
    env = {"CARGO_TARGET_DIR": TARGET}
    shutil.copy(os.path.join(d, "seeded_demo.rs"), os.path.join(VERIFY_WT, "tests", "seeded_demo.rs"))
    meta = {"property": pid, "name": name, "base_commit": sh(["git", "-C", REPO, "rev-parse", "HEAD"])[1].strip(), "confirmed_at": time.strftime("%Y-%m-%dT%H:%M:%SZ", time.gmtime())}
    # 1. demo without the change: passes
    rc0, out0 = sh("cargo test --offline --test seeded_demo", cwd=VERIFY_WT, env=env)
    meta["demo_without_change"] = {"rc": rc0, "summary": test_summary(out0)}
    # 2. apply
    rc, out = sh(["git", "apply", os.path.join(d, "patch.diff")], cwd=VERIFY_WT)
    if rc:
        print("patch does not apply:", out)
        return 1
    rc1, out1 = sh("cargo test --offline --test seeded_demo", cwd=VERIFY_WT, env=env)
    meta["demo_with_change"] = {"rc": rc1, "summary": test_summary(out1), "tail": out1[-1500:]}
    # 3. existing suite with the change (demo excluded): lib unit tests + doctests
    os.remove(os.path.join(VERIFY_WT, "tests", "seeded_demo.rs"))
    rc2, out2 = sh("cargo test --offline --workspace --no-fail-fast", cwd=VERIFY_WT, env=env)
    meta["suite_with_change"] = {"rc": rc2, "summary": test_summary(out2)}
    sh("git checkout -- . && git clean -fdq -e target", cwd=VERIFY_WT)
    ok = rc0 == 0 and rc1 != 0 and rc2 == 0 and any(s[1] >= 84 for s in meta["suite_with_change"]["summary"])
    meta["confirmed"] = ok
    meta["ran"] = ["cargo test --offline --test seeded_demo (without change)", "git apply patch.diff", "cargo test --offline --test seeded_demo (with change)", "cargo test --offline --workspace --no-fail-fast (with change, demo removed)"]
    # what it needs to manifest: first paragraph (b) of SEEDED.md if present
    needs = ""
    try:
        with open(os.path.join(d, "SEEDED.md")) as f:
            needs = f.read()
    except OSError:
        pass
    meta["agent_notes_file"] = "SEEDED.md" if needs else None
    meta["needs"] = extract_needs(needs)
    with open(os.path.join(d, "meta.json"), "w") as f:
        json.dump(meta, f, indent=1)
    print(json.dumps({k: meta[k] for k in ("confirmed", "demo_without_change", "demo_with_change", "suite_with_change")}, indent=1)[:1500])
    return 0 if ok else 2


def check(name, all_props=False):
    d = os.path.join(SEEDED, name)
    with open(os.path.join(d, "meta.json")) as f:
        meta = json.load(f)
    rc, out = sh(["git", "-C", REPO, "status", "--porcelain", "--untracked-files=no"])
    if out.strip():
        print("refusing: /repo has local modifications:\n" + out)
        return 1
    rc, out = sh(["git", "-C", REPO, "apply", os.path.join(d, "patch.diff")])
    if rc:
        print("patch does not apply to /repo:", out)
        return 1
    results = {}
    try:
        props = ALL if all_props else [meta["property"]]
        for pid in props:
            rc, out = sh([os.path.join(VERIF, "bin", "check"), pid, "--tier", "quick", "--no-evidence"], cwd=VERIF)
            viol = [l for l in out.splitlines() if l.startswith(pid + " ") and "VIOLATION" not in l and "obligations=" not in l]
            results[pid] = {"rc": rc, "reports": viol[:6]}
    finally:
        sh(["git", "-C", REPO, "checkout", "--", "."])
    rc, out = sh(["git", "-C", REPO, "status", "--porcelain", "--untracked-files=no"])
    assert not out.strip(), "repo not restored!"
    meta["checks"] = results
    meta["caught_by"] = sorted(p for p, r in results.items() if r["rc"] == 1)
    meta["checked_at"] = time.strftime("%Y-%m-%dT%H:%M:%SZ", time.gmtime())
    with open(os.path.join(d, "meta.json"), "w") as f:
        json.dump(meta, f, indent=1)
    for p, r in results.items():
        if r["rc"] != 0:
            print(p, "rc=%d" % r["rc"])
            for l in r["reports"]:
                print("    ", l[:300])
    print("caught_by:", meta["caught_by"])
    return 0


def check_scratch(name):
    """like `check --all`, on a scratch copy of /repo's HEAD with the patch applied (several can run in parallel; /repo is not touched)"""
    import tempfile
    d = os.path.join(SEEDED, name)
    with open(os.path.join(d, "meta.json")) as f:
        meta = json.load(f)
    root = tempfile.mkdtemp(prefix="hpo-seeded-")
    try:
        sh("git -C /repo archive HEAD | tar -x -C %s" % root)
        rc, out = sh(["patch", "-p1", "-s", "-i", os.path.join(d, "patch.diff")], cwd=root)
        if rc:
            print("patch does not apply:", out)
            return 1
        results = {}
        for pid in ALL:
            rc, out = sh([os.path.join(VERIF, "bin", "check"), pid, "--tier", "quick", "--no-evidence", "--root", root], cwd=VERIF)
            viol = [l for l in out.splitlines() if l.startswith(pid + " ") and "VIOLATION" not in l and "obligations=" not in l]
            results[pid] = {"rc": rc, "reports": viol[:6]}
    finally:
        shutil.rmtree(root, ignore_errors=True)
    meta["checks"] = results
    meta["caught_by"] = sorted(p for p, r in results.items() if r["rc"] == 1)
    meta["checked_at"] = time.strftime("%Y-%m-%dT%H:%M:%SZ", time.gmtime())
    meta["checked_on"] = "scratch copy of HEAD with the patch applied"
    with open(os.path.join(d, "meta.json"), "w") as f:
        json.dump(meta, f, indent=1)
    print(name, "caught_by:", meta["caught_by"])
    return 0


REFACTORS = os.path.join(VERIF, "refactors")


def ingest_refactor(wt, pid, name):
    """a behaviour-preserving refactoring written by an independent sub-agent: store it, confirm that the suite passes with it"""
    d = os.path.join(REFACTORS, name)
    os.makedirs(d, exist_ok=True)
    # new files (a private module added by the refactoring) are part of the change: stage src/ in the worktree's own index first
    sh(["git", "-C", wt, "add", "-A", "--", "src"])
    rc, diff = sh(["git", "-C", wt, "diff", "--cached", "--", "src"])
    if not diff.strip():
        print("no source change in", wt)
        return 1
    with open(os.path.join(d, "patch.diff"), "w") as f:
        f.write(diff)
    if os.path.exists(os.path.join(wt, "REFACTOR.md")):
        shutil.copy(os.path.join(wt, "REFACTOR.md"), os.path.join(d, "REFACTOR.md"))
    if not os.path.exists(VERIFY_WT):
        sh(["git", "-C", REPO, "worktree", "add", "-q", "--detach", VERIFY_WT, "HEAD"])
    sh("git checkout -q --detach $(git -C /repo rev-parse HEAD) && git checkout -- . && git clean -fdq -e target", cwd=VERIFY_WT)
    rc, out = sh(["git", "apply", os.path.join(d, "patch.diff")], cwd=VERIFY_WT)
    if rc:
        print("patch does not apply:", out)
        return 1
    rc2, out2 = sh("cargo test --offline --workspace --no-fail-fast", cwd=VERIFY_WT, env={"CARGO_TARGET_DIR": TARGET})
    sh("git checkout -- . && git clean -fdq -e target", cwd=VERIFY_WT)
    summ = test_summary(out2)
    ok = rc2 == 0 and any(x[1] >= 84 for x in summ)
    meta = {"property": pid, "name": name, "kind": "behaviour-preserving refactoring (independent sub-agent)", "base_commit": sh(["git", "-C", REPO, "rev-parse", "HEAD"])[1].strip(),
            "suite_with_change": {"rc": rc2, "summary": summ}, "confirmed": ok, "lines_changed": len([l for l in diff.splitlines() if l[:1] in "+-" and l[:3] not in ("+++", "---")]),
            "ran": ["git apply patch.diff", "cargo test --offline --workspace --no-fail-fast"]}
    with open(os.path.join(d, "meta.json"), "w") as f:
        json.dump(meta, f, indent=1)
    print(json.dumps({k: meta[k] for k in ("confirmed", "suite_with_change", "lines_changed")}))
    return 0 if ok else 2


def check_refactor(name):
    d = os.path.join(REFACTORS, name)
    with open(os.path.join(d, "meta.json")) as f:
        meta = json.load(f)
    rc, out = sh(["git", "-C", REPO, "status", "--porcelain", "--untracked-files=no"])
    if out.strip():
        print("refusing: /repo has local modifications:\n" + out)
        return 1
    rc, out = sh(["git", "-C", REPO, "apply", os.path.join(d, "patch.diff")])
    if rc:
        print("patch does not apply to /repo:", out)
        return 1
    results = {}
    try:
        for pid in ALL:
            rc, out = sh([os.path.join(VERIF, "bin", "check"), pid, "--tier", "quick", "--no-evidence"], cwd=VERIF)
            lines = out.splitlines()
            viol = [l for l in lines if l.startswith(pid + " ") and "VIOLATION" not in l and "obligations=" not in l]
            summ = [l for l in lines if "obligations=" in l]
            und = re.search(r"undecided=(\d+)", summ[-1]) if summ else None
            results[pid] = {"rc": rc, "reports": viol[:6], "undecided": int(und.group(1)) if und else None}
    finally:
        sh(["git", "-C", REPO, "checkout", "--", "."])
    rc, out = sh(["git", "-C", REPO, "status", "--porcelain", "--untracked-files=no"])
    assert not out.strip(), "repo not restored!"
    meta["checks"] = results
    meta["alarms"] = sorted(p for p, r in results.items() if r["rc"] != 0)
    meta["undecided"] = {p: r["undecided"] for p, r in results.items() if r["undecided"]}
    meta["checked_at"] = time.strftime("%Y-%m-%dT%H:%M:%SZ", time.gmtime())
    with open(os.path.join(d, "meta.json"), "w") as f:
        json.dump(meta, f, indent=1)
    for p, r in results.items():
        if r["rc"] != 0:
            print(p, "rc=%d" % r["rc"])
            for l in r["reports"]:
                print("    ", l[:300])
    print("alarms:", meta["alarms"], "undecided:", meta["undecided"])
    return 0


def check_refactor_scratch(name):
    """like check-refactor, on a scratch copy of HEAD (parallel-safe; /repo is not touched)"""
    import tempfile
    d = os.path.join(REFACTORS, name)
    with open(os.path.join(d, "meta.json")) as f:
        meta = json.load(f)
    root = tempfile.mkdtemp(prefix="hpo-refactor-")
    try:
        sh("git -C /repo archive HEAD | tar -x -C %s" % root)
        rc, out = sh(["patch", "-p1", "-s", "-i", os.path.join(d, "patch.diff")], cwd=root)
        if rc:
            print("patch does not apply:", out)
            return 1
        results = {}
        for pid in ALL:
            rc, out = sh([os.path.join(VERIF, "bin", "check"), pid, "--tier", "quick", "--no-evidence", "--root", root], cwd=VERIF)
            lines = out.splitlines()
            viol = [l for l in lines if l.startswith(pid + " ") and "VIOLATION" not in l and "obligations=" not in l]
            summ = [l for l in lines if "obligations=" in l]
            und = re.search(r"undecided=(\d+)", summ[-1]) if summ else None
            results[pid] = {"rc": rc, "reports": viol[:6], "undecided": int(und.group(1)) if und else None}
    finally:
        shutil.rmtree(root, ignore_errors=True)
    meta["checks"] = results
    meta["alarms"] = sorted(p for p, r in results.items() if r["rc"] != 0)
    meta["undecided"] = {p: r["undecided"] for p, r in results.items() if r["undecided"]}
    meta["checked_at"] = time.strftime("%Y-%m-%dT%H:%M:%SZ", time.gmtime())
    meta["checked_on"] = "scratch copy of HEAD with the patch applied"
    with open(os.path.join(d, "meta.json"), "w") as f:
        json.dump(meta, f, indent=1)
    print(name, "alarms:", meta["alarms"], "undecided:", meta["undecided"])
    return 0


if __name__ == "__main__":
    if sys.argv[1] == "check-refactor-scratch":
        sys.exit(check_refactor_scratch(sys.argv[2]))
    if sys.argv[1] == "ingest":
        sys.exit(ingest(sys.argv[2], sys.argv[3], sys.argv[4]))
    elif sys.argv[1] == "ingest-refactor":
        sys.exit(ingest_refactor(sys.argv[2], sys.argv[3], sys.argv[4]))
    elif sys.argv[1] == "check-refactor":
        sys.exit(check_refactor(sys.argv[2]))
    elif sys.argv[1] == "backfill":
        backfill()
    elif sys.argv[1] == "check-scratch":
        sys.exit(check_scratch(sys.argv[2]))
    elif sys.argv[1] == "check":
        sys.exit(check(sys.argv[2], "--all" in sys.argv))
