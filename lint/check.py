"""bin/check: runs the static rules of one property against /repo's current working tree."""
import argparse
import importlib
import json
import os
import sys
import traceback

HERE = os.path.dirname(os.path.abspath(__file__))
sys.path.insert(0, HERE)
import build  # noqa: E402
import core  # noqa: E402
import facts  # noqa: E402


def run_property(pid, tier, seed, root=None, write_evidence=True):
    mod = importlib.import_module("props." + pid)
    ck = core.Check(pid, tier, seed, claim=mod.CLAIM, not_decided=mod.NOT_DECIDED, write_evidence=write_evidence)
    try:
        f = build.ensure_facts(root)
    except build.BuildError as e:
        ck.violation("BUILD", "facts", "the tree does not type-check or the driver produced no facts: %s" % str(e)[-1500:])
        return ck.finish(programs=0)
    prog = facts.load(f["lib"])
    ck.programs = len([b for b in prog.bodies.values() if b.kind in ("Fn", "AssocFn", "Closure")])
    ck.extra["facts_key"] = f["key"]
    ck.extra["checker_cmd"] = "bin/check %s --tier %s" % (pid, tier)
    ck.extra["trusted_base"] = [
        "rustc nightly MIR construction and callee resolution",
        "std/smallvec/hashbrown/tracing summaries (DESIGN 3.0)",
        "hpo-facts extractor",
    ]
    ctx = {"tier": tier, "seed": seed, "root": root or build.REPO, "facts": f}
    try:
        mod.run(ck, prog, ctx)
    except Exception as e:  # a rule met a shape it does not handle: what was recorded so far stands, the rest is not decided
        import traceback as _tb
        if os.environ.get("HPO_LINT_STRICT"):
            raise
        sys.stderr.write("CHECKER-NOTE property=%s: a rule stopped at an unrecognised construct (%s: %s); reported as undecided\n" % (pid, type(e).__name__, e))
        ck.undecided("CRASH", "rules", "the rule set stopped at an unrecognised construct (%s: %s, %s); the obligations recorded before that point stand, the remaining rules decided nothing on this tree" % (
            type(e).__name__, e, _tb.extract_tb(e.__traceback__)[-1].lineno))
    core.apply_private_deps(ck, prog)
    import selftest
    ck.rule("SELFTEST", "every engine primitive fires on its seeded bad instance in /verif/fixtures (DESIGN 2.4)")
    selftest.attach(ck)
    if tier == "thorough":
        import mutants
        import witness
        ck.rule("MUTANT", "checker-sensitivity corpus: every seeded defect is reported naming the instance, every behaviour-preserving refactor stays silent (DESIGN 9)")
        witness.run(ck, pid, ctx)
        mutants.run(ck, pid, ctx)
    return ck.finish()


def main():
    ap = argparse.ArgumentParser()
    ap.add_argument("pid", nargs="?")
    ap.add_argument("--tier", default=os.environ.get("VERIF_TIER", "quick"))
    ap.add_argument("--replay")
    ap.add_argument("--root")
    ap.add_argument("--no-evidence", action="store_true")
    a = ap.parse_args()
    seed = int(os.environ.get("VERIF_SEED", "0") or 0)
    if a.replay:
        with open(a.replay) as f:
            r = json.load(f)
        pid = r["property"]
        rc, ev = run_property(pid, r.get("tier", "quick"), seed, a.root, write_evidence=False)
        still = [s for s in ev["coverage"]["samples"] if s["key"] == r["key"] and s["ok"] is False]
        print("REPLAY %s %s: %s" % (pid, r["key"], "still violated" if still else "no longer violated"))
        sys.exit(1 if still else 0)
    if not a.pid:
        ap.error("property id required")
    try:
        rc, _ = run_property(a.pid, a.tier, seed, a.root, write_evidence=not a.no_evidence)
    except Exception:
        traceback.print_exc()
        print("CHECKER-ERROR property=%s" % a.pid)
        sys.exit(2)
    sys.exit(rc)


if __name__ == "__main__":
    main()
