"""WIT: compile-fail witnesses (thorough tier).  The witness crate path-depends on the tree under analysis;
`cargo +nightly test --doc` runs rustc on every doctest: a `compile_fail,E0xxx` block must fail with exactly that
error code, its twin must compile.  The type checker is the deciding step."""
import os
import re
import shutil
import subprocess
import sys

HERE = os.path.dirname(os.path.abspath(__file__))
VERIF = os.path.dirname(HERE)
sys.path.insert(0, HERE)
import build  # noqa: E402

SERVES = {
    "C01": ["w01", "w02", "w04", "w07", "w08", "w09", "w10", "w11", "w13", "w15", "w16"],
    "C02": ["w03", "w06", "w08"],
    "C03": ["w05", "w14", "w09"],
    "C12": ["w16"],
    "C15": ["w01", "w02", "w03", "w04", "w05", "w06", "w07", "w10", "w11", "w12", "w13", "w14", "w15"],
}
_cache = {}


def run_witnesses(root):
    key = build.tree_hash(root)
    if key in _cache:
        return _cache[key]
    wd = os.path.join(build.CACHE, "witness-%s-%d" % (key, os.getpid()))  # per process: thorough runs of several properties may overlap
    shutil.rmtree(wd, ignore_errors=True)
    os.makedirs(os.path.join(wd, "src"))
    with open(os.path.join(VERIF, "witness", "Cargo.toml.in")) as f:
        toml = f.read().replace("@HPO_ROOT@", root)
    with open(os.path.join(wd, "Cargo.toml"), "w") as f:
        f.write(toml)
    shutil.copy(os.path.join(VERIF, "witness", "src", "lib.rs"), os.path.join(wd, "src", "lib.rs"))
    lock = os.path.join(root, "Cargo.lock")
    if os.path.exists(lock):
        shutil.copy(lock, os.path.join(wd, "Cargo.lock"))
    env = dict(os.environ, CARGO_NET_OFFLINE="true", CARGO_TARGET_DIR=os.path.join(build.CACHE, "witness-target"))
    env.pop("RUSTC_WORKSPACE_WRAPPER", None)
    r = subprocess.run(["cargo", "+nightly", "test", "--doc", "--offline"], cwd=wd, env=env, stdout=subprocess.PIPE, stderr=subprocess.STDOUT, text=True)
    out = r.stdout
    res = {}
    for m in re.finditer(r"^test src/lib\.rs - (w\d+)_(\w+) \(line (\d+)\)( - compile fail)? \.\.\. (\w+)", out, re.M):
        wid, name, line, cf, status = m.group(1), m.group(2), int(m.group(3)), bool(m.group(4)), m.group(5)
        res.setdefault(wid, {"name": name, "fail": None, "twin": None})
        res[wid]["fail" if cf else "twin"] = status == "ok"
    shutil.rmtree(wd, ignore_errors=True)
    info = {"results": res, "raw_tail": out[-3000:], "rc": r.returncode}
    _cache[key] = info
    return info


def run(ck, pid, ctx):
    ids = SERVES.get(pid)
    if not ids:
        return
    ck.rule("WIT", "compile_fail,E0xxx doctests with compiling twins: the violating program does not type-check (DESIGN 3.16)")
    info = run_witnesses(ctx.get("root") or build.REPO)
    res = info["results"]
    if not res:
        ck.violation("WIT", "harness", "checker-selftest: the witness crate produced no doctest results:\n" + info["raw_tail"][-1200:])
        return
    n = 0
    for wid in ids:
        r = res.get(wid)
        if r is None:
            ck.violation("WIT", wid, "checker-selftest: witness %s did not run" % wid)
            continue
        n += 1
        if r["twin"] is not True:
            ck.violation("WIT", "%s_%s/twin" % (wid, r["name"]), "checker-selftest: the compiling twin of witness %s (%s) no longer compiles: the witness would pass for an unrelated reason" % (wid, r["name"]))
            continue
        ck.ob("WIT", "%s_%s" % (wid, r["name"]), r["fail"] is True,
              ("witness %s: `%s` is rejected by the type checker with the expected error code; its twin compiles" % (wid, r["name"].replace("_", " "))) if r["fail"] else
              ("witness %s: `%s` now COMPILES (or fails with another error): the typestate / encapsulation it documents no longer holds" % (wid, r["name"].replace("_", " "))))
    ck.extra["witnesses"] = n


if __name__ == "__main__":
    import json
    print(json.dumps(run_witnesses(sys.argv[1] if len(sys.argv) > 1 else build.REPO), indent=1)[:6000])
