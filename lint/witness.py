"""WIT: compile-fail witnesses (thorough tier) - placeholder until the witness crate is wired in"""


def run(ck, pid, ctx):
    ck.note("witness crate not wired in yet")
