"""Regenerates the per-property table of DESIGN.md section 10.4 (between the RULES-TABLE markers) from the committed evidence
files and the mutant corpora."""
import json
import os
import sys

HERE = os.path.dirname(os.path.abspath(__file__))
VERIF = os.path.dirname(HERE)
sys.path.insert(0, HERE)
import mutants  # noqa: E402
import witness  # noqa: E402

BEGIN, END = "<!-- RULES-TABLE-BEGIN -->", "<!-- RULES-TABLE-END -->"


def main():
    rows = ["| id | obligations on today's tree, by rule (quick tier) | mutants: break / keep | witnesses |", "|---|---|---|---|"]
    tb = tk = 0
    for i in range(1, 21):
        pid = "C%02d" % i
        ep = os.path.join(VERIF, "evidence", pid + ".json")
        if not os.path.exists(ep):
            continue
        with open(ep) as f:
            ev = json.load(f)
        per = ev["coverage"].get("per_rule", {})
        cells = ", ".join("%s %d" % (r, v["obligations"]) for r, v in sorted(per.items()))
        specs = mutants.load_specs(pid)
        nb = len([m for m in specs if m["kind"] == "break"])
        nk = len([m for m in specs if m["kind"] == "keep"])
        tb += nb
        tk += nk
        rows.append("| %s | %s (total %d) | %d / %d | %d |" % (pid, cells, ev["coverage"]["evaluations"], nb, nk, len(witness.SERVES.get(pid, []))))
    rows.append("| all | | %d / %d | 16 distinct |" % (tb, tk))
    table = "\n".join(rows)
    p = os.path.join(VERIF, "DESIGN.md")
    with open(p) as f:
        s = f.read()
    if BEGIN in s:
        s = s[: s.index(BEGIN) + len(BEGIN)] + "\n" + table + "\n" + s[s.index(END):]
        with open(p, "w") as f:
            f.write(s)
    else:
        print(table)


if __name__ == "__main__":
    main()
