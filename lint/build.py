"""Produces the fact base for a source tree: runs `cargo +nightly check --offline` with the hpo-facts
driver injected as RUSTC_WORKSPACE_WRAPPER.  Facts are cached by a content hash of the tree."""
import fcntl
import glob
import hashlib
import json
import os
import shutil
import subprocess
import sys
import time

VERIF = os.path.dirname(os.path.dirname(os.path.abspath(__file__)))
REPO = os.environ.get("HPO_REPO", "/repo")
CACHE = os.path.join(VERIF, ".cache")
DRIVER_DIR = os.path.join(VERIF, "driver")
DRIVER = os.path.join(DRIVER_DIR, "target", "release", "hpo-facts")
SLOTS = int(os.environ.get("HPO_FACT_SLOTS", "8"))  # cargo target directories used in parallel by concurrent extractions (each ~150 MB)
SKIP_DIRS = {"target", ".git"}


def tree_hash(root):
    h = hashlib.sha256()
    for dp, dns, fns in os.walk(root):
        dns[:] = sorted(d for d in dns if not (dp == root and d in SKIP_DIRS))
        for fn in sorted(fns):
            p = os.path.join(dp, fn)
            rel = os.path.relpath(p, root)
            # only what the build reads
            if not (rel.endswith(".rs") or rel.endswith(".toml") or rel.endswith(".lock") or rel.endswith(".md")):
                continue
            h.update(rel.encode())
            h.update(b"\0")
            try:
                with open(p, "rb") as f:
                    h.update(f.read())
            except OSError:
                pass
            h.update(b"\0")
    # the driver is part of the key
    try:
        with open(os.path.join(DRIVER_DIR, "src", "main.rs"), "rb") as f:
            h.update(f.read())
    except OSError:
        pass
    return h.hexdigest()[:24]


def nightly_sysroot():
    return subprocess.check_output(["rustc", "+nightly", "--print", "sysroot"], text=True).strip()


def ensure_driver():
    if os.path.exists(DRIVER) and os.path.getmtime(DRIVER) >= os.path.getmtime(os.path.join(DRIVER_DIR, "src", "main.rs")):
        return
    env = dict(os.environ, CARGO_NET_OFFLINE="true")
    r = subprocess.run(["cargo", "build", "--release", "--offline"], cwd=DRIVER_DIR, env=env, stdout=subprocess.PIPE, stderr=subprocess.STDOUT, text=True)
    if r.returncode != 0:
        sys.stderr.write(r.stdout)
        raise SystemExit("hpo-facts driver failed to build")


class BuildError(Exception):
    pass


def ensure_facts(root=None, targets="lib", quiet=True):
    """returns dict: {'lib': path, ...}; builds when not cached.  targets: 'lib' | 'all'"""
    root = root or REPO
    os.makedirs(CACHE, exist_ok=True)
    key = tree_hash(root)
    outdir = os.path.join(CACHE, "facts", "%s-%s" % (key, targets))
    marker = os.path.join(outdir, "DONE")
    # Locking: one lock per KEY (two processes that want the facts of the same tree: the second waits and finds them cached), and a small pool of
    # cargo target directories ("slots"), each used by one build at a time, so that different trees are extracted in parallel.  (One global
    # lock around a ~10 s extraction made every sweep over hundreds of scratch trees serial.)
    os.makedirs(os.path.join(CACHE, "locks"), exist_ok=True)
    lock = open(os.path.join(CACHE, "locks", "key-%s-%s" % (key, targets)), "w")
    fcntl.flock(lock, fcntl.LOCK_EX)
    slot_lock = None
    try:
        if os.path.exists(marker):
            try:
                os.utime(outdir)
            except OSError:
                pass
            return _collect(outdir, key)
        glock = open(os.path.join(CACHE, "lock"), "w")
        fcntl.flock(glock, fcntl.LOCK_EX)
        try:
            ensure_driver()
        finally:
            fcntl.flock(glock, fcntl.LOCK_UN)
            glock.close()
        slot = None
        while slot is None:
            for i in range(SLOTS):
                f_ = open(os.path.join(CACHE, "locks", "slot-%d" % i), "w")
                try:
                    fcntl.flock(f_, fcntl.LOCK_EX | fcntl.LOCK_NB)
                    slot, slot_lock = i, f_
                    break
                except OSError:
                    f_.close()
            if slot is None:
                time.sleep(0.2)
        tmp = outdir + ".tmp"
        shutil.rmtree(tmp, ignore_errors=True)
        os.makedirs(tmp)
        tdir = os.path.join(CACHE, "target" if slot == 0 else "target-%d" % slot)
        # cargo's freshness cache would skip the wrapper: drop the fingerprints of workspace members
        for fp in glob.glob(os.path.join(tdir, "debug", ".fingerprint", "hpo-*")):
            shutil.rmtree(fp, ignore_errors=True)
        for pat in ("libhpo-*", "hpo-*"):
            for fp in glob.glob(os.path.join(tdir, "debug", "deps", pat)):
                try:
                    os.remove(fp)
                except OSError:
                    pass
        env = dict(os.environ)
        env["CARGO_NET_OFFLINE"] = "true"
        env["LD_LIBRARY_PATH"] = os.path.join(nightly_sysroot(), "lib") + ":" + env.get("LD_LIBRARY_PATH", "")
        env["RUSTFLAGS"] = "-Zmir-opt-level=0 -Awarnings"
        env["RUSTC_WORKSPACE_WRAPPER"] = DRIVER
        env["HPO_FACTS_OUT"] = tmp
        env["HPO_FACTS_NONCE"] = key
        env["CARGO_TARGET_DIR"] = tdir
        env.pop("RUSTC_WRAPPER", None)
        cmd = ["cargo", "+nightly", "check", "--offline", "--manifest-path", os.path.join(root, "Cargo.toml")]
        cmd += ["--lib"] if targets == "lib" else ["--all-targets"]
        t0 = time.time()
        r = subprocess.run(cmd, env=env, stdout=subprocess.PIPE, stderr=subprocess.STDOUT, text=True)
        if r.returncode != 0:
            shutil.rmtree(tmp, ignore_errors=True)
            raise BuildError("cargo check failed for %s:\n%s" % (root, r.stdout[-4000:]))
        files = glob.glob(os.path.join(tmp, "hpo-nontest-*.json"))
        if not files:
            shutil.rmtree(tmp, ignore_errors=True)
            raise BuildError("driver produced no fact file (stale cargo cache?)\n" + r.stdout[-2000:])
        # normalise names: <crate>-<kind>.json (several processes may have the same crate name: keep all)
        seen = {}
        for f in sorted(glob.glob(os.path.join(tmp, "*.json"))):
            base = os.path.basename(f).rsplit("-", 1)[0]
            n = seen.get(base, 0)
            seen[base] = n + 1
            os.rename(f, os.path.join(tmp, base + ("" if n == 0 else "-%d" % n) + ".json"))
        with open(os.path.join(tmp, "DONE"), "w") as f:
            json.dump({"key": key, "root": root, "targets": targets, "cargo_s": round(time.time() - t0, 2)}, f)
        shutil.rmtree(outdir, ignore_errors=True)
        os.rename(tmp, outdir)
        _prune()
        return _collect(outdir, key)
    finally:
        if slot_lock is not None:
            fcntl.flock(slot_lock, fcntl.LOCK_UN)
            slot_lock.close()
        fcntl.flock(lock, fcntl.LOCK_UN)
        lock.close()
        try:
            os.remove(os.path.join(CACHE, "locks", "key-%s-%s" % (key, targets)))
        except OSError:
            pass


def _collect(outdir, key):
    res = {"dir": outdir, "key": key}
    lib = os.path.join(outdir, "hpo-nontest.json")
    if not os.path.exists(lib):
        raise BuildError("fact file missing in cache dir " + outdir)
    # freshness assertion
    with open(lib) as f:
        head = f.read(200)
    if ('"nonce":"%s"' % key) not in head:
        raise BuildError("fact file nonce mismatch in " + outdir)
    res["lib"] = lib
    res["all"] = sorted(glob.glob(os.path.join(outdir, "*.json")))
    return res


def _prune(keep=64):
    base = os.path.join(CACHE, "facts")
    ds = []
    for d in os.listdir(base):
        if d.endswith(".tmp"):
            continue
        try:
            ds.append((os.path.getmtime(os.path.join(base, d)), os.path.join(base, d)))
        except OSError:
            pass  # another process pruned it meanwhile
    ds.sort(reverse=True)
    for _, d in ds[keep:]:
        shutil.rmtree(d, ignore_errors=True)


if __name__ == "__main__":
    r = ensure_facts(sys.argv[1] if len(sys.argv) > 1 else None, sys.argv[2] if len(sys.argv) > 2 else "lib")
    print(json.dumps(r, indent=1))
