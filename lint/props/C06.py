"""C06 - enrichment (clauses: ROLE/dimension provenance at the hypergeometric contract sites, GUARD, KIND, internals of Hypergeometric)"""
import re
import absint
from engines import kind_elements, is_tracing
from engines import check_required_steps
from expr import Extract, S
from expr import div as ediv, show as eshow, equal as expr_equal
from engines import check_complete_iteration, for_loops, check_every_element, assignments_to, source_local, loop_skip_path
from prov import Prov, params_of, field_names

CLAIM = ("(ROLE) in both inner enrichment functions Hypergeometric::new receives (N = size of the background, K = background count of the annotation, "
         "n = size of the sample), sf receives k-1 with k the sample count of the annotation and the subtraction is guarded by k != 0, the result record "
         "gets (id, p-value = sf result, count = k, fold enrichment of dimension k*N/(n*K)); the two functions satisfy the same table; the public wrappers "
         "build the first SampleSet from `background` and the second from `set` and pass them on in that order; (KIND) each SampleSet<K> constructor "
         "reads annotation kind K; (ROLE/TABLE) inside Hypergeometric: new stores (population, successes, draws) in order, min = (draws+successes)-population, "
         "max = min(successes, draws), sf returns 1 below min and 0 at/above max and sums i over (k+1)..=max the terms "
         "C(successes,i)*C(population-successes,draws-i)/C(population,draws); ln_factorial falls back to ln_gamma(x+1).")
NOT_DECIDED = "numerical accuracy (ln_gamma, factorial table), exactness of the counts and monotonicity of the p-value in k (values computed at run time)."

INNER = ["stats::hypergeom::gene::gene_enrichment::inner_gene_enrichment", "stats::hypergeom::disease::inner_disease_enrichment"]
WRAPPERS = {"stats::hypergeom::gene::gene_enrichment": "gene", "stats::hypergeom::disease::omim_disease_enrichment": "omim_disease", "stats::hypergeom::disease::orpha_disease_enrichment": "orpha_disease"}
H = "stats::hypergeom::statrs::Hypergeometric::"


def make_sources(body):
    def src(c, b, t, resolve):
        n = c.res or c.deff or ""
        if b.id != body.id:
            return None
        if re.search(r"stats::SampleSet::<.*>::len$", n):
            ps = params_of(resolve(t.args[0]), body.id)
            return "N" if ps == {1} else "n" if ps == {2} else "len?"
        if re.search(r"stats::SampleSet::<.*>::get$", n):
            ps = params_of(resolve(t.args[0]), body.id)
            return "K" if ps == {1} else "get(sample)"
        if c.method == "next" and "stats::Counts" in (c.def_args or ""):
            return "item"
        if n == H + "sf":
            return "pvalue"
        return None
    return src


def labels(atoms):
    out = set()
    for a in atoms:
        if a[0] == "source":
            lab = a[1]
            if lab == "item":
                fs = [e[1] for e in a[4] if e[0] == "f"]
                # (id, count) tuple inside Some: fields 0.0 / 0.1  (the first f is the Option payload)
                fs2 = [f for f in fs]
                if fs2[-1:] == ["1"] and len(fs2) >= 1:
                    lab = "k"
                elif fs2[-1:] == ["0"] and len(fs2) >= 2:
                    lab = "id"
                else:
                    lab = "item"
            out.add(lab)
    return out


def is_conversion_fn(prog, body):
    """crate function consisting of conversions only (usize/u64 -> float helpers)"""
    if body is None or body.kind not in ("Fn", "AssocFn") or body.nargs != 1:
        return False
    for _, s in body.stmts():
        if s.k == "assign" and s.rv["k"] == "bin":
            return False
    for _, t in body.calls():
        if t.callee.method not in absint.CONVERSIONS:
            return False
    return True


def dims(prog, body, pv_src, op, depth=0):
    """exponent vector over role symbols of a float expression; None = unknown"""
    if depth > 12:
        return None
    if op.kind == "const":
        return {}
    atoms = pv_src.of_operand(body, op)
    arith = [a for a in atoms if a[0] == "op" and a[1] in ("Div", "Mul", "Add", "Sub")]
    labs = labels(atoms)
    if not arith:
        if len(labs) == 1:
            return {next(iter(labs)): 1}
        if not labs:
            return {}
        return None
    # chase the defining arithmetic
    l = op.place.local
    defs = pv_src.defs(body)
    seen = set()
    while l not in seen:
        seen.add(l)
        ds = defs.get(l, [])
        if len(ds) != 1:
            return None
        kind, pos, d = ds[0]
        if kind == "assign":
            rv = d.rv
            if rv["k"] in ("use", "cast") and rv["op"].place is not None:
                l = rv["op"].place.local
                continue
            if rv["k"] == "bin":
                a = dims(prog, body, pv_src, rv["l"], depth + 1)
                b = dims(prog, body, pv_src, rv["r"], depth + 1)
                if a is None or b is None:
                    return None
                if rv["op"] == "Div":
                    keys = set(a) | set(b)
                    r = {k: a.get(k, 0) - b.get(k, 0) for k in keys}
                elif rv["op"] == "Mul":
                    keys = set(a) | set(b)
                    r = {k: a.get(k, 0) + b.get(k, 0) for k in keys}
                elif rv["op"] in ("Add", "Sub"):
                    if {k: v for k, v in a.items() if v} != {k: v for k, v in b.items() if v}:
                        return None
                    r = a
                else:
                    return None
                return {k: v for k, v in r.items() if v}
            return None
        else:
            t = d
            tgt = prog.bodies.get(t.callee.res) if t.callee.res else None
            if (t.callee.method in absint.CONVERSIONS or is_conversion_fn(prog, tgt)) and t.args and t.args[0].place is not None:
                l = t.args[0].place.local
                continue
            return None
    return None


def run(ck, prog, ctx):
    ck.rule("ROLE", "role / dimension provenance at contract sites (DESIGN 3.4)")
    ck.rule("GUARD", "unsigned subtraction guarded (DESIGN 3.5)")
    ck.rule("KIND", "single-kind constructors (DESIGN 3.3 K1)")
    ck.rule("TABLE", "internals of the hypergeometric distribution by field")
    # ---- PRECHECK: a size test that an enrichment function makes before it builds the model may not refuse what the model accepts.
    # `Hypergeometric::new(population, successes, draws)` is the one place that says which sizes are invalid (draws > population); a check in
    # front of the loop that fails for draws == population as well turns the legitimate `sample the whole background` into an error / panic.
    ck.rule("PRECHECK", "a comparison of the two set sizes that guards an error exit of an enrichment function fails only for outcomes for which Hypergeometric::new fails on the same pair of arguments")
    from engines import compare_switches as _cs6, relation_cases as _rc6
    from props.layout import fails_from as _ff6
    pv6 = Prov(prog, inline=False)
    model = prog.one(r"^stats::hypergeom::statrs::Hypergeometric::new$")
    if model is not None:
        model_fail = {}  # (param a, param b) -> outcomes of a against b that fail
        for c_ in _cs6(model, pv6):
            pa, pb = params_of(pv6.of_operand(model, c_["l"]), model.id), params_of(pv6.of_operand(model, c_["r"]), model.id)
            if len(pa) == 1 and len(pb) == 1 and pa != pb:
                cases = _rc6(c_)
                fail = {k_ for k_, tg_ in cases.items() if tg_ is not None and _ff6(model, tg_)}
                a_, b_ = next(iter(pa)), next(iter(pb))
                model_fail[(a_, b_)] = model_fail.get((a_, b_), set()) | fail
                model_fail[(b_, a_)] = model_fail.get((b_, a_), set()) | {{"lt": "gt", "gt": "lt", "eq": "eq"}[x_] for x_ in fail}
        n_pre = 0
        for eb in sorted(prog.production(), key=lambda x: x.id):
            if eb.kind not in ("Fn", "AssocFn") or not (eb.file or "").startswith("src/stats/hypergeom/") or eb.id == model.id:
                continue
            news = [(bi_, t_) for bi_, t_ in eb.calls() if t_.callee.res == model.id and len(t_.args) == 3]
            if not news:
                continue

            def src6(op_):
                """(parameter, method) when the operand is `param.len()` (or a copy of it)"""
                at_ = pv6.of_operand(eb, op_)
                ps_ = {x_[2] for x_ in at_ if x_[0] == "param" and x_[1] == eb.id and x_[3] == ()}
                ms_ = {x_[1].rsplit("::", 1)[-1] for x_ in at_ if x_[0] == "call"}
                return (next(iter(ps_)), next(iter(ms_))) if len(ps_) == 1 and len(ms_) == 1 and all(x_[0] in ("param", "call") for x_ in at_) else None
            roles = {}
            for bi_, t_ in news:
                for i_, a_ in enumerate(t_.args, 1):
                    s_ = src6(a_)
                    if s_ is not None:
                        roles[s_] = i_
            for c_ in _cs6(eb, pv6):
                sl, sr = src6(c_["l"]), src6(c_["r"])
                if sl is None or sr is None or sl not in roles or sr not in roles or roles[sl] == roles[sr]:
                    continue
                cases = _rc6(c_)
                fail = {k_ for k_, tg_ in cases.items() if tg_ is not None and _ff6(eb, tg_)}
                if not fail:
                    continue
                n_pre += 1
                allowed = model_fail.get((roles[sl], roles[sr]))
                names = (model.arg_names.get(roles[sl], "?"), model.arg_names.get(roles[sr], "?"))
                if allowed is None:
                    ck.undecided("PRECHECK", "%s/%s-vs-%s" % (eb.short, names[0], names[1]), "%s fails on a comparison of %s with %s, a pair the model does not compare" % (eb.short, names[0], names[1]), where=eb.where(c_["line"]))
                else:
                    extra = sorted(fail - allowed)
                    ck.ob("PRECHECK", "%s/%s-vs-%s" % (eb.short, names[0], names[1]), not extra, "%s fails when %s is %s %s; Hypergeometric::new fails for %s%s" % (
                        eb.short, names[0], "/".join(sorted(fail)), names[1], "/".join(sorted(allowed)) or "no outcome", "" if not extra else ": the case `%s` (%s == %s: e.g. the sample is the whole background) is refused here although the model accepts it" % (extra[0], names[0], names[1]) if extra[0] == "eq" else ": `%s` is refused here only" % extra[0]), where=eb.where(c_["line"]))

    # ---- one record per annotation: the loops of the enrichment functions run to the end (a `break` where a record is to be skipped drops the rest)
    from engines import loop_early_exits as _lee6
    for eb in sorted(prog.production(), key=lambda x: x.id):
        if eb.kind in ("Fn", "AssocFn") and (eb.file or "").startswith("src/stats/hypergeom/") and not (eb.file or "").endswith("statrs.rs"):
            for fb_ in prog.family(eb):
                for li_, lp_ in enumerate(for_loops(fb_)):
                    ex_ = _lee6(fb_, lp_)
                    ck.ob("ROLE", "loop-runs-to-the-end/%s/%d" % (fb_.short, li_), not ex_, "%s: the loop in line %s %s" % (fb_.short, lp_["line"], "ends only when its iterator is exhausted" if not ex_ else
                          "can be left early (line %s) and still return normally: the annotations behind that point get no record" % fb_.blocks[ex_[0][0]].term.line), where=fb_.where(lp_["line"]))
    ai = absint.Interp(prog)
    n_inner = 0
    for fid in INNER:
        b = prog.body(fid)
        if b is None:
            # private helper may have been inlined into the wrappers
            continue
        n_inner += 1
        nm = b.short.rsplit("::", 1)[-1]
        pv = Prov(prog, sources=make_sources(b))
        news = [(bi, t) for bi, t in b.calls() if t.callee.res == H + "new"]
        sfs = [(bi, t) for bi, t in b.calls() if t.callee.res == H + "sf"]
        recs = [(bi, t) for bi, t in b.calls() if re.search(r"stats::Enrichment::<.*>::(gene|disease|annotation)$", t.callee.res or "")]
        if not (news and sfs and recs):
            ck.undecided("ROLE", nm + "/shape", "contract sites not recognised (new:%d sf:%d record:%d)" % (len(news), len(sfs), len(recs)), where=b.where())
            continue
        for bi, t in news:
            got = [labels(pv.of_operand(b, a)) for a in t.args]
            want = [{"N"}, {"K"}, {"n"}]
            for i, (g, w, role) in enumerate(zip(got, want, ("population", "successes", "draws"))):
                ck.ob("ROLE", "%s/new/%s" % (nm, role), g == w, "%s: Hypergeometric::new %s <- %s (expected %s)" % (nm, role, sorted(g) or "nothing recognised", sorted(w)), where=b.where(t.line))
        for bi, t in sfs:
            at = pv.of_operand(b, t.args[1])
            g = labels(at)
            subs = [a for a in at if a[0] == "op" and a[1].startswith("Sub")]
            ones = [a for a in at if a[0] == "const" and a[2] in ("1_u64", "1_usize", "1_u32")]
            ck.ob("ROLE", nm + "/sf/arg", g == {"k"} and len(subs) == 1 and bool(ones), "%s: sf receives %s%s (expected k - 1)" % (nm, sorted(g), " minus a constant" if subs else " WITHOUT the decrement"), where=b.where(t.line))
            # guard on the subtraction
            for a in subs:
                pos = (a[3], a[4])
                st = b.blocks[a[3]].stmts[a[4]]
                c = ai.class_at(b, pos, st.rv["l"])
                ck.ob("GUARD", nm + "/sf/decrement", c == absint.P, "%s: `k - 1` is %s" % (nm, "guarded by k != 0" if c == absint.P else "not guarded (k can be 0: underflow)"), where=b.where(st.line))
        for bi, t in recs:
            g = [labels(pv.of_operand(b, a)) for a in t.args]
            ck.ob("ROLE", nm + "/record/id", g[0] == {"id"}, "%s: record id <- %s" % (nm, sorted(g[0])), where=b.where(t.line))
            ck.ob("ROLE", nm + "/record/pvalue", "pvalue" in g[1] and not (g[1] & {"N", "n", "K"}) - set(), "%s: record p-value <- %s" % (nm, sorted(g[1])), where=b.where(t.line))
            ck.ob("ROLE", nm + "/record/count", g[2] == {"k"}, "%s: record count <- %s (expected k only)" % (nm, sorted(g[2])), where=b.where(t.line))
            d = dims(prog, b, pv, t.args[3])
            want = {"k": 1, "n": -1, "K": -1, "N": 1}
            # integer arithmetic on the way truncates: the ratio must be formed in floating point
            int_ops = [a for a in pv.of_operand(b, t.args[3]) if a[0] == "op" and a[3] == b.id and (a[1].startswith(("Mul", "Div", "Rem")) )
                       and b.blocks[a[4]].stmts[a[5]].rv.get("lty") not in ("f32", "f64")] if False else []
            for pos, st in b.stmts():
                if st.k == "assign" and st.rv["k"] == "bin" and st.rv["op"] in ("Div", "Rem") and st.rv.get("lty") not in ("f32", "f64"):
                    if any(a[0] == "op" and a[1] == st.rv["op"] and a[2] == b.id and a[3] == pos[0] and a[4] == pos[1] for a in pv.of_operand(b, t.args[3])):
                        int_ops.append(st)
            if int_ops:
                ck.violation("ROLE", nm + "/record/enrichment-integer", "%s: the fold enrichment is computed with an INTEGER division (line %s): the quotient is truncated before the conversion to float" % (nm, int_ops[0].line), where=b.where(int_ops[0].line))
            # exact formula: (k/n) / (K/N) as a rational function of the four role symbols
            def fleaf(ex, body, kind, obj, _pv=pv, _b=b):
                if kind == "call":
                    tt = obj
                    tgt = prog.bodies.get(tt.callee.res) if tt.callee.res else None
                    conv = (tt.callee.method in absint.CONVERSIONS or is_conversion_fn(prog, tgt)) and len(tt.args) == 1
                    if conv and not (tgt is not None and tgt.name == "len"):
                        return ex.operand(body, tt.args[0], 0, getattr(ex, "_at", None))
                    if tt.dest is not None and tt.dest.is_local():
                        lb = labels(_pv.of_local(body, tt.dest.local))
                        if len(lb) == 1:
                            return S(next(iter(lb)))
                    return None
                if kind == "place":
                    lb = labels(_pv.of_place(body, obj))
                    return S(next(iter(lb))) if len(lb) == 1 else None
                if kind == "phi":
                    lb = labels(_pv.of_local(body, obj))
                    return S(next(iter(lb))) if len(lb) == 1 else None
                return None
            fe = Extract(prog, pv, fleaf).operand(b, t.args[3], 0, (bi, len(b.blocks[bi].stmts)))
            fwant = ediv(ediv(S("k"), S("n")), ediv(S("K"), S("N")))
            feq = expr_equal(fe, fwant)
            if feq is None:
                ck.undecided("ROLE", nm + "/record/enrichment-formula", "%s: fold-enrichment expression %s has leaves that are not recognised" % (nm, eshow(fe)), where=b.where(t.line))
            else:
                ck.ob("ROLE", nm + "/record/enrichment-formula", feq, "%s: fold enrichment %s %s (k/n)/(K/N)" % (nm, eshow(fe), "=" if feq else "is NOT algebraically equal to"), where=b.where(t.line))
            if d is None:
                ck.undecided("ROLE", nm + "/record/enrichment", "%s: the fold enrichment is not computed by recognisable float arithmetic in this function (helper?)" % nm, where=b.where(t.line))
            else:
                ck.ob("ROLE", nm + "/record/enrichment", d == want, "%s: fold enrichment has dimension %s (expected k*N/(n*K))" % (nm, d if d is not None else "unknown (non-float or unrecognised arithmetic)"), where=b.where(t.line))
    ck.floor("ROLE", "inner enrichment functions", n_inner, 2)

    check_complete_iteration(ck, "ROLE", prog, INNER + ["stats::calculate_counts"] + [b.id for b in prog.find(r"^stats::SampleSet::<.*>::(gene|omim_disease|orpha_disease)$")], "the sample / the annotations of a term")

    # ---- the terms handed to a SampleSet constructor reach the counting function unfiltered: N and n count EVERY term of the
    # background / the sample (obsolete and unannotated ones included)
    from engines import chain_filters as _chain_filters
    pvn = Prov(prog, inline=False)
    srcs = {}
    for sb_ in prog.find(r"^stats::SampleSet::<.*>::(gene|omim_disease|orpha_disease)$"):
        counted = [(bi, t) for bi, t in sb_.calls() if t.callee.res in prog.bodies and prog.bodies[t.callee.res].natural_loops() and t.args and 1 in params_of(pvn.of_operand(sb_, t.args[0]), sb_.id)]
        if not counted:
            counted = [(bi, t) for bi, t in sb_.calls() if (t.callee.res or "").endswith("calculate_counts") and t.args]
        if len(counted) != 1:
            ck.undecided("ROLE", "sample-set/%s/terms" % sb_.name, "the call that counts the terms is not recognised in %s" % sb_.short, where=sb_.where())
            continue
        bi, t = counted[0]
        fl = _chain_filters(sb_, pvn, t.args[0])
        direct = params_of(pvn.of_operand(sb_, t.args[0]), sb_.id) == {1}
        srcs[sb_.name] = tuple(fl)
        ck.ob("ROLE", "sample-set/%s/terms" % sb_.name, direct and not fl, "%s counts %s" % (sb_.short, "every term it is given" if direct and not fl else ("the terms that remain after `%s`: N / n no longer count every term of the background / the sample" % ", ".join(fl) if fl else "something else than its `terms` argument")), where=sb_.where(t.line))
    if len(srcs) == 3:
        ck.ob("SIBLING", "sample-set/agree", len(set(srcs.values())) == 1, "the gene / OMIM / ORPHA sample sets treat their terms %s" % ("alike" if len(set(srcs.values())) == 1 else "differently: %s" % srcs))

    # ---- the population / sample size counts EVERY term, each annotation of every term is counted
    cc = prog.body("stats::calculate_counts")
    if cc is None:
        ck.undecided("ROLE", "counts/every-term", "private helper stats::calculate_counts not found")
    else:
        loops = for_loops(cc)
        outer = [l for l in loops if not any(l is not m and l["blocks"] < m["blocks"] for m in loops)]
        inner = [l for l in loops if any(l is not m and l["blocks"] < m["blocks"] for m in loops)]
        ret = [st for _, st in cc.stmts() if st.k == "assign" and st.place.is_local() and st.place.local == 0 and st.rv["k"] == "agg" and st.rv["agg"] == "tuple" and len(st.rv["ops"]) == 2]
        pv = Prov(prog)
        if len(outer) != 1 or len(ret) != 1 or params_of(pv.of_operand(cc, outer[0]["iter"]), cc.id) != {1}:
            ck.undecided("ROLE", "counts/every-term", "calculate_counts is not one `for` loop over its `terms` parameter returning (size, counts)", where=cc.where())
        else:
            lp = outer[0]
            size_l = source_local(cc, ret[0].rv["ops"][0], pv)
            steps = assignments_to(cc, size_l, lp["blocks"]) if size_l is not None else set()
            incs = [st for _, st in cc.stmts() if st.k == "assign" and st.rv["k"] == "bin" and st.rv["op"].startswith("Add") and st.rv["r"].kind == "const" and st.rv["r"].int_value() == 1
                    and st.rv["l"].place is not None and source_local(cc, st.rv["l"], pv) == size_l]
            ck.ob("ROLE", "counts/size-step", len(incs) == 1, "the returned size is incremented by the constant 1 (%d increment site(s))" % len(incs), where=cc.where())
            check_every_element(ck, "ROLE", "counts/size", cc, lp, steps, "size += 1", "the terms (population / sample size N, n)")
            if len(inner) == 1:
                il = inner[0]
                cnt = {bi for bi, t in cc.calls() if bi in il["blocks"] and t.callee.method in ("entry", "insert", "get_mut") and "HashMap" in (t.callee.name or "")}
                check_every_element(ck, "ROLE", "counts/annotation", cc, il, cnt, "counts[id] += 1", "the annotations of one term")
                # a guard around the inner loop may be harmless (skipping a term without annotations): not armed, only recorded
                if loop_skip_path(cc, lp, {il["header"]}):
                    ck.undecided("ROLE", "counts/annotations-of-term", "the loop over a term's annotations is bypassed on some path of the outer loop; whether the bypassed terms have annotations is not decided", where=cc.where(il["line"]))
                else:
                    ck.ob("ROLE", "counts/annotations-of-term", True, "the annotations of every term are counted (no path of the outer loop bypasses the inner loop)", where=cc.where(il["line"]))
            else:
                ck.undecided("ROLE", "counts/annotation", "expected one inner loop over the annotations of a term, found %d" % len(inner), where=cc.where())

    for fid in INNER:
        b_ = prog.body(fid)
        if b_ is not None:
            check_required_steps(ck, "ROLE", prog, b_, [("one record per annotation of the sample", lambda t: bool(re.search(r"stats::Enrichment::<.*>::(gene|disease|annotation)$", t.callee.res or "")))])

    # ------------------------------------------------------------------ wrappers
    for fid, ctor in sorted(WRAPPERS.items()):
        b = prog.body(fid)
        if not ck.anchor("ROLE", fid.rsplit("::", 1)[-1], b):
            continue
        pvw = Prov(prog, inline=False)
        nm = b.short.rsplit("::", 1)[-1]
        ctors = [(bi, t) for bi, t in b.calls() if re.search(r"stats::SampleSet::<.*>::%s$" % ctor, t.callee.res or "")]
        others = [(bi, t) for bi, t in b.calls() if re.search(r"stats::SampleSet::<.*>::(gene|omim_disease|orpha_disease)$", t.callee.res or "") and (bi, t) not in ctors]
        for bi, t in others:
            ck.violation("KIND", nm + "/ctor-kind", "%s builds its sample set with %s" % (nm, t.callee.res.rsplit("::", 1)[-1]), where=b.where(t.line))
        inner = [(bi, t) for bi, t in b.calls() if (t.callee.res or "") in INNER]
        if not inner or len(ctors) != 2:
            ck.undecided("ROLE", nm + "/order", "wrapper shape not recognised (%d constructors, %d inner calls)" % (len(ctors), len(inner)), where=b.where())
            continue
        site = {}
        for bi, t in ctors:
            site[bi] = params_of(pvw.of_operand(b, t.args[0]), b.id)
        for bi, t in inner:
            def ctor_param(op):
                at = pvw.of_operand(b, op)
                return {tuple(sorted(site[a[4]])) for a in at if a[0] == "call" and a[3] == b.id and a[4] in site}
            a0, a1 = ctor_param(t.args[0]), ctor_param(t.args[1])
            ok = a0 == {(1,)} and a1 == {(2,)}
            ck.ob("ROLE", nm + "/order", ok, "%s passes (SampleSet of %s, SampleSet of %s)%s" % (nm, "background" if a0 == {(1,)} else sorted(a0), "set" if a1 == {(2,)} else sorted(a1), "" if ok else " - expected (background, set)"), where=b.where(t.line))

    # ------------------------------------------------------------------ KIND: SampleSet constructors
    for ctor, kind in (("gene", "Gene"), ("omim_disease", "Omim"), ("orpha_disease", "Orpha")):
        bs = prog.find(r"^stats::SampleSet::<.*>::%s$" % ctor)
        if not bs:
            ck.undecided("KIND", "K1/SampleSet::" + ctor, "private constructor not found")
            continue
        b = bs[0]
        els = []
        for fb in prog.family(b):
            els += kind_elements(fb)
        foreign = [e for e in els if e[0] != kind]
        own = [e for e in els if e[0] == kind]
        if foreign:
            ck.violation("KIND", "K1/SampleSet::" + ctor, "SampleSet::%s (kind %s) reads %s: %s" % (ctor, kind, foreign[0][0], foreign[0][1]), where=b.where(foreign[0][2]))
        else:
            ck.ob("KIND", "K1/SampleSet::" + ctor, bool(own), "SampleSet::%s reads %s annotations only" % (ctor, kind), where=b.where())

    # ------------------------------------------------------------------ Hypergeometric internals
    pv = Prov(prog)
    pvn = Prov(prog, inline=False)
    F = lambda atoms: field_names(atoms, "Hypergeometric")
    new = prog.body(H + "new")
    if ck.anchor("TABLE", "Hypergeometric::new", new, private=True):
        for _, s in new.stmts():
            if s.k == "assign" and s.rv["k"] == "agg" and s.rv.get("adt", "").endswith("Hypergeometric"):
                m = {f: params_of(pvn.of_operand(new, o), new.id) for f, o in zip(s.rv["fields"], s.rv["ops"])}
                ok = m == {"population": {1}, "successes": {2}, "draws": {3}}
                ck.ob("TABLE", "new/fields", ok, "Hypergeometric::new stores %s" % {k: sorted(v) for k, v in m.items()}, where=new.where(s.line))
    mn = prog.body(H + "min")
    if mn is not None:
        calls = [t for _, t in mn.calls() if t.callee.method in ("saturating_sub", "checked_sub", "wrapping_sub")]
        if len(calls) != 1:
            ck.undecided("TABLE", "min/shape", "lower bound is not a single saturating subtraction", where=mn.where())
        else:
            t = calls[0]
            a0, a1 = F(pvn.of_operand(mn, t.args[0])), F(pvn.of_operand(mn, t.args[1]))
            ck.ob("TABLE", "min/fields", a0 == {"draws", "successes"} and a1 == {"population"} and t.callee.method == "saturating_sub", "min = (%s) -sat- (%s)" % ("+".join(sorted(a0)), "+".join(sorted(a1))), where=mn.where(t.line))
    mx = prog.body(H + "max")
    if mx is not None:
        calls = [t for _, t in mx.calls() if t.callee.method in ("min", "max")]
        if len(calls) != 1:
            ck.undecided("TABLE", "max/shape", "upper bound is not a single min()", where=mx.where())
        else:
            t = calls[0]
            fs = F(pvn.of_operand(mx, t.args[0])) | F(pvn.of_operand(mx, t.args[1]))
            ck.ob("TABLE", "max/fields", t.callee.method == "min" and fs == {"successes", "draws"}, "max = %s(%s)" % (t.callee.method, ", ".join(sorted(fs))), where=mx.where(t.line))
    sf = prog.body(H + "sf")
    if ck.anchor("TABLE", "Hypergeometric::sf", sf, private=True):
        fam = prog.family(sf)
        # boundaries
        bounds = []
        for _, s in sf.stmts():
            if s.k == "assign" and s.rv["k"] == "bin" and s.rv["op"] in ("Lt", "Le", "Gt", "Ge"):
                la, ra = pvn.of_operand(sf, s.rv["l"]), pvn.of_operand(sf, s.rv["r"])
                which = [a[1].rsplit("::", 1)[-1] for a in ra | la if a[0] == "call" and a[1] in (H + "min", H + "max")]
                x_left = 2 in params_of(la, sf.id)
                bounds.append((s, s.rv["op"], which, x_left))
        for s, op, which, x_left in bounds:
            if which == ["min"]:
                ok = (op == "Lt" and x_left) or (op == "Gt" and not x_left)
                ck.ob("TABLE", "sf/below-min", ok, "sf tests `x %s min`%s" % ({"Lt": "<", "Le": "<=", "Gt": ">", "Ge": ">="}[op] if x_left else "(flipped) " + op, "" if ok else " (expected x < min)"), where=sf.where(s.line))
                # value on the true edge is 1
            elif which == ["max"]:
                ok = (op == "Ge" and x_left) or (op == "Le" and not x_left)
                ck.ob("TABLE", "sf/at-max", ok, "sf tests `x %s max`%s" % ({"Lt": "<", "Le": "<=", "Gt": ">", "Ge": ">="}[op] if x_left else "(flipped) " + op, "" if ok else " (expected x >= max)"), where=sf.where(s.line))
        consts = {}
        for bi in sorted(sf.reach):
            t = sf.blocks[bi].term
            if t.k == "switch" and t.discr.place is not None:
                for s, op, which, x_left in bounds:
                    if s.place.local == t.discr.place.local or any(st.k == "assign" and st.place.local == t.discr.place.local and st.rv["k"] == "use" and st.rv["op"].place is not None and st.rv["op"].place.local == s.place.local for st in sf.blocks[bi].stmts):
                        vals = [v for v, _ in t.targets]
                        true_t = [tg for v, tg in t.targets if v == 1] or ([t.otherwise] if vals == [0] else [])
                        if true_t:
                            region = sf.region((bi, true_t[0]))
                            for pos, st in sf.stmts():
                                if pos[0] in region and st.k == "assign" and st.place.local == 0 and st.rv["k"] == "use" and st.rv["op"].kind == "const":
                                    consts[which[0] if which else "?"] = st.rv["op"].float_value()
        if consts:
            ck.ob("TABLE", "sf/boundary-values", consts.get("min") == 1.0 and consts.get("max") == 0.0, "sf returns %s below min and %s at/above max (expected 1 and 0)" % (consts.get("min"), consts.get("max")), where=sf.where())
        # tail range
        rng = [t for _, t in sf.calls() if (t.callee.def_args or "").startswith("std::ops::RangeInclusive::<") and t.callee.method == "new"]
        agg = [s for _, s in sf.stmts() if s.k == "assign" and s.rv["k"] == "agg" and s.rv.get("adt", "").endswith("Range")]
        if len(rng) == 1:
            t = rng[0]
            lo = pvn.of_operand(sf, t.args[0])
            hi = pvn.of_operand(sf, t.args[1])
            plus1 = any(a[0] == "op" and a[1].startswith("Add") for a in lo) and any(a[0] == "const" and a[2].startswith("1_") for a in lo) and 2 in params_of(lo, sf.id)
            himax = any(a[0] == "call" and a[1] == H + "max" for a in hi)
            ck.ob("TABLE", "sf/range", plus1 and himax, "sf sums over %s ..= %s (expected (x+1)..=max)" % ("x+1" if plus1 else "x" if 2 in params_of(lo, sf.id) else "?", "max" if himax else "?"), where=sf.where(t.line))
        elif agg:
            ck.ob("TABLE", "sf/range", False, "sf sums over a half-open range: the term i = max is lost", where=sf.where(agg[0].line))
        else:
            ck.undecided("TABLE", "sf/range", "tail range not recognised", where=sf.where())
        # every term of the range is summed: no truncating adaptor between the range and the reduction
        TRUNC = {"take_while", "skip_while", "filter", "take", "skip", "step_by", "filter_map", "find", "find_map", "map_while", "nth", "last", "peekable"}
        reds = [(bi, t) for bi, t in sf.calls() if t.callee.trait == "std::iter::Iterator" and t.callee.method in ("fold", "sum", "reduce", "try_fold")]
        for bi, t in reds:
            chain = []
            via_helper = []
            cur = t.args[0]
            seen_l = set()
            while cur is not None and cur.place is not None and cur.place.local not in seen_l:
                seen_l.add(cur.place.local)
                ds = pvn.defs(sf).get(cur.place.local, [])
                nxt = None
                for kind, pos, d in ds:
                    if kind == "call":
                        chain.append(d.callee.method)
                        if d.callee.res in prog.bodies and prog.bodies[d.callee.res].kind in ("Fn", "AssocFn"):
                            via_helper.append(prog.bodies[d.callee.res])
                        nxt = d.args[0] if d.args else None
                    elif d.rv["k"] == "use":
                        nxt = d.rv["op"]
                    elif d.rv["k"] == "ref":
                        from facts import Operand
                        nxt = None
                        for kk, pp, dd in pvn.defs(sf).get(d.rv["place"].local, []):
                            if kk == "call":
                                chain.append(dd.callee.method)
                                nxt = dd.args[0] if dd.args else None
                cur = nxt
            bad = [m for m in chain if m in TRUNC]
            if bad == ["skip"] and via_helper and not agg:
                # `self.pmf().skip(n).sum()`: the terms come from a helper that walks the whole support; the lower end of the tail is expressed
                # as the NUMBER of leading terms to drop (x - min + 1), not as a range.  Whether that number is right is arithmetic over the
                # support's start, which this rule does not evaluate
                # ... except for one necessary condition: a sequence that STARTS at `min()` (the support of the distribution begins at
                # max(0, n + K - N), not at 0) loses its first x - min + 1 terms, so the count handed to `skip` depends on `min()`.  A count made
                # of x alone drops too many terms whenever the support does not start at 0.
                starts_at_min = (H + "min") in prog.reachable_bodies([via_helper[0].id])
                skips_ = [(sb_, st_) for sb_, st_ in sf.calls() if st_.callee.method == "skip" and st_.callee.trait == "std::iter::Iterator" and len(st_.args) == 2]
                if starts_at_min and len(skips_) == 1:
                    cnt_ = pvn.of_operand(sf, skips_[0][1].args[1])
                    uses_min = any(a_[0] == "call" and a_[1] == H + "min" for a_ in cnt_)
                    ck.ob("TABLE", "sf/skip-count", uses_min, "the terms of %s start at min(); the number of leading terms that sf drops %s" % (via_helper[0].short, "is computed from min()" if uses_min else
                          "does NOT depend on min(): `skip` counts elements, not values, so for a support that starts above 0 the tail loses x - (x - min) further terms"), where=sf.where(skips_[0][1].line))
                ck.undecided("TABLE", "sf/all-terms", "the tail sum drops leading terms of %s with skip(n): the tail's lower end is a count relative to the start of the support, not evaluated" % via_helper[0].short, where=sf.where(t.line))
                continue
            ck.ob("TABLE", "sf/all-terms", not bad, "the tail sum reduces %s" % ("every element of the range (adaptors: %s)" % (chain or ["none"]) if not bad else "a TRUNCATED range (%s): terms of the tail are dropped" % ", ".join(bad)), where=sf.where(t.line))

        def item_param(cb):
            """index of the closure parameter that receives the range element"""
            for pb, ubi, ut, uai in pv.closure_use(cb):
                if ut.callee.method in ("fold", "try_fold"):
                    return 3
                return 2
            return 2

        # ln_binomial calls by field
        lb = []
        for fb in fam:
            ip = item_param(fb) if fb.kind == "Closure" else None
            for bi, t in fb.calls():
                if (t.callee.res or "").endswith("statrs::ln_binomial"):
                    pv_nb = Prov(prog, bind_closures=False)
                    a0 = pv_nb.of_operand(fb, t.args[0])
                    a1 = pv_nb.of_operand(fb, t.args[1])
                    it0 = any(a[0] == "param" and a[1] == fb.id and a[2] == ip for a in a0) if ip else False
                    it1 = any(a[0] == "param" and a[1] == fb.id and a[2] == ip for a in a1) if ip else False
                    sub0 = any(a[0] == "op" and a[1].startswith("Sub") for a in pvn.of_operand(fb, t.args[0]))
                    sub1 = any(a[0] == "op" and a[1].startswith("Sub") for a in pvn.of_operand(fb, t.args[1]))
                    lb.append((frozenset(F(a0)), it0, sub0, frozenset(F(a1)), it1, sub1, fb, t))
        want = {
            (frozenset({"population"}), False, False, frozenset({"draws"}), False, False): "C(population, draws)",
            (frozenset({"successes"}), False, False, frozenset(), True, False): "C(successes, i)",
            (frozenset({"population", "successes"}), False, True, frozenset({"draws"}), True, True): "C(population-successes, draws-i)",
        }
        seen = set()
        # terms computed outside sf's own closures (a private helper, or a plain `for` loop whose element is not a closure parameter)
        # are not classified: the per-term rule is then undecided, never a violation
        outside = [t2 for hb in prog.production() if hb.file == sf.file and hb not in fam and hb.kind in ("Fn", "AssocFn") and hb.id in prog.reachable_bodies([sf.id]) for _, t2 in hb.calls() if (t2.callee.res or "").endswith("statrs::ln_binomial")]
        in_plain_loop = [x for x in lb if x[6].kind != "Closure" and x[6].loop_of(next(bi_ for bi_, t_ in x[6].calls() if t_ is x[7])) is not None]
        # ... or through a private variant of ln_binomial (one that receives ln n! from the caller): it builds the term from ln_factorial itself
        variant = [hb for hb in prog.production() if hb.file == sf.file and hb.kind in ("Fn", "AssocFn") and not hb.exported and not hb.reachable and not hb.id.endswith("statrs::ln_binomial")
                   and any(t2.callee.res == hb.id for fb in fam for _, t2 in fb.calls()) and any((t3.callee.res or "").endswith("statrs::ln_factorial") for _, t3 in hb.calls())]
        unclassifiable = bool(outside) or bool(in_plain_loop) or bool(variant)
        for x in lb:
            key = x[:6]
            nm = want.get(key)
            if nm:
                seen.add(nm)
            elif unclassifiable:
                continue
            else:
                ck.violation("TABLE", "sf/ln_binomial/%d" % len(seen), "unexpected binomial term ln_binomial(%s%s%s, %s%s%s)" % ("-".join(sorted(x[0])), "+i" if x[1] else "", " (difference)" if x[2] else "", "-".join(sorted(x[3])), "i" if x[4] else "", " (difference)" if x[5] else ""), where=x[6].where(x[7].line))
        for nm in want.values():
            if nm not in seen and unclassifiable:
                ck.undecided("TABLE", "sf/term/" + nm, "the summand of the tail is computed in a helper / plain loop: the term %s is not classified" % nm, where=sf.where())
            else:
                ck.ob("TABLE", "sf/term/" + nm, nm in seen, "sf %s the term %s" % ("uses" if nm in seen else "LACKS", nm), where=sf.where())
    # ---- ln C(n, k): -inf exactly when k > n, otherwise ln n! - ln k! - ln (n-k)!
    lb = prog.body("stats::hypergeom::statrs::ln_binomial")
    if ck.anchor("TABLE", "statrs::ln_binomial", lb, private=True):
        from engines import compare_switches, relation_cases
        from expr import F as eF, sub as esub
        cmps = []
        for cs in compare_switches(lb, pvn):
            pl, pr = params_of(pvn.of_operand(lb, cs["l"]), lb.id), params_of(pvn.of_operand(lb, cs["r"]), lb.id)
            if (pl, pr) in (({2}, {1}), ({1}, {2})):
                cmps.append((cs, pl == {1}))
        def yields_neg_inf(tg, sw):
            for r in lb.region((sw, tg)):
                for st in lb.blocks[r].stmts:
                    if st.k == "assign" and st.place.local == 0 and st.rv["k"] == "use" and st.rv["op"].kind == "const":
                        c = st.rv["op"].const
                        if "NEG_INFINITY" in str(c.get("def", "")) + str(c.get("val", "")) or str(c.get("val", "")).lower().startswith("-inf"):
                            return True
            return False
        if len(cmps) != 1:
            ck.undecided("TABLE", "ln_binomial/guard", "expected one comparison of k with n, found %d" % len(cmps), where=lb.where())
        else:
            cs, swapped = cmps[0]
            cases = relation_cases(cs, swap=swapped)  # k against n
            inf = {c: yields_neg_inf(tg, cs["bb"]) for c, tg in cases.items()}
            ok = inf == {"lt": False, "eq": False, "gt": True}
            names = {"lt": "k < n", "eq": "k = n", "gt": "k > n"}
            ck.ob("TABLE", "ln_binomial/guard", ok, "ln_binomial returns -inf (C(n,k) = 0) for %s (expected: for k > n only%s)" % (", ".join(names[c] for c in ("lt", "eq", "gt") if inf[c]) or "no case", "" if ok else "; C(n,n) = 1 and C(n,k) > 0 for k < n"), where=lb.where(cs["line"]))
        def bleaf(ex, body, kind, obj):
            if body is not lb:
                return None
            if kind == "call" and (obj.callee.res or "").endswith("statrs::ln_factorial") and len(obj.args) == 1:
                return eF("lf", ex.operand(body, obj.args[0], 0, getattr(ex, "_at", None)))
            if kind == "place" and obj.is_local() and 1 <= obj.local <= 2:
                return S("n" if obj.local == 1 else "k")
            return None
        fsts = [(pos, st) for pos, st in lb.stmts() if st.k == "assign" and st.place.local == 0 and st.place.is_local() and st.rv["k"] in ("bin", "use") and not (st.rv["k"] == "use" and st.rv["op"].kind == "const")]
        calls0 = [(bi, t) for bi, t in lb.calls() if t.dest is not None and t.dest.is_local() and t.dest.local == 0]
        if len(fsts) != 1 or calls0:
            ck.undecided("TABLE", "ln_binomial/formula", "the finite result is not one arithmetic expression in this function", where=lb.where())
        else:
            pos, st = fsts[0]
            ex = Extract(prog, pvn, bleaf)
            fe = ex.rvalue(lb, st, 0, pos)
            pn, pk = S("%s#p1" % lb.id), S("%s#p2" % lb.id)
            want = esub(esub(eF("lf", pn), eF("lf", pk)), eF("lf", esub(pn, pk)))
            eq = expr_equal(fe, want)
            if eq is None:
                ck.undecided("TABLE", "ln_binomial/formula", "expression %s has leaves that are not recognised" % eshow(fe), where=lb.where(st.line))
            else:
                ck.ob("TABLE", "ln_binomial/formula", eq, "ln_binomial = %s %s ln n! - ln k! - ln (n-k)!" % (eshow(fe), "=" if eq else "is NOT"), where=lb.where(st.line))

    # ---- ln Gamma (used for every factorial argument above the table): Lanczos approximation, g = 10.900511, 11 coefficients
    STAT = "stats::hypergeom::statrs::"
    lg = prog.body(STAT + "ln_gamma")
    if ck.anchor("TABLE", "statrs::ln_gamma", lg, private=True):
        import math
        from engines import compare_switches as _cs
        from expr import F as eF, sub as esub, add as eadd, mul as emul, C as eC
        def fconst(name):
            cb = prog.body(STAT + name)
            if cb is None:
                return None
            for pos, st in cb.stmts():
                if st.k == "assign" and st.place.local == 0 and st.rv["k"] == "use":
                    return st.rv["op"].float_value()
            return None
        def farray(name):
            pb = prog.bodies.get(STAT + name + "::promoted[0]")
            if pb is None:
                return None
            for pos, st in pb.stmts():
                if st.k == "assign" and st.rv["k"] == "agg" and st.rv.get("agg") == "array":
                    vals = [o.float_value() for o in st.rv["ops"]]
                    return vals if all(v is not None for v in vals) else None
            return None
        REF_DK = [2.48574089138753565546e-5, 1.05142378581721974210, -3.45687097222016235469, 4.51227709466894823700, -2.98285225323576655721, 1.05639711577126713077,
                  -1.95428773191645869583e-1, 1.70970543404441224307e-2, -5.71926117404305781283e-4, 4.63399473359905636708e-6, -2.71994908488607703910e-9]
        close = lambda a, b: a is not None and abs(a - b) <= 4e-16 * max(1.0, abs(b))
        dk = farray("GAMMA_DK")
        if dk is None:
            ck.undecided("TABLE", "ln_gamma/coefficients", "coefficient array GAMMA_DK not recognised")
        else:
            bad = [i for i in range(max(len(dk), len(REF_DK))) if i >= len(dk) or i >= len(REF_DK) or not close(dk[i], REF_DK[i])]
            ck.ob("TABLE", "ln_gamma/coefficients", not bad, "GAMMA_DK holds %d coefficients; %s" % (len(dk), "all equal to the published Lanczos coefficients for g = 10.900511" if not bad else "coefficient(s) %s differ from the published Lanczos values (ln n! is wrong for every n > 170)" % bad), where=prog.body(STAT + "GAMMA_DK").where())
        for nm, ref, what in (("GAMMA_R", 10.900511, "g"), ("LN_PI", math.log(math.pi), "ln(pi)"), ("LN_2_SQRT_E_OVER_PI", math.log(2.0 * math.sqrt(math.e / math.pi)), "ln(2*sqrt(e/pi))")):
            v = fconst(nm)
            if v is None:
                ck.undecided("TABLE", "ln_gamma/const/" + nm, "constant not recognised")
            else:
                ck.ob("TABLE", "ln_gamma/const/" + nm, close(v, ref), "%s = %r (%s = %r)" % (nm, v, what, ref), where=prog.body(STAT + nm).where())
        # the two branches
        K = lambda n: S("const:" + (STAT + n if not n.startswith("std::") else n))
        def gleaf(ex, body, kind, obj):
            if kind == "call" and obj.callee.method == "fold":
                return S("SUM")
            return None
        X = S("%s#p1" % lg.id)
        half = eC("1/2")
        hi = eadd(eadd(eF("ln", S("SUM")), K("LN_2_SQRT_E_OVER_PI")), emul(esub(X, half), eF("ln", ediv(eadd(esub(X, half), K("GAMMA_R")), K("std::f64::consts::E")))))
        lo = esub(esub(esub(esub(K("LN_PI"), eF("ln", eF("sin", emul(K("std::f64::consts::PI"), X)))), eF("ln", S("SUM"))), K("LN_2_SQRT_E_OVER_PI")),
                  emul(esub(half, X), eF("ln", ediv(eadd(esub(half, X), K("GAMMA_R")), K("std::f64::consts::E")))))
        thr = [c for c in _cs(lg, pvn) if params_of(pvn.of_operand(lg, c["l"]), lg.id) == {1} and c["r"].float_value() == 0.5 and c["op"] in ("Lt", "Ge")]
        if len(thr) != 1:
            ck.undecided("TABLE", "ln_gamma/branches", "the reflection threshold `x < 0.5` is not recognised", where=lg.where())
        else:
            c = thr[0]
            small_tg = c["true_tg"] if c["op"] == "Lt" else c["false_tg"]
            big_tg = c["false_tg"] if c["op"] == "Lt" else c["true_tg"]
            for tg, want, nm in ((big_tg, hi, "x >= 0.5"), (small_tg, lo, "x < 0.5")):
                reg = lg.region((c["bb"], tg))
                sts = [(pos, st) for pos, st in lg.stmts() if pos[0] in reg and st.k == "assign" and st.place.local == 0 and st.place.is_local()]
                if len(sts) != 1:
                    ck.undecided("TABLE", "ln_gamma/formula/" + nm, "result of the branch is not one arithmetic expression", where=lg.where())
                    continue
                pos, st = sts[0]
                fe = Extract(prog, pvn, gleaf).rvalue(lg, st, 0, pos)
                eq = expr_equal(fe, want)
                if eq is None:
                    ck.undecided("TABLE", "ln_gamma/formula/" + nm, "expression %s has leaves that are not recognised" % eshow(fe)[:200], where=lg.where(st.line))
                else:
                    ck.ob("TABLE", "ln_gamma/formula/" + nm, eq, "ln_gamma for %s %s the Lanczos formula %s" % (nm, "is" if eq else "is NOT", "" if eq else "(found %s)" % eshow(fe)[:200]), where=lg.where(st.line))
        # the series: sum = d0 + sum_{i>=1} d_i / (x + i - 1)   (x >= 0.5)   |   d_i / (i - x)   (x < 0.5)
        for bi, t in lg.calls():
            if t.callee.method != "fold" or len(t.args) != 3:
                continue
            side = "x >= 0.5" if thr and bi in lg.region((thr[0]["bb"], thr[0]["false_tg"] if thr[0]["op"] == "Lt" else thr[0]["true_tg"])) else "x < 0.5"
            from engines import adaptor_chain
            chain = adaptor_chain(lg, pvn, t.args[0])
            skips = [(b2, t2) for b2, t2 in lg.calls() if t2.callee.method == "skip" and lg.dominates(b2, bi) and b2 in lg.region((thr[0]["bb"], thr[0]["true_tg"] if (side == "x < 0.5") == (thr[0]["op"] == "Lt") else thr[0]["false_tg"]))] if thr else []
            okc = chain[:3] == ["skip", "enumerate", "iter"] and len(skips) == 1 and skips[0][1].args[1].int_value() == 1
            comp = {"0": "i", "1": "d_i"}
            if chain[:3] == ["zip", "iter", "index"]:
                # second spelling:  COEFFS[1..].iter().zip(1..)  - the element comes first, the running index (a counter from 1) second
                def range_start(op_):
                    for kind_, pos_, d_ in (pvn.defs(lg).get(op_.place.local, []) if op_.place is not None and op_.place.is_local() else []):
                        if kind_ == "assign" and d_.rv["k"] == "agg" and re.search(r"::RangeFrom$", d_.rv.get("adt", "")) and d_.rv["ops"]:
                            return d_.rv["ops"][0].int_value()
                    return None
                zs_ = [t2 for b2, t2 in lg.calls() if t2.callee.method == "zip" and lg.dominates(b2, bi) and len(t2.args) == 2]
                is_ = [t2 for b2, t2 in lg.calls() if t2.callee.trait == "std::ops::Index" and lg.dominates(b2, bi) and len(t2.args) == 2 and "RangeFrom" in (t2.callee.def_args or "")]
                s_zip = range_start(zs_[0].args[1]) if len(zs_) == 1 else None
                s_idx = range_start(is_[0].args[1]) if len(is_) == 1 else None
                if s_zip is None or s_idx is None:
                    ck.undecided("TABLE", "ln_gamma/series-range/" + side, "the series runs over COEFFS[a..].iter().zip(b..) with starts that are not constants", where=lg.where(t.line))
                    ck.undecided("TABLE", "ln_gamma/series-term/" + side, "see ln_gamma/series-range", where=lg.where(t.line))
                    continue
                comp = {"0": "d_i", "1": "i"}
                ck.ob("TABLE", "ln_gamma/series-range/" + side, s_zip == 1 and s_idx == 1, "the series for %s runs over the coefficients %d.. paired with a counter from %d (expected both from 1: d0 is the start value)" % (side, s_idx, s_zip), where=lg.where(t.line))
            elif chain[:3] != ["skip", "enumerate", "iter"] and not any(m in ("skip", "enumerate") for m in chain):
                ck.undecided("TABLE", "ln_gamma/series-range/" + side, "the series runs over the coefficients through %s: a spelling of `coefficient i with its index i, from 1` that is not read" % chain[:4], where=lg.where(t.line))
                ck.undecided("TABLE", "ln_gamma/series-term/" + side, "see ln_gamma/series-range", where=lg.where(t.line))
                continue
            else:
              ck.ob("TABLE", "ln_gamma/series-range/" + side, okc, "the series for %s runs over the coefficients %s" % (side, "1.. with their index (d0 is the start value)" if okc else "through %s (expected iter().enumerate().skip(1))" % chain[:4]), where=lg.where(t.line))
            init = t.args[1]
            iv = None
            if init.place is not None and init.place.is_local():
                for kind, pos, d in pvn.defs(lg).get(init.place.local, []):
                    if kind == "assign" and d.rv["k"] == "use" and d.rv["op"].place is not None:
                        es = [e for e in d.rv["op"].place.fields() if e != "*"]
                        if len(es) == 1 and es[0][0] in ("idx", "cidx"):
                            if es[0][0] == "cidx":
                                iv = es[0][1] if isinstance(es[0][1], int) else es[0][1].get("offset")
                            else:
                                for k2, p2, d2 in pvn.defs(lg).get(es[0][1], []):
                                    if k2 == "assign" and d2.rv["k"] == "use" and d2.rv["op"].kind == "const":
                                        iv = d2.rv["op"].int_value()
            ck.ob("TABLE", "ln_gamma/series-start/" + side, iv == 0, "the series for %s starts from coefficient %s (expected d0)" % (side, "d%s" % iv if iv is not None else "?"), where=lg.where(t.line))
            cid = pvn.closure_of_operand(lg, t.args[2])
            cb = prog.bodies.get(cid) if cid else None
            if cb is None:
                ck.undecided("TABLE", "ln_gamma/series-term/" + side, "fold closure not found", where=lg.where(t.line))
                continue
            def cleaf(ex, body, kind, obj, _cb=cb, comp=comp):
                if body is not _cb:
                    return None
                if kind == "place":
                    es = [e for e in obj.fields() if e != "*"]
                    if obj.local == 3 and len(es) == 1 and es[0][0] == "f":
                        return S(comp.get(es[0][1], "?"))
                    if obj.local == 2 and not es:
                        return S("acc")
                    if obj.local == 1 and es and es[0][0] == "f" and es[0][1].endswith("x"):
                        return S("x")
                if kind == "param":
                    idx, path = obj
                    pe = [e for e in path if e != "*"]
                    if idx == 2 and not pe:
                        return S("acc")
                    if idx == 3 and len(pe) == 1 and pe[0][0] == "f":
                        return S(comp.get(pe[0][1], "?"))
                if kind == "call":
                    tt = obj
                    tgt = prog.bodies.get(tt.callee.res) if tt.callee.res else None
                    if (tt.callee.method in absint.CONVERSIONS or is_conversion_fn(prog, tgt)) and len(tt.args) == 1:
                        return ex.operand(body, tt.args[0], 0, getattr(ex, "_at", None))
                return None
            rsts = [(pos, st) for pos, st in cb.stmts() if st.k == "assign" and st.place.local == 0 and st.place.is_local()]
            if len(rsts) != 1:
                ck.undecided("TABLE", "ln_gamma/series-term/" + side, "closure result is not one expression", where=cb.where())
                continue
            fe = Extract(prog, pvn, cleaf).rvalue(cb, rsts[0][1], 0, rsts[0][0])
            want = eadd(S("acc"), ediv(S("d_i"), esub(eadd(S("x"), S("i")), eC(1)))) if side == "x >= 0.5" else eadd(S("acc"), ediv(S("d_i"), esub(S("i"), S("x"))))
            eq = expr_equal(fe, want)
            if eq is None:
                ck.undecided("TABLE", "ln_gamma/series-term/" + side, "term %s has leaves that are not recognised" % eshow(fe)[:160], where=cb.where())
            else:
                ck.ob("TABLE", "ln_gamma/series-term/" + side, eq, "series term for %s: %s %s" % (side, eshow(fe)[:120], "= acc + d_i/(x+i-1)" if eq and side == "x >= 0.5" else "= acc + d_i/(i-x)" if eq else "is NOT the Lanczos term"), where=cb.where())

    lf = prog.body("stats::hypergeom::statrs::ln_factorial")
    if lf is not None:
        ok = False
        for fb in prog.family(lf):
            for bi, t in fb.calls():
                if (t.callee.res or "").endswith("statrs::ln_gamma"):
                    at = pvn.of_operand(fb, t.args[0])
                    ok = any(a[0] == "op" and a[1] == "Add" for a in at) and any(a[0] == "const" and a[2] in ("1f64",) for a in at)
                    ck.ob("TABLE", "ln_factorial/fallback", ok, "ln_factorial falls back to ln_gamma(x %s)" % ("+ 1" if ok else "without + 1"), where=fb.where(t.line))
        # the table branch: ln of the entry at index x
        gets = [(bi, t) for bi, t in lf.calls() if t.callee.method == "get" and len(t.args) == 2]
        moe = [(bi, t) for bi, t in lf.calls() if t.callee.method in ("map_or_else", "map_or", "map") and "Option" in (t.callee.name or "")]
        if len(gets) == 1 and len(moe) == 1 and len(moe[0][1].args) == 3:
            gi = params_of(pvn.of_operand(lf, gets[0][1].args[1]), lf.id)
            tab = any(a[0] == "constdef" and a[1].endswith("FCACHE") for a in pv.of_operand(lf, gets[0][1].args[0]))
            ck.ob("TABLE", "ln_factorial/table-index", gi == {1} and tab, "ln_factorial looks up %s at index %s" % ("the factorial table" if tab else "something else than FCACHE", "x" if gi == {1} else sorted(gi)), where=lf.where(gets[0][1].line))
            cid = pvn.closure_of_operand(lf, moe[0][1].args[2])
            cb = prog.bodies.get(cid) if cid else None
            if cb is not None:
                def tleaf(ex, body, kind, obj):
                    if kind == "param" and obj[0] == 2:
                        return S("entry")
                    if kind == "place" and obj.local == 2:
                        return S("entry")
                    return None
                r0 = [t for bi, t in cb.calls() if t.dest is not None and t.dest.is_local() and t.dest.local == 0]
                fe = Extract(prog, pvn, tleaf).call(cb, r0[0], 0, None) if len(r0) == 1 else None
                if not r0:
                    a0 = [(pos, st) for pos, st in cb.stmts() if st.k == "assign" and st.place.local == 0 and st.place.is_local()]
                    fe = Extract(prog, pvn, tleaf).rvalue(cb, a0[0][1], 0, a0[0][0]) if len(a0) == 1 else None
                from expr import F as _F
                eq = expr_equal(fe, _F("ln", S("entry"))) if fe is not None else None
                if eq is None:
                    ck.undecided("TABLE", "ln_factorial/table-value", "value taken from the table entry not recognised", where=cb.where())
                else:
                    ck.ob("TABLE", "ln_factorial/table-value", eq, "for x within the table ln_factorial returns %s (expected ln(entry))" % eshow(fe), where=cb.where())
    # the factorial table holds finite values only: n! <= f64::MAX  <=>  n <= 170.  One entry more is +inf, and ln_factorial chooses
    # between table and ln_gamma by the table's length alone.
    import math
    import sys as _sys
    mf = prog.body("stats::hypergeom::statrs::MAX_FACTORIAL")
    fc = prog.body("stats::hypergeom::statrs::FCACHE")
    if mf is None or fc is None:
        ck.undecided("TABLE", "factorial-table/finite", "constants MAX_FACTORIAL / FCACHE not found (private items)")
    else:
        vals = [st.rv["op"].int_value() for _, st in mf.stmts() if st.k == "assign" and st.place.is_local() and st.place.local == 0 and st.rv["k"] == "use" and st.rv["op"].kind == "const"]
        lens = [int(st.rv["n"]) for _, st in fc.stmts() if st.k == "assign" and st.rv["k"] == "repeat" and str(st.rv.get("n", "")).isdigit()]
        if len(vals) != 1 or vals[0] is None or len(lens) != 1:
            ck.undecided("TABLE", "factorial-table/finite", "MAX_FACTORIAL is not a literal / the table is not a fixed-size array", where=mf.where())
        else:
            n = lens[0] - 1  # largest index of the table
            try:
                finite = float(math.factorial(n)) <= _sys.float_info.max
            except OverflowError:
                finite = False
            ck.ob("TABLE", "factorial-table/finite", finite, "the factorial table has %d entries (0! ... %d!): %s" % (lens[0], n, "all finite in f64" if finite else "%d! exceeds f64::MAX, so the last entry is +inf and ln_factorial(%d) = inf: p-values with a factorial argument of exactly %d become 0, inf or NaN" % (n, n, n)), where=fc.where())
            ck.ob("TABLE", "factorial-table/length", lens[0] == vals[0] + 1, "the table has MAX_FACTORIAL + 1 = %d entries (found %d)" % (vals[0] + 1, lens[0]), where=fc.where())
            # the recurrence fills entry i with entry[i-1] * i
            muls = [st for _, st in fc.stmts() if st.k == "assign" and st.rv["k"] == "bin" and st.rv["op"].startswith("Mul")]
            ck.ob("TABLE", "factorial-table/recurrence", len(muls) == 1, "the table is filled by one multiplicative recurrence (%d multiplication site(s))" % len(muls), where=fc.where())

    # ---- accessors: a method named after a field returns that field, not a sibling of the same type
    ck.rule("GETTER", "an accessor `f()` / `f_mut()` of a struct with a field `f` (or its documented alias) derives its result from that field (DESIGN 3.9)")
    from props.shared import check_exact_conversion
    check_exact_conversion(ck, "GUARD", prog, "stats::f64_from_u64", "the counts k, n, K, N")
    check_exact_conversion(ck, "GUARD", prog, "stats::f64_from_usize", "the series index / factorial argument")
    from props.shared import check_conversion_range
    check_conversion_range(ck, "GUARD", prog, "stats::f64_from_u64", 32, "the counts N, K, n, k of an enrichment are bounded by the number of terms / records only (u32 ids)")
    check_conversion_range(ck, "GUARD", prog, "stats::f64_from_usize", 32, "ln_factorial is called with the population size, which is bounded by the number of terms only (u32 ids)")
    from engines import check_getters
    check_getters(ck, "GETTER", prog, r"^src/stats\.rs$", floor=2)

    # ---- constructors: a field named like a parameter is initialised from that parameter, not from a sibling of the same type
    ck.rule("CTOR", "in a struct literal, the field `f` of a function with a parameter `f` derives from that parameter (DESIGN 3.9)")
    from engines import check_ctors
    check_ctors(ck, "CTOR", prog, r"^src/stats\.rs$|^src/stats/hypergeom/", floor=8)
    # container methods of the wrapper types answer with the same-named method of one inner collection
    ck.rule("WRAPPER", "len / is_empty / contains / get / iter / push ... of a wrapper type delegate to the same-named method of ONE inner collection, un-negated (DESIGN 3.9)")
    from engines import check_wrappers
    check_wrappers(ck, "WRAPPER", prog, r"^src/stats\.rs$", floor=1)
    # iterators that turn one inner item into one item of their own never answer None while the inner iterator still has items
    ck.rule("MAPITER", "a hand-written mapping iterator returns None only on the inner iterator's exhaustion (no early end on a failed lookup)")
    from engines import check_mapping_iterators
    check_mapping_iterators(ck, "MAPITER", prog, r"^src/stats\.rs$", floor=2)
    # the gene / OMIM / ORPHA variants of one operation: none does something its siblings do not
    ck.rule("KSIB", "in a group of >= 3 kind variants of one operation, no member alone has an extra selecting / truncating / error-swallowing / text-changing step or calls a crate function no sibling calls")
    from engines import check_kind_siblings
    check_kind_siblings(ck, "KSIB", prog, r"^src/stats", floor=1)
