"""shared rule instances for the binary codec (C07 / C08)"""
import re
from engines import parse_bytestr, kind_of_segment, kinds_in_type, positive_edges
from prov import Prov, params_of, field_names

ONT = "ontology::Ontology::"
VERSION_FN = "parser::binary::ontology::version"
BV = "parser::binary::BinaryVersion"


def array_consts(prog, pv, body, op):
    """integer contents of an array constant an operand denotes (through refs / casts / promoted bodies)"""
    atoms = pv.of_operand(body, op)
    # promoted arrays are inlined by the provenance engine: collect const atoms of integer type in aggregate order
    # -> walk explicitly to keep the order
    def walk(b, o, depth=0):
        if depth > 20:
            return None
        if o.kind == "const":
            c = o.const
            if "promoted" in c:
                pb = prog.bodies.get("%s::promoted[%d]" % (c["def"], c["promoted"]))
                if pb is None:
                    return None
                return walk_local(pb, 0, depth + 1)
            if c.get("def") and c["def"] in prog.bodies:
                # a named constant array (`const MAGIC: [u8; 3] = [..]`)
                return walk_local(prog.bodies[c["def"]], 0, depth + 1)
            bs = parse_bytestr(c["val"])
            if bs is not None:
                return list(bs)
            return None
        if o.place is None:
            return None
        return walk_local(b, o.place.local, depth + 1)

    def walk_local(b, l, depth):
        if depth > 20:
            return None
        ds = pv.defs(b).get(l, [])
        if len(ds) != 1 or ds[0][0] != "assign":
            return None
        rv = ds[0][2].rv
        if rv["k"] == "agg" and rv["agg"] == "array":
            vals = [x.int_value() for x in rv["ops"]]
            return vals if all(v is not None for v in vals) else None
        if rv["k"] in ("use", "cast"):
            return walk(b, rv["op"], depth + 1)
        if rv["k"] == "ref":
            return walk_local(b, rv["place"].local, depth + 1)
        return None

    return walk(body, op)


def header_writer(prog, pv):
    """(magic bytes, version byte, body) emitted by Ontology::metadata_as_bytes"""
    b = prog.body(ONT + "metadata_as_bytes")
    if b is None:
        return None
    magic, version = None, None
    order = []
    for bi, t in b.calls():
        if t.callee.method == "extend_from_slice" and magic is None:
            magic = array_consts(prog, pv, b, t.args[1])
            order.append(("magic", bi))
        elif t.callee.method == "push" and version is None and t.args[1].kind == "const":
            version = t.args[1].int_value()
            order.append(("version", bi))
    return {"body": b, "magic": magic, "version": version, "order": order}


def header_paths(prog, pv, b, input_param=1, limit=4000):
    """all control-flow paths of the (loop-free) header reader under constraints on the input's constant-index bytes and its length:
    list of dict(bytes {i: ('eq', v) | ('ne', frozenset)}, broken (a whole-magic comparison failed), magic (array compared as a whole),
    len_lo, len_hi, result 'Ok' | 'Err' | None, variants, offsets)"""
    INF = 10 ** 9

    def chain(l):
        """single `use` definitions back to the origin: yields definitions (kind, pos, d)"""
        seen = set()
        while l is not None and l not in seen:
            seen.add(l)
            ds = pv.defs(b).get(l, [])
            if len(ds) != 1:
                return
            yield ds[0]
            kind, pos, d = ds[0]
            if kind == "assign" and d.rv["k"] in ("use", "cast") and d.rv["op"].place is not None and d.rv["op"].place.is_local():
                l = d.rv["op"].place.local
            else:
                return

    def is_input(l):
        if l == input_param:
            return True
        return params_of(pv.of_local(b, l), b.id) == {input_param} and not any(a[0] == "call" for a in pv.of_local(b, l))

    def const_of(op):
        if op.kind == "const":
            return op.int_value()
        if op.place is not None and op.place.is_local():
            for kind, pos, d in chain(op.place.local):
                if kind == "assign" and d.rv["k"] == "use" and d.rv["op"].kind == "const":
                    return d.rv["op"].int_value()
        return None

    def byte_index(pl, _d=0):
        es = [e for e in pl.fields() if e != "*"]
        if not es and pl.proj and _d < 3:
            # `*r` with `r = &input[3]` (a byte bound by a slice pattern and matched afterwards)
            ds = pv.defs(b).get(pl.local, [])
            if len(ds) == 1 and ds[0][0] == "assign" and ds[0][2].rv["k"] == "ref":
                return byte_index(ds[0][2].rv["place"], _d + 1)
            return None
        if len(es) != 1 or not is_input(pl.local):
            return None
        if es[0][0] == "cidx":
            c = es[0][1]
            return c if isinstance(c, int) else (c.get("offset") if not c.get("from_end") else None)
        if es[0][0] == "idx":
            for kind, pos, d in chain(es[0][1]):
                if kind == "assign" and d.rv["k"] == "use" and d.rv["op"].kind == "const":
                    return d.rv["op"].int_value()
        return None

    def is_len(op):
        if op.place is None or not op.place.is_local():
            return False
        for kind, pos, d in chain(op.place.local):
            if kind == "assign" and d.rv["k"] == "un" and d.rv.get("op") == "PtrMetadata":
                return True
            if kind == "call" and d.callee.method == "len" and len(d.args) == 1 and params_of(pv.of_operand(b, d.args[0]), b.id) == {input_param}:
                return True
        return False

    def meaning(op):
        """('byte', i) | ('len', op, c) (truth of `len op c`) | ('magic', vals, negated) | None"""
        if op.place is None:
            return None
        if not op.place.is_local():
            i = byte_index(op.place)
            return ("byte", i) if i is not None else None
        for kind, pos, d in chain(op.place.local):
            if kind == "assign" and d.rv["k"] == "use" and d.rv["op"].place is not None and not d.rv["op"].place.is_local():
                i = byte_index(d.rv["op"].place)
                return ("byte", i) if i is not None else None
            if kind == "assign" and d.rv["k"] == "bin" and d.rv["op"] in ("Lt", "Le", "Gt", "Ge", "Eq", "Ne"):
                l, r = d.rv["l"], d.rv["r"]
                if is_len(l) and const_of(r) is not None:
                    return ("len", d.rv["op"], const_of(r))
                if is_len(r) and const_of(l) is not None:
                    return ("len", {"Lt": "Gt", "Le": "Ge", "Gt": "Lt", "Ge": "Le", "Eq": "Eq", "Ne": "Ne"}[d.rv["op"]], const_of(l))
                return None
            if kind == "call":
                t = d
                if (t.callee.trait == "std::cmp::PartialEq" and t.callee.method in ("eq", "ne") and len(t.args) == 2) or (t.callee.method == "starts_with" and len(t.args) == 2):
                    for a in t.args:
                        v = array_consts(prog, pv, b, a)
                        if v:
                            return ("magic", v, t.callee.method == "ne")
                return None
        return None

    def len_branch(op, c, truth, lo, hi):
        if not truth:
            op = {"Lt": "Ge", "Le": "Gt", "Gt": "Le", "Ge": "Lt", "Eq": "Ne", "Ne": "Eq"}[op]
        if op == "Lt":
            hi = min(hi, c - 1)
        elif op == "Le":
            hi = min(hi, c)
        elif op == "Gt":
            lo = max(lo, c + 1)
        elif op == "Ge":
            lo = max(lo, c)
        elif op == "Eq":
            lo, hi = max(lo, c), min(hi, c)
        return (lo, hi) if lo <= hi else None

    out = []
    stack = [(0, {}, False, None, 0, INF, None, frozenset(), frozenset(), frozenset())]
    while stack:
        if len(out) + len(stack) > limit:
            return None
        bi, by, broken, magic, lo, hi, result, variants, offsets, seen = stack.pop()
        if bi in seen:
            return None  # a loop: not a straight-line header reader
        seen = seen | {bi}
        blk = b.blocks[bi]
        for st in blk.stmts:
            if st.k != "assign":
                continue
            rv = st.rv
            if rv["k"] == "agg" and rv.get("adt") == BV:
                variants = variants | {rv["variant"]}
            elif rv["k"] == "agg" and rv.get("adt", "").endswith("result::Result") and st.place.local == 0:
                result = rv["variant"]
            elif rv["k"] == "agg" and rv.get("adt", "").endswith("RangeFrom"):
                c = const_of(rv["ops"][0])
                if c is not None:
                    offsets = offsets | {c}
            elif rv["k"] == "ref" and is_input(rv["place"].local):
                for e in rv["place"].proj:
                    if isinstance(e, dict) and "sub_from" in e and e.get("from_end") and e.get("sub_to") == 0:
                        offsets = offsets | {e["sub_from"]}
        x = blk.term
        if x.k == "return":
            out.append({"bytes": by, "broken": broken, "magic": magic, "len_lo": lo, "len_hi": hi, "result": result, "variants": set(variants), "offsets": set(offsets)})
            continue
        if x.k != "switch":
            for y in x.successors():
                stack.append((y, by, broken, magic, lo, hi, result, variants, offsets, seen))
            continue
        m = meaning(x.discr)
        if m is None:
            for y in x.successors():
                stack.append((y, by, broken, magic, lo, hi, result, variants, offsets, seen))
        elif m[0] == "byte":
            i = m[1]
            cur = by.get(i)
            listed = frozenset(v for v, _ in x.targets)
            for v, tg in x.targets:
                if cur is None or (cur[0] == "eq" and cur[1] == v) or (cur[0] == "ne" and v not in cur[1]):
                    nb = dict(by)
                    nb[i] = ("eq", v)
                    stack.append((tg, nb, broken, magic, lo, hi, result, variants, offsets, seen))
            if cur is None or cur[0] == "ne" or (cur[0] == "eq" and cur[1] not in listed):
                nb = dict(by)
                if cur is None:
                    nb[i] = ("ne", listed)
                elif cur[0] == "ne":
                    nb[i] = ("ne", cur[1] | listed)
                stack.append((x.otherwise, nb, broken, magic, lo, hi, result, variants, offsets, seen))
        elif m[0] == "len":
            for v, tg in x.targets + [(None, x.otherwise)]:
                truth = (v != 0) if v is not None else not any(vv != 0 for vv, _ in x.targets)
                r = len_branch(m[1], m[2], truth, lo, hi)
                if r is not None:
                    stack.append((tg, by, broken, magic, r[0], r[1], result, variants, offsets, seen))
        else:
            vals, neg = m[1], m[2]
            for v, tg in x.targets + [(None, x.otherwise)]:
                truth = (v != 0) if v is not None else not any(vv != 0 for vv, _ in x.targets)
                equal = truth != neg
                if equal:
                    if any(by.get(i) is not None and ((by[i][0] == "eq" and by[i][1] != vals[i]) or (by[i][0] == "ne" and vals[i] in by[i][1])) for i in range(len(vals))):
                        continue
                    nb = dict(by)
                    for i, vv in enumerate(vals):
                        nb[i] = ("eq", vv)
                    stack.append((tg, nb, broken, vals, lo, hi, result, variants, offsets, seen))
                else:
                    stack.append((tg, by, True, vals, lo, hi, result, variants, offsets, seen))
    return out


def header_reader(prog, pv):
    """the header reader as a decision table (paths of `version` under byte constraints); the older shape-based reading is the fallback
    for readers that delegate the version byte to a conversion function"""
    b = prog.body(VERSION_FN)
    if b is None:
        return None
    paths = header_paths(prog, pv, b)
    if paths:
        okp = [p for p in paths if p["result"] == "Ok" and p["bytes"] and all(c[0] == "eq" for c in p["bytes"].values()) and not p["broken"]]
        magics = set()
        for p in okp:
            eqs = sorted(i for i, c in p["bytes"].items() if c[0] == "eq")
            if p["magic"] is not None:
                k = len(p["magic"])
            else:
                k = eqs[-1]
            if eqs[:k] == list(range(k)) and p["bytes"].get(k, ("", 0))[0] == "eq":
                magics.add((tuple(p["bytes"][i][1] for i in range(k)), k))
            else:
                magics.add(None)
        if len(magics) == 1 and None not in magics:
            magic, k = next(iter(magics))
            arms, unknown, no_magic, no_magic_results, offs = {}, set(), set(), set(), set()
            for p in paths:
                full = all(p["bytes"].get(i) == ("eq", magic[i]) for i in range(k))
                brk = p["broken"] or p["len_hi"] < k or any(p["bytes"].get(i) is not None and (p["bytes"][i][0] == "ne" or p["bytes"][i][1] != magic[i]) for i in range(k))
                if full and not p["broken"]:
                    c = p["bytes"].get(k)
                    if c is not None and c[0] == "eq" and p["result"] == "Ok":
                        arms.setdefault(c[1], set()).update(p["variants"])
                        offs |= p["offsets"]
                    elif c is None or c[0] == "ne":
                        unknown.add(p["result"])
                elif brk:
                    no_magic |= p["variants"] if p["result"] == "Ok" else set()
                    no_magic_results.add(p["result"])
            if arms:
                return {"body": b, "magic": list(magic), "arms": arms, "otherwise": None, "unknown": unknown, "switch_bb": None, "no_magic": no_magic,
                        "no_magic_results": no_magic_results, "payload_offsets": offs, "paths": len(paths)}
    return header_reader_shape(prog, pv)


def header_reader_shape(prog, pv):
    b = prog.body(VERSION_FN)
    if b is None:
        return None
    magic = None
    magic_call = None
    for bi, t in b.calls():
        if (t.callee.trait == "std::cmp::PartialEq" and t.callee.method in ("eq", "ne") and len(t.args) == 2) or (t.callee.method == "starts_with" and "[u8]" in (t.callee.name or "") + (t.callee.def_args or "") and len(t.args) == 2):
            for a in t.args:
                v = array_consts(prog, pv, b, a)
                if v:
                    magic = v
                    magic_call = bi
    arms = {}
    otherwise = None
    sw_bb = None
    for bi in sorted(b.reach):
        x = b.blocks[bi].term
        if x.k == "switch" and x.discr_ty == "u8" and x.discr.place is not None and any(e != "*" and e[0] in ("idx", "cidx") for e in x.discr.place.fields()):
            sw_bb = bi
            for v, tg in x.targets:
                region = b.region((bi, tg))
                vs = set()
                for r in region:
                    for st in b.blocks[r].stmts:
                        if st.k == "assign" and st.rv["k"] == "agg" and st.rv.get("adt") == BV:
                            vs.add(st.rv["variant"])
                arms[v] = vs
            otherwise = (bi, x.otherwise)
    if not arms:
        # delegation: the version byte is converted by a crate function (e.g. `BinaryVersion::try_from(bytes[3])`)
        for bi, t in b.calls():
            tgt = prog.bodies.get(t.callee.res) if t.callee.res else None
            if tgt is None or not t.args:
                continue
            a0 = t.args[0]
            byte_arg = a0.place is not None and (any(e != "*" and e[0] in ("idx", "cidx") for e in a0.place.fields()) or any(
                kind == "assign" and d.rv["k"] == "use" and d.rv["op"].place is not None and any(e != "*" and e[0] in ("idx", "cidx") for e in d.rv["op"].place.fields())
                for kind, pos, d in pv.defs(b).get(a0.place.local, [])))
            if not byte_arg:
                continue
            for tbi in sorted(tgt.reach):
                x = tgt.blocks[tbi].term
                if x.k == "switch" and x.discr_ty == "u8":
                    for v, tg in x.targets:
                        vs = set()
                        for r in tgt.region((tbi, tg)):
                            for st in tgt.blocks[r].stmts:
                                if st.k == "assign" and st.rv["k"] == "agg" and st.rv.get("adt") == BV:
                                    vs.add(st.rv["variant"])
                        arms[v] = vs
                    sw_bb = None
                    otherwise = None
    # what the no-magic path yields
    v1 = set()
    if magic_call is not None:
        pos = positive_edges(b, pv, magic_call)
        for (sbi, tg) in pos:
            x = b.blocks[sbi].term
            for other in x.successors():
                if other != tg:
                    for r in b.region((sbi, other)):
                        for st in b.blocks[r].stmts:
                            if st.k == "assign" and st.rv["k"] == "agg" and st.rv.get("adt") == BV:
                                v1.add(st.rv["variant"])
    # payload offset (RangeFrom start) on the magic path
    offs = set()
    for pos_, st in b.stmts():
        if st.k == "assign" and st.rv["k"] == "agg" and st.rv.get("adt", "").endswith("RangeFrom"):
            offs.add(st.rv["ops"][0].int_value())
    return {"body": b, "magic": magic, "arms": arms, "otherwise": otherwise, "switch_bb": sw_bb, "no_magic": v1, "payload_offsets": offs}


def version_order(prog):
    """u8 value of each BinaryVersion variant from `impl From<&BinaryVersion> for u8`"""
    b = None
    for x in prog.production():
        if x.kind == "AssocFn" and x.impl_trait == "std::convert::From" and x.impl_self and x.impl_self.get("s") == "u8" and "BinaryVersion" in (x.impl_trait_ref or x.id):
            b = x
    adt = prog.adts.get(BV)
    if b is None or adt is None:
        return None
    names = [v["name"] for v in adt["variants"]]
    out = {}
    for bi in sorted(b.reach):
        x = b.blocks[bi].term
        if x.k == "switch":
            for v, tg in x.targets:
                vals = set()
                for r in b.region((bi, tg)):
                    for st in b.blocks[r].stmts:
                        if st.k == "assign" and st.place.local == 0 and st.rv["k"] == "use" and st.rv["op"].kind == "const":
                            vals.add(st.rv["op"].int_value())
                if len(vals) == 1 and v < len(names):
                    out[names[v]] = next(iter(vals))
            listed = {v for v, _ in x.targets}
            rest = [i for i in range(len(names)) if i not in listed]
            if len(rest) == 1:
                vals = set()
                for r in b.region((bi, x.otherwise)):
                    for st in b.blocks[r].stmts:
                        if st.k == "assign" and st.place.local == 0 and st.rv["k"] == "use" and st.rv["op"].kind == "const":
                            vals.add(st.rv["op"].int_value())
                if len(vals) == 1:
                    out[names[rest[0]]] = next(iter(vals))
    return out if len(out) == len(names) else None


def version_guards(prog, pv, body):
    """comparisons of a BinaryVersion against a constant variant in `body`:
    list of dict(call_bb, op, const_variant, satisfied(set of variants) on the positive edge, edges)"""
    order = version_order(prog)
    out = []
    if order is None:
        return out
    for bi, t in body.calls():
        c = t.callee
        if not ((c.trait in ("std::cmp::PartialOrd", "std::cmp::PartialEq")) and len(t.args) == 2 and "BinaryVersion" in (c.def_args or "")):
            continue
        op = c.method
        cv = [None, None]
        for i, a in enumerate(t.args):
            for at in pv.of_operand(body, a):
                pass
            vs = const_variant(prog, pv, body, a)
            cv[i] = vs
        if (cv[0] is None) == (cv[1] is None):
            continue
        const_left = cv[0] is not None
        k = order[cv[0] if const_left else cv[1]]
        sat = set()
        for vname, val in order.items():
            l, r = (k, val) if const_left else (val, k)
            res = {"gt": l > r, "ge": l >= r, "lt": l < r, "le": l <= r, "eq": l == r, "ne": l != r}.get(op)
            if res:
                sat.add(vname)
        out.append({"call_bb": bi, "op": op, "const": cv[0] if const_left else cv[1], "satisfied": sat, "edges": positive_edges(body, pv, bi), "line": t.line, "all": set(order)})
    return out


def const_variant(prog, pv, body, op):
    """the BinaryVersion variant an operand is a constant of (through refs / promoted), else None"""
    seen = set()

    def walk(b, o, depth=0):
        if depth > 20:
            return None
        if o.kind == "const":
            c = o.const
            if "promoted" in c:
                pb = prog.bodies.get("%s::promoted[%d]" % (c["def"], c["promoted"]))
                return walk_local(pb, 0, depth + 1) if pb is not None else None
            m = re.search(r"BinaryVersion::(V\d+)", c["val"])
            return m.group(1) if m else None
        if o.place is None:
            return None
        return walk_local(b, o.place.local, depth + 1)

    def walk_local(b, l, depth):
        if depth > 20:
            return None
        ds = pv.defs(b).get(l, [])
        if len(ds) != 1 or ds[0][0] != "assign":
            return None
        rv = ds[0][2].rv
        if rv["k"] == "agg" and rv.get("adt") == BV:
            return rv["variant"]
        if rv["k"] in ("use", "cast"):
            return walk(b, rv["op"], depth + 1)
        if rv["k"] == "ref":
            if [e for e in rv["place"].fields() if e != "*"]:
                return None
            return walk_local(b, rv["place"].local, depth + 1)
        return None

    return walk(body, op)


def dominance_order(body, blocks):
    """sort blocks so that dominators come first (only meaningful when they are totally ordered by dominance)"""
    bl = list(blocks)
    def key(x):
        return len([y for y in bl if y != x and body.dominates(y, x)])
    return sorted(bl, key=key)


def section_label(callee):
    """label of an encoder / decoder call in the section sequence"""
    n = callee.res or callee.deff or ""
    last = n.rsplit("::", 1)[-1]
    if last in ("parents_as_byte", "add_parent_from_bytes"):
        return "Parents"
    if last in ("add_terms_from_bytes",):
        return "Terms"
    if last == "as_bytes":
        st = (callee.impl_self or "") + " " + ((callee.self_ty or {}).get("s", "") if callee.self_ty else "") + " " + (callee.def_args or "")
        if "HpoTermInternal" in st:
            return "Terms"
        ks = kinds_in_type(st)
        if len(ks) == 1:
            return next(iter(ks))
        return None
    m = re.match(r"add_(genes|omim_disease|orpha_disease)_from_bytes$", last)
    if m:
        return {"genes": "Gene", "omim_disease": "Omim", "orpha_disease": "Orpha"}[m.group(1)]
    return None


class _FnItemCallee:
    """a function item handed to an adaptor (`.map(Gene::as_bytes)`), seen as a callee"""

    def __init__(self, c):
        self.res = c.get("res")
        self.deff = c.get("fn")
        self.def_args = c.get("fn_args") or c.get("val")
        self.impl_self = None
        self.self_ty = None
        self.method = (self.deff or "").rsplit("::", 1)[-1]
        self.trait = None
        self.name = self.deff


def section_label_of_call(prog, pv, body, t):
    """section label of a call: the callee itself, a function item it is handed, or the unique labelled callee inside a
    closure it is handed (`records.map(|r| r.as_bytes())`)"""
    lab = section_label(t.callee)
    if lab:
        return lab
    labs = set()
    for a in t.args[1:] if len(t.args) > 1 else []:
        if a.kind == "const" and "fn" in a.const:
            l2 = section_label(_FnItemCallee(a.const))
            if l2:
                labs.add(l2)
        else:
            cid = pv.closure_of_operand(body, a)
            cb = prog.bodies.get(cid) if cid else None
            if cb is not None and cb.kind == "Closure":
                for x in prog.bodies.values():
                    if x.id == cb.id or x.id.startswith(cb.id + "::{closure"):
                        for _, ct in x.calls():
                            l2 = section_label(ct.callee)
                            if l2:
                                labs.add(l2)
    return next(iter(labs)) if len(labs) == 1 else None


def fields_read(prog, body, owner_rx, depth=2, _seen=None):
    """field names of ADTs matching owner_rx that are read in `body`, its closures and (to `depth`) crate callees"""
    out = set()
    _seen = _seen if _seen is not None else set()
    if body.id in _seen:
        return out
    _seen.add(body.id)
    for fb in prog.family(body):
        for pos, x in fb.positions():
            places = []
            if hasattr(x, "rv") and x.rv is not None:
                rv = x.rv
                if rv["k"] in ("ref", "discr", "rawptr"):
                    places.append(rv["place"])
                for o in x.ops:
                    if o.place is not None:
                        places.append(o.place)
            elif hasattr(x, "args"):
                for o in x.args:
                    if o.place is not None:
                        places.append(o.place)
                if x.k == "switch" and x.discr.place is not None:
                    places.append(x.discr.place)
            for pl in places:
                for e in pl.fields():
                    if e != "*" and e[0] == "f" and re.search(owner_rx, e[2]):
                        out.add(e[1])
        if depth > 0:
            for bi, t in fb.calls():
                tg = prog.bodies.get(t.callee.res) if t.callee.res else None
                if tg is None and t.callee.res is None and t.callee.trait and t.callee.trait.startswith("annotations::"):
                    # unresolved trait call on Self: union over the crate's impls of that method
                    for ib in prog.bodies.values():
                        if ib.impl_trait == t.callee.trait and ib.name == t.callee.method:
                            out |= fields_read(prog, ib, owner_rx, depth - 1, _seen)
                    continue
                if tg is not None and tg.kind in ("Fn", "AssocFn"):
                    out |= fields_read(prog, tg, owner_rx, depth - 1, _seen)
    return out


def ctor_fields_from_params(prog, pv, ctor_body, owner_rx):
    """fields of the constructed record that are initialised from a parameter of the constructor"""
    out = set()
    for pos, s in ctor_body.stmts():
        if s.k == "assign" and s.rv["k"] == "agg" and s.rv.get("agg") == "adt" and re.search(owner_rx, s.rv.get("adt", "")):
            for f, o in zip(s.rv["fields"], s.rv["ops"]):
                if params_of(pv.of_operand(ctor_body, o), ctor_body.id):
                    out.add(f)
    return out


def fields_mutated(prog, ms, body, owner_rx, depth=2):
    """fields of the &mut self record that `body` writes (directly or through mutating callees)"""
    out = set()
    defs = {}
    for pos, s in body.stmts():
        if s.k == "assign" and s.rv["k"] == "ref" and s.place.is_local():
            defs[s.place.local] = s.rv["place"]
    for site in ms.mutation_sites(body, {1}):
        if site["kind"] == "assign":
            st = body.blocks[site["pos"][0]].stmts[site["pos"][1]]
            for e in st.place.fields():
                if e != "*" and e[0] == "f" and re.search(owner_rx, e[2]):
                    out.add(e[1])
        else:
            t = site["term"]
            a = t.args[site["arg"]]
            pl = defs.get(a.place.local) if a.place is not None else None
            got = False
            if pl is not None:
                for e in pl.fields():
                    if e != "*" and e[0] == "f" and re.search(owner_rx, e[2]):
                        out.add(e[1])
                        got = True
            if not got and depth > 0:
                tg = prog.bodies.get(t.callee.res) if t.callee.res else None
                if tg is not None:
                    out |= fields_mutated(prog, ms, tg, owner_rx, depth - 1)
    return out


def decoder_fields(prog, pv, ms, body, owner_rx, record_short):
    """fields of the record that a decoder sets from its input: constructor arguments, `*_mut` accessors written
    through, and mutating methods called on the record"""
    out = set()
    pvn = Prov(prog, inline=False)

    def impls(callee):
        tg = prog.bodies.get(callee.res) if callee.res else None
        if tg is not None:
            return [tg]
        if callee.res is None and callee.trait and callee.trait.startswith("annotations::"):
            return [ib for ib in prog.bodies.values() if ib.impl_trait == callee.trait and ib.name == callee.method]
        return []

    for fb in prog.family(body):
        # the record built as a struct literal in the decoder itself (no constructor call): fields filled from the input
        for pos, s in fb.stmts():
            if s.k == "assign" and s.rv["k"] == "agg" and s.rv.get("agg") == "adt" and re.search(owner_rx, s.rv.get("adt", "")):
                for f, o in zip(s.rv["fields"], s.rv["ops"]):
                    if params_of(pv.of_operand(fb, o), body.id) or params_of(pv.of_operand(fb, o), fb.id):
                        out.add(f)
            # ... or a field of the record assigned directly (`gene.hpos = HpoGroup::from(term_ids)`), the value coming from the input
            if s.k == "assign" and not s.place.is_local():
                fs_ = [e for e in s.place.fields() if e != "*" and e[0] == "f" and re.search(owner_rx, e[2])]
                if fs_ and s.rv["k"] in ("use", "cast") and (params_of(pv.of_operand(fb, s.rv["op"]), body.id) or params_of(pv.of_operand(fb, s.rv["op"]), fb.id)):
                    out.add(fs_[0][1])
        for bi, t in fb.calls():
            # (a call that writes its result straight into a field of the record: `gene.hpos = HpoGroup::from(ids)` is a call terminator in MIR)
            if t.dest is not None and not t.dest.is_local():
                fs_ = [e for e in t.dest.fields() if e != "*" and e[0] == "f" and re.search(owner_rx, e[2])]
                if fs_ and any(params_of(pv.of_operand(fb, a_), body.id) or params_of(pv.of_operand(fb, a_), fb.id) for a_ in t.args):
                    out.add(fs_[0][1])
            for tg in impls(t.callee):
                if tg.kind not in ("Fn", "AssocFn"):
                    continue
                ret = tg.locals[0]["s"]
                if tg.name in ("new", "try_new", "from_parts") and re.search(owner_rx, (tg.impl_self or {}).get("s", "") + ret):
                    out |= ctor_fields_from_params(prog, pv, tg, owner_rx)
                    # constructors that delegate (try_new -> new)
                    for _, t2 in tg.calls():
                        for tg2 in impls(t2.callee):
                            if tg2.name == "new":
                                out |= ctor_fields_from_params(prog, pv, tg2, owner_rx)
                elif tg.name and tg.name.endswith("_mut") and re.search(owner_rx, (tg.impl_self or {}).get("s", "")):
                    dl = t.dest.local
                    written = any(s.k == "assign" and "*" in s.place.fields() and s.place.local == dl for _, s in fb.stmts())
                    if written:
                        out |= {a[2] for a in pv.of_return(tg) if a[0] == "field" and re.search(owner_rx, a[1])}
                elif tg.impl_self and re.search(owner_rx, tg.impl_self.get("s", "")) and tg.sig and re.search(r"fn\(&'?\w* ?mut ", tg.sig):
                    out |= fields_mutated(prog, ms, tg, owner_rx)
    return out


def ontology_reader(prog):
    """the body that reads the sections of a binary ontology: `Ontology::from_bytes`, or - when that function only hands its input on to ONE other
    method of the same impl that does the reading (a new `from_reader<R: Read>(reader)`) - that method.
    -> {"entry": from_bytes body | None, "body": the reading body | None, "stream": the reading body pulls its input from std::io::Read}"""
    fb = prog.body(ONT + "from_bytes")
    out = {"entry": fb, "body": fb, "stream": False}
    if fb is None:
        return out
    own = [t for x in prog.family(fb) for _, t in x.calls() if section_label(t.callee) is not None]
    if own or fb.natural_loops():
        return out
    tgs = {t.callee.res for _, t in fb.calls() if t.callee.res in prog.bodies and prog.bodies[t.callee.res].kind == "AssocFn" and prog.bodies[t.callee.res].impl_self == fb.impl_self
           and not prog.bodies[t.callee.res].impl_trait and t.callee.res != fb.id}
    tgs = {x for x in tgs if any(section_label(t.callee) is not None for y in prog.family(prog.bodies[x]) for _, t in y.calls())}
    if len(tgs) == 1:
        rb = prog.bodies[next(iter(tgs))]
        out["body"] = rb
        from engines import private_scope
        out["stream"] = any((t.callee.trait or "") == "std::io::Read" for x in private_scope(prog, rb) for _, t in x.calls())
    return out
