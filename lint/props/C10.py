"""C10 - lookups are exact for every possible id and every name (clauses: PANIC, TABLE, DOM, ROLE)"""
import re
from engines import PanicScan, zero_test_edges, str_const, adaptor_chain, TRUNCATING_ADAPTORS, bool_polarity
from prov import Prov, field_names, params_of
from props.shared import arena_placeholder_skips, termid_display_width

CLAIM = ("(PANIC) no panicking construct is reachable from the lookup entry points Ontology::{hpo, gene, gene_by_name, omim_disease, "
         "omim_disease_by_name, omim_diseases_by_name, orpha_disease}, OmimDiseaseFilter::next, HpoTerm::try_new, except two named exemptions; "
         "(TABLE) the reserved slot-0 constant of the term arena is used consistently by default/len/values/values_mut/keys/iter and the "
         "absent marker is 0 in get/get_mut/insert; (DOM) the arena hands out terms[slot] only on the slot != 0 edge and stores an id only "
         "on the slot == 0 edge with the pre-push length as slot; (ROLE) gene_by_name compares the gene's name with the query by equality "
         "and the disease searches call name.contains(query), not the converse.")
NOT_DECIDED = "exactness of the id -> slot mapping over the whole key space and agreement of iteration with len() on every history (data dependent)."

ENTRY = [
    "ontology::Ontology::hpo", "ontology::Ontology::gene", "ontology::Ontology::gene_by_name", "ontology::Ontology::omim_disease",
    "ontology::Ontology::omim_disease_by_name", "ontology::Ontology::omim_diseases_by_name", "ontology::Ontology::orpha_disease",
    "<annotations::omim_disease::OmimDiseaseFilter<'a> as std::iter::Iterator>::next", "term::hpoterm::HpoTerm::<'a>::try_new",
]
EXEMPT = {
    (r"HpoTermId::to_usize$", r"expect"): "u32 -> usize is infallible on >= 32-bit targets (documented at the call)",
    (r"termarena::Arena::get$", r"Vec<.*HpoTermInternal> as std::ops::Index<usize>>::index"):
        "the slot was stored by Arena::insert as an index below terms.len(): a data-structure invariant, checked structurally by the DOM clause on insert",
}
ASSUME_TOTAL = [
    (r"^<I as std::convert::Into<term::hpotermid::HpoTermId>>::into$", "generic entry points are analysed at I in {HpoTermId, u32}; both conversions are total"),
]
ARENA = "ontology::termarena::Arena"


def arena_fn(prog, name):
    return prog.body("%s::%s" % (ARENA, name))


def run(ck, prog, ctx):
    ck.rule("PANIC", "no may-panic callee / Assert terminator in any crate body reachable from the entry points; exemptions are per symbol with a reason (DESIGN 3.1)")
    ck.rule("INDEX", "a map field whose values are the keys of another map field of the same struct (a name -> id index) is written only where a record is inserted into that other map")
    from engines import check_secondary_index
    check_secondary_index(ck, "INDEX", prog, r"^ontology::(builder::Builder|Ontology)$")
    # the public ways of adding a term end in the arena: Builder::new_term / add_term reach Arena::insert on every path
    from engines import check_required_steps as _crs10
    for nb10 in prog.find(r"^ontology::builder::Builder::<.*>::new_term$"):
        _crs10(ck, "DOM", prog, nb10, [("store the term in the arena", lambda t_: (t_.callee.res or "").endswith("::add_term") or (t_.callee.res or "").endswith("Arena::insert"))])
    for nb10 in prog.find(r"^ontology::builder::Builder::<.*>::add_term$"):
        _crs10(ck, "DOM", prog, nb10, [("store the term in the arena", lambda t_: (t_.callee.res or "").endswith("Arena::insert"))])
    ck.rule("TABLE", "slot-0 constants agree (DESIGN 3.12)")
    ck.rule("DOM", "must-pass-through on zero-test edges (DESIGN 3.6)")
    ck.rule("ROLE", "role provenance at contract sites (DESIGN 3.4)")
    pv = Prov(prog)

    # ------------------------------------------------------------------ ZIP: the slot table is (re)built from EVERY term
    # (a hand-written Clone / rebuild that pairs slots with terms by `zip` must not be one short on either side)
    ck.rule("ZIP", "both sides of a zip have the same affine length in the arena's collection lengths (ZIPLEN)")
    from engines import check_zip_lengths as _czl
    ck.extra["zips with computable lengths in the arena / ontology code"] = _czl(ck, "ZIP", prog, [b for b in prog.production() if (b.file or "") in ("src/ontology/termarena.rs", "src/ontology.rs")], "the arena's terms / slots")

    from engines import check_parallel_vectors as _cpv
    ck.rule("PARALLEL", "two Vec fields of one struct that a method edits together are edited at the same position")
    ck.extra["side-by-side vector edits examined"] = _cpv(ck, "PARALLEL", prog, [b_ for b_ in prog.production() if (b_.file or "").startswith(("src/ontology/termarena",))])
    from engines import check_boundary_agreement as _cba
    ck.rule("BOUNDARY", "the arena's functions that compare an id / a length with the same named constant cut at the same point")
    ck.extra["named constants compared in more than one arena function"] = _cba(ck, "BOUNDARY", prog, [b_ for b_ in prog.production() if (b_.file or "") == "src/ontology/termarena.rs"], "term arena")
    # ------------------------------------------------------------------ PANIC
    entries = []
    for e in ENTRY:
        b = prog.body(e)
        if ck.anchor("PANIC", e, b):
            if not b.reachable:
                ck.violation("PANIC", "anchor-public/" + e, "entry point %s is no longer part of the public API" % e)
            entries.append(b)
    ck.floor("PANIC", "entry points", len(entries), 9)
    scan = PanicScan(prog, exemptions=EXEMPT, assume_total=ASSUME_TOTAL)
    for b in entries:
        findings, undecided, stats = scan.scan([b.id])
        seen = {}
        for f in findings:
            fb = f["body"]
            base = "%s/%s" % (fb.short, re.sub(r"\s+", "", f["construct"]))
            n = seen.get(base, 0)
            seen[base] = n + 1
            ck.violation("PANIC", "%s/%s/%d" % (b.short, base, n), "lookup %s can panic: %s in %s" % (b.short, f["construct"], fb.short), where=fb.where(f["line"]))
        for u in undecided:
            ck.undecided("PANIC", "%s/%s/%s" % (b.short, u["body"].short, u["construct"]), "std callee with no summary: %s" % u["construct"], where=u["body"].where(u["line"]))
        if not findings:
            ex = "; exempted: " + ", ".join(sorted({"%s in %s" % (x["construct"].split("::")[-1], x["body"].short) for x in stats["exempted"]})) if stats["exempted"] else ""
            ck.ob("PANIC", "entry/" + b.short, True, "%d reachable bodies, %d calls, %d asserts: no panicking construct%s" % (stats["reachable_bodies"], stats["calls"], stats["asserts"], ex), where=b.where())
    for (frx, crx), reason in EXEMPT.items():
        ck.assume("PANIC exemption %s / %s: %s" % (frx, crx, reason))
    for rx, reason in ASSUME_TOTAL:
        ck.assume("PANIC: %s assumed total: %s" % (rx, reason))

    # ------------------------------------------------------------------ TABLE: reserved slot
    dflt = prog.body("<%s as std::default::Default>::default" % ARENA)
    consts = {}
    if ck.anchor("TABLE", "Arena::default", dflt):
        pushes = [t for _, t in dflt.calls() if t.callee.method == "push" and "HpoTermInternal" in (t.callee.def_args or "")]
        consts["default/pushes"] = len(pushes)
    ln = arena_fn(prog, "len")
    if ck.anchor("TABLE", "Arena::len", ln, private=True):
        subs = [s for _, s in ln.stmts() if s.k == "assign" and s.rv["k"] == "bin" and s.rv["op"].startswith("Sub")]
        vals = [s.rv["r"].int_value() for s in subs]
        # no subtraction: `self.values().len()` leaves out what the accessor it is built on leaves out
        consts["len/sub"] = vals[0] if len(vals) == 1 else (arena_placeholder_skips(prog, "len") if not vals else tuple(vals))
    for name in ("values", "values_mut", "keys", "iter"):
        if arena_fn(prog, name) is None:
            ck.undecided("TABLE", "range/" + name, "Arena::%s not present (private helper)" % name)
            continue
        # leading slots left out by the accessor: RangeFrom starts + skip(n), including those of an accessor it is built on
        consts["range/" + name] = arena_placeholder_skips(prog, name)
    ref = consts.get("default/pushes")
    for k, v in sorted(consts.items()):
        if v is None:
            ck.undecided("TABLE", "slot/" + k, "shape not recognised")
            continue
        ck.ob("TABLE", "slot/" + k, v == ref, "reserved placeholder count: %s = %s, Arena::default pushes %s placeholder(s)" % (k, v, ref))
    ck.floor("TABLE", "slot constants", len([v for v in consts.values() if v is not None]), 3, soft=True)
    # the id -> slot table has one entry for EVERY id of the id space: ids are the numbers of <width> decimal digits that
    # `Display for HpoTermId` renders, so the table needs at least 10^width entries (Arena::insert indexes it unchecked)
    W = termid_display_width(prog)
    if dflt is not None:
        sizes = [t.args[1].int_value() for _, t in dflt.calls() if t.callee.method == "resize" and len(t.args) >= 2 and "usize" in (t.callee.name or "") + (t.callee.def_args or "")]
        if W is None or len(sizes) != 1 or sizes[0] is None:
            ck.undecided("TABLE", "id-table/size", "size of the id -> slot table or the rendered width of an id not recognised", where=dflt.where())
        else:
            ck.ob("TABLE", "id-table/size", sizes[0] >= 10 ** W, "the id -> slot table has %d entries; the id space (ids of %d decimal digits) has %d members, the largest being %d%s" % (sizes[0], W, 10 ** W, 10 ** W - 1, "" if sizes[0] >= 10 ** W else ": ids from %d upward cannot be stored (Arena::insert indexes the table unchecked) or found" % sizes[0]), where=dflt.where())

    ol = prog.body("ontology::Ontology::len")
    if ol is not None:
        ok = any(t.callee.res == ARENA + "::len" for _, t in ol.calls())
        ck.ob("TABLE", "ontology/len", ok, "Ontology::len %s" % ("is the arena's len()" if ok else "does not use Arena::len"), where=ol.where())
    oi = prog.body("ontology::Ontology::iter")
    if oi is not None:
        ok = any(t.callee.res == ARENA + "::iter" for _, t in oi.calls())
        if not ok and arena_fn(prog, "iter") is None and any((t.callee.res or "").startswith(ARENA + "::") for _, t in oi.calls()):
            ck.undecided("TABLE", "ontology/iter", "Arena::iter (private) is gone; Ontology::iter walks the arena through %s" % sorted({t.callee.res.rsplit("::", 1)[-1] for _, t in oi.calls() if (t.callee.res or "").startswith(ARENA + "::")}), where=oi.where())
        else:
            ck.ob("TABLE", "ontology/iter", ok, "Ontology::iter %s" % ("iterates the arena's ids" if ok else "does not use Arena::iter"), where=oi.where())

    # ------------------------------------------------------------------ DOM: zero tests in get / get_mut / insert
    def is_slot(atoms):
        return "ids" in field_names(atoms, "Arena")

    # these rules are phrased over the representation `slot 0 = absent, terms[0] = placeholder`.  An arena that keeps no placeholder inside `terms`
    # (Option<NonZero..> slots, a separate placeholder field) has no zero test to find: its private lookup is then not judged here
    sentinel_repr = consts.get("default/pushes", 1) != 0
    # ... and over the FLAT table `ids[id] = slot`: `get` / `get_mut` / `insert` read and write the slot of an id by indexing the table with the id
    # itself.  A lookup that goes through private helpers of the arena (a hash table with probing, a two-tier table, ..) finds and claims slots
    # elsewhere; the zero-test rules are then not phrased over the code that decides.
    g0_ = arena_fn(prog, "get")
    if sentinel_repr and g0_ is not None:
        own_table = any(t_.callee.method in ("index", "get", "get_unchecked") and "HpoTermInternal" not in (t_.callee.def_args or "") and re.search(r"Vec<|\[", t_.callee.def_args or "") and not (t_.callee.res and t_.callee.res in prog.bodies) for _, t_ in g0_.calls())
        helper_ = [prog.bodies[t_.callee.res] for _, t_ in g0_.calls() if t_.callee.res in prog.bodies and (prog.bodies[t_.callee.res].impl_self or {}).get("adt") == ARENA and not prog.bodies[t_.callee.res].exported and prog.bodies[t_.callee.res].vis != "public" or (t_.callee.res in prog.bodies and (prog.bodies[t_.callee.res].impl_self or {}).get("adt") == ARENA and prog.bodies[t_.callee.res].name not in ("len", "values", "get", "get_mut", "insert", "keys", "iter", "values_mut", "get_unchecked", "get_unchecked_mut"))]
        flat_helper = [h_ for h_ in helper_ if any(t_.callee.method in ("index", "get", "get_unchecked") and "HpoTermInternal" not in (t_.callee.def_args or "") and re.search(r"Vec<|\[", t_.callee.def_args or "") and not (t_.callee.res and t_.callee.res in prog.bodies) for _, t_ in h_.calls())]
        if not own_table and flat_helper:
            # the flat table is read in ONE private helper that `get` / `get_mut` share (`index_of(id) -> Option<usize>`): the slot != 0 rule is judged
            # there - every access to `terms` by the slot it read stands on the slot != 0 edge (a slot accepted because `terms[slot].id() == id`
            # accepts the placeholder, whose own id is 0, for the absent id 0)
            hb_ = flat_helper[0]
            tests_h = zero_test_edges(hb_, pv, is_slot)
            idx_h = [(bi_, t_) for bi_, t_ in hb_.calls() if t_.callee.method in ("index", "index_mut", "get_unchecked", "get") and "HpoTermInternal" in (t_.callee.def_args or "") and not (t_.callee.res and t_.callee.res in prog.bodies)]
            for n_, (bi_, t_) in enumerate(idx_h):
                ok_ = any(hb_.edge_dominates(e_, bi_) for tst in tests_h for e_ in tst["nonzero_edges"])
                ck.ob("DOM", "%s/terms-access/%d" % (hb_.name, n_), ok_, "Arena::%s reads terms[slot] %s" % (hb_.name, "only on the slot != 0 edge" if ok_ else "without being dominated by a slot != 0 test: a vacant slot resolves to the placeholder at position 0, which then stands in for an absent id"), where=hb_.where(t_.line))
            # what the helper returns as `Some(position)` must come from the slot != 0 edge as well
            somes_ = [bi_ for bi_ in sorted(hb_.reach) for st_ in hb_.blocks[bi_].stmts if st_.k == "assign" and st_.place.is_local() and st_.place.local == 0 and st_.rv["k"] == "agg" and st_.rv.get("variant") == "Some"]
            for n_, bi_ in enumerate(somes_):
                ok_ = any(hb_.edge_dominates(e_, bi_) or e_[1] == bi_ for tst in tests_h for e_ in tst["nonzero_edges"])
                ck.ob("DOM", "%s/some/%d" % (hb_.name, n_), ok_, "Arena::%s answers `Some(position)` %s" % (hb_.name, "only for a slot != 0" if ok_ else "without a slot != 0 test on the way: position 0 (the placeholder) can be handed out"), where=hb_.where())
            sentinel_repr = False
            consts["default/pushes"] = 1
        elif not own_table and helper_:
            ck.undecided("DOM", "representation", "Arena::get finds the slot of an id through the private helper %s, not by indexing a flat id table: the slot != 0 / slot == 0 rules (phrased over `ids[id]`) do not apply" % helper_[0].short, where=g0_.where())
            sentinel_repr = False
            consts["default/pushes"] = 1  # (the message below is about the other representation)
    if not sentinel_repr and consts.get("default/pushes", 1) == 0:
        ck.undecided("DOM", "representation", "the arena reserves no placeholder inside `terms` (another private representation of an absent id): the slot != 0 / slot == 0 rules do not apply")
    for name in (("get", "get_mut") if sentinel_repr else ()):
        b = arena_fn(prog, name)
        if not ck.anchor("DOM", "Arena::" + name, b, private=True):
            continue
        tests = zero_test_edges(b, pv, is_slot)
        # every way of reaching into `terms` by slot: indexing as well as the checked get / get_mut of Vec / slice (checked against the
        # LENGTH only: slot 0, the placeholder, is always in range)
        idx_calls = [(bi, t) for bi, t in b.calls() if t.callee.method in ("index", "index_mut", "get_unchecked", "get_unchecked_mut", "get", "get_mut") and "HpoTermInternal" in (t.callee.def_args or "")
                     and not (t.callee.res and t.callee.res in prog.bodies)]
        if not idx_calls:
            ck.undecided("DOM", "%s/access" % name, "no access to `terms` by slot recognised in Arena::%s" % name, where=b.where())
        for n, (bi, t) in enumerate(idx_calls):
            ok = any(b.edge_dominates(e, bi) for tst in tests for e in tst["nonzero_edges"])
            if not ok and t.dest is not None and t.dest.is_local():
                # `self.terms.get(slot).filter(|_| slot != 0)`: the term is read first and dropped afterwards unless the slot is not the placeholder's
                for fbi, ft in b.calls():
                    if ft.callee.method == "filter" and "Option" in (ft.callee.name or ft.callee.def_args or "") and len(ft.args) == 2 and any(a_[0] == "call" and a_[3] == b.id and a_[4] == bi for a_ in Prov(prog, inline=False).of_operand(b, ft.args[0])):
                        cbf = prog.bodies.get(pv.closure_of_operand(b, ft.args[1]) or "")
                        for st_ in ([] if cbf is None else [x_ for _, x_ in cbf.stmts()]):
                            if st_.k == "assign" and st_.rv["k"] == "bin" and st_.rv["op"] == "Ne":
                                ops_ = (st_.rv["l"], st_.rv["r"])
                                zero_ = [o_ for o_ in ops_ if o_.kind == "const" and o_.int_value() == 0]
                                slot_ = [o_ for o_ in ops_ if o_.kind != "const" and is_slot(pv.of_operand(cbf, o_))]
                                if zero_ and slot_:
                                    ok = True
            ck.ob("DOM", "%s/terms-access/%d" % (name, n), ok,
                  "Arena::%s hands out terms[slot] %s" % (name, "only on the slot != 0 edge" if ok else "without being dominated by a slot != 0 test: the placeholder term can be returned for an absent id"),
                  where=b.where(t.line))
    ins = arena_fn(prog, "insert")
    if sentinel_repr and ck.anchor("DOM", "Arena::insert", ins, private=True):
        tests = zero_test_edges(ins, pv, is_slot)
        pushes = [(bi, t) for bi, t in ins.calls() if t.callee.method == "push" and "HpoTermInternal" in (t.callee.def_args or "")]
        writes = []
        for pos, s in ins.stmts():
            if s.k == "assign" and "*" in s.place.fields():
                base_atoms = pv.of_local(ins, s.place.local)
                if "ids" in field_names(base_atoms, "Arena"):
                    writes.append((pos, s))
        for n, (bi, t) in enumerate(pushes):
            ok = any(ins.edge_dominates(e, bi) for tst in tests for e in tst["zero_edges"])
            ck.ob("DOM", "insert/push/%d" % n, ok, "Arena::insert stores the term %s" % ("only when the id's slot is vacant (== 0)" if ok else "without a vacancy test: an id can be stored twice and iteration yields it twice"), where=ins.where(t.line))
        for n, (pos, s) in enumerate(writes):
            ok = any(ins.edge_dominates(e, pos[0]) for tst in tests for e in tst["zero_edges"])
            ck.ob("DOM", "insert/slot-write/%d" % n, ok, "Arena::insert writes ids[id] %s" % ("only on the vacant edge" if ok else "outside the vacant edge"), where=ins.where(s.line))
            atoms = pv.of_operand(ins, s.rv["op"]) if s.rv["k"] == "use" else frozenset()
            lens = [a for a in atoms if a[0] == "call" and a[1].endswith("::len") and "HpoTermInternal" in a[2]]
            ok2 = False
            for a in lens:
                lbb = a[4]
                ok2 = ok2 or all(ins.dominates(lbb, pb) and lbb != pb for pb, _ in pushes)
            ck.ob("DOM", "insert/slot-value/%d" % n, ok2, "stored slot value %s" % ("is terms.len() taken before the push" if ok2 else "is not the pre-push length of `terms`"), where=ins.where(s.line))
        ck.floor("DOM", "insert push/write sites", len(pushes) + len(writes), 2)
    # ---- every OTHER place of the arena that adds terms (a bulk `Extend` impl, a `from_iter`, ..) either goes through `Arena::insert` or has a
    # vacancy test of its own: `self.terms.extend(iter)` followed by filling the table keeps a second record of an id that is already there
    # (the table points at the later one, `len()` and iteration count both)
    if sentinel_repr and ins is not None:
        for ab in sorted(prog.production(), key=lambda z: z.id):
            if ab.kind != "AssocFn" or not ab.impl_self or ab.impl_self.get("adt") != ARENA or ab.id == ins.id or ab.name in ("default", "with_capacity", "new"):
                continue
            for fb_ in prog.family(ab):
                for abi, at_ in fb_.calls():
                    if at_.callee.method in ("push", "extend", "extend_from_slice", "append", "insert", "extend_one") and "HpoTermInternal" in (at_.callee.def_args or "") and not (at_.callee.res and at_.callee.res in prog.bodies) \
                            and at_.args and "terms" in field_names(pv.of_operand(fb_, at_.args[0]), "Arena"):
                        tests_ = zero_test_edges(fb_, pv, is_slot)
                        ok_ = any(fb_.edge_dominates(e_, abi) for tst in tests_ for e_ in tst["zero_edges"])
                        ck.ob("DOM", "store/%s/%s" % (ab.short, at_.callee.method), ok_, "%s adds terms with `%s` %s" % (ab.short, at_.callee.method, "only where the id's slot is vacant" if ok_ else
                              "without going through Arena::insert and without a vacancy test of its own: a record whose id is already stored is stored a second time"), where=fb_.where(at_.line))

    # ------------------------------------------------------------------ ROLE: name predicates
    def closure_calls(fn_id, method_rx):
        out = []
        fb = prog.body(fn_id)
        if fb is None:
            return None, out
        for b in prog.family(fb):
            for bi, t in b.calls():
                if re.search(method_rx, t.callee.def_args or ""):
                    out.append((b, bi, t))
        return fb, out

    def name_side(atoms, owner_rx):
        return any((a[0] == "field" and a[2] == "name" and re.search(owner_rx, a[1])) or (a[0] == "call" and re.search(r"::name$", a[1]) and re.search(owner_rx, a[1] + a[2])) for a in atoms)

    pvs_ = Prov(prog, inline=False)

    from props.shared import text_changes

    def transforms(b, op):
        """text-changing std calls applied to a compared string inside the predicate (trim, to_lowercase, slicing ...): the lookup is on
        the name as stored and the query as given"""
        return text_changes(prog, pvs_, b, op)

    g, sites = closure_calls("ontology::Ontology::gene_by_name", r"^<str as std::cmp::PartialEq>::(eq|ne)$|^<&str as std::cmp::PartialEq>::(eq|ne)$|^<str as std::cmp::PartialEq<str>>::(eq|ne)|^<&str as std::cmp::PartialEq<&str>>::(eq|ne)")
    if ck.anchor("ROLE", "Ontology::gene_by_name", g):
        other = [(b, bi, t) for b in prog.family(g) for bi, t in b.calls() if t.callee.method in ("contains", "starts_with", "ends_with", "eq_ignore_ascii_case", "find") and (t.callee.impl_self or "").startswith("str")]
        for b, bi, t in other:
            ck.violation("ROLE", "gene_by_name/predicate/" + t.callee.method, "gene_by_name matches with str::%s instead of equality" % t.callee.method, where=b.where(t.line))
        if not sites and not other:
            ck.undecided("ROLE", "gene_by_name/predicate", "no str equality recognised in gene_by_name", where=g.where())
        for n, (b, bi, t) in enumerate(sites):
            a0 = pv.of_operand(b, t.args[0])
            a1 = pv.of_operand(b, t.args[1])
            names = [name_side(a0, r"Gene"), name_side(a1, r"Gene")]
            qs = [2 in params_of(a0, g.id), 2 in params_of(a1, g.id)]
            ok = (names[0] and qs[1] and not qs[0]) or (names[1] and qs[0] and not qs[1])
            # ... and a gene is selected when the comparison says EQUAL: `eq` handed on as it is, or `ne` negated
            from engines import bool_polarity as _bp10
            pol_, _ct = _bp10(b, Prov(prog, inline=False), lambda c_: c_ is t.callee)
            if pol_ is not None:
                sel_eq = (t.callee.method == "eq") == (pol_ == 1)
                ck.ob("ROLE", "gene_by_name/selects-equal/%d" % n, sel_eq, "gene_by_name selects a gene whose symbol is %s the query" % ("equal to" if sel_eq else "DIFFERENT from"), where=b.where(t.line))
            ck.ob("ROLE", "gene_by_name/eq/%d" % n, ok, "gene_by_name compares %s" % ("gene.name() with the query parameter by equality" if ok else "operands that are not (gene name, query)"), where=b.where(t.line))
            tr = transforms(b, t.args[0]) + transforms(b, t.args[1])
            ck.ob("ROLE", "gene_by_name/as-given/%d" % n, not tr, "gene_by_name compares the stored symbol and the query %s" % ("as they are" if not tr else "after `%s`: a gene with another symbol can be returned" % ", ".join(tr)), where=b.where(t.line))
    for fid, key, qparam in (("ontology::Ontology::omim_disease_by_name", "omim_disease_by_name", 2),):
        fb, sites = closure_calls(fid, r"^core::str::<impl str>::contains")
        if ck.anchor("ROLE", key, fb):
            if not sites:
                ck.undecided("ROLE", key + "/contains", "no str::contains call recognised", where=fb.where())
            for n, (b, bi, t) in enumerate(sites):
                recv = pv.of_operand(b, t.args[0])
                pat = pv.of_operand(b, t.args[1])
                ok = name_side(recv, r"Disease") and qparam in params_of(pat, fb.id) and not name_side(pat, r"Disease") and qparam not in params_of(recv, fb.id)
                ck.ob("ROLE", "%s/contains/%d" % (key, n), ok, "%s calls %s" % (key, "name.contains(query)" if ok else "str::contains with receiver/pattern that are not (disease name, query)"), where=b.where(t.line))
                tr = transforms(b, t.args[0]) + transforms(b, t.args[1])
                ck.ob("ROLE", "%s/as-given/%d" % (key, n), not tr, "%s tests the stored name and the query %s" % (key, "as they are" if not tr else "after `%s`" % ", ".join(tr)), where=b.where(t.line))
    # every record is examined: no truncating adaptor between the record collection and the `find`
    pvl = Prov(prog, inline=False, bind_closures=False)
    for fid, key in (("ontology::Ontology::gene_by_name", "gene_by_name"), ("ontology::Ontology::omim_disease_by_name", "omim_disease_by_name"),
                     ("<annotations::omim_disease::OmimDiseaseFilter<'a> as std::iter::Iterator>::next", "filter_next")):
        fb0 = prog.body(fid)
        if fb0 is None:
            continue
        finds = [(bi, t) for bi, t in fb0.calls() if t.callee.trait == "std::iter::Iterator" and t.callee.method in ("find", "find_map", "position", "filter")]
        for bi, t in finds:
            if t.callee.method != "find":
                continue
            chain = adaptor_chain(fb0, pvl, t.args[0])
            cut = [m for m in chain if m in TRUNCATING_ADAPTORS]
            ck.ob("ROLE", key + "/all-records", not cut, "%s examines %s" % (key, "every record" if not cut else "only the records that pass an extra `%s` before the name test: real matches can be dropped" % ", ".join(cut)), where=fb0.where(t.line))
            cid = pv.closure_of_operand(fb0, t.args[1]) if len(t.args) > 1 else None
            cb0 = prog.bodies.get(cid)
            if cb0 is not None:
                pol, ct = bool_polarity(cb0, pvl, lambda c: (c.method == "contains" and (c.impl_self or "").startswith("str")) or (c.trait == "std::cmp::PartialEq" and c.method == "eq"))
                if pol is None:
                    ck.undecided("ROLE", key + "/predicate-only", "the predicate is not a single name test", where=cb0.where())
                else:
                    ck.ob("ROLE", key + "/predicate-only", pol == 1, "%s selects a record iff the name test is %s" % (key, "true" if pol == 1 else "FALSE"), where=cb0.where())
    nx = prog.body("<annotations::omim_disease::OmimDiseaseFilter<'a> as std::iter::Iterator>::next")
    if ck.anchor("ROLE", "OmimDiseaseFilter::next", nx):
        sites = [(b, bi, t) for b in prog.family(nx) for bi, t in b.calls() if re.search(r"^core::str::<impl str>::contains", t.callee.def_args or "")]
        if not sites:
            ck.undecided("ROLE", "filter_next/contains", "no str::contains call recognised", where=nx.where())
        for n, (b, bi, t) in enumerate(sites):
            recv = pv.of_operand(b, t.args[0])
            pat = pv.of_operand(b, t.args[1])
            # the query is the filter's string field (whatever it is called)
            fadt = next((a for pth, a in prog.adts.items() if pth.endswith("OmimDiseaseFilter")), None)
            sflds = [f["name"] for v in (fadt or {}).get("variants", []) for f in v.get("fields", []) if re.search(r"\bstr\b", f.get("ty", ""))]
            QF = sflds[0] if len(sflds) == 1 else "query"
            qfield = lambda at: QF in field_names(at, "OmimDiseaseFilter")
            ok = name_side(recv, r"Disease") and qfield(pat) and not qfield(recv) and not name_side(pat, r"Disease")
            tr = transforms(b, t.args[0]) + transforms(b, t.args[1])
            ck.ob("ROLE", "filter_next/as-given/%d" % n, not tr, "OmimDiseaseFilter::next tests the stored name and the query %s" % ("as they are" if not tr else "after `%s`" % ", ".join(tr)), where=b.where(t.line))
            ck.ob("ROLE", "filter_next/contains/%d" % n, ok, "OmimDiseaseFilter::next calls %s" % ("item.name().contains(self.query)" if ok else "str::contains with receiver/pattern that are not (disease name, query field)"), where=b.where(t.line))
        # the query field is the caller's substring
        byname = prog.body("ontology::Ontology::omim_diseases_by_name")
        new = prog.body("annotations::omim_disease::OmimDiseaseFilter::<'a>::new")
        if byname is not None and new is not None:
            for bi, t in byname.calls():
                if t.callee.res == new.id:
                    at = pv.of_operand(byname, t.args[1])
                    ck.ob("ROLE", "filter_new/query", 2 in params_of(at, byname.id), "omim_diseases_by_name passes its `substring` parameter as the filter's query", where=byname.where(t.line))
            qa = None
            for pos, s in new.stmts():
                if s.k == "assign" and s.rv["k"] == "agg" and s.rv.get("adt", "").endswith("OmimDiseaseFilter"):
                    fadt = next((a for pth, a in prog.adts.items() if pth.endswith("OmimDiseaseFilter")), None)
                    sflds = [f["name"] for v in (fadt or {}).get("variants", []) for f in v.get("fields", []) if re.search(r"\bstr\b", f.get("ty", ""))]
                    if len(sflds) == 1 and sflds[0] in s.rv["fields"]:
                        qa = pv.of_operand(new, s.rv["ops"][s.rv["fields"].index(sflds[0])])
            if qa is not None:
                ck.ob("ROLE", "filter_new/field", 2 in params_of(qa, new.id), "OmimDiseaseFilter::new stores its `query` parameter in the query field", where=new.where())
                # ... unchanged: the search is for names that contain the query AS GIVEN (no trimming, no case folding)
                steps = text_changes(prog, pv, new, s.rv["ops"][s.rv["fields"].index(sflds[0])]) if len(sflds) == 1 and sflds[0] in s.rv["fields"] else []
                ck.ob("ROLE", "filter_new/unchanged", not steps, "OmimDiseaseFilter::new stores the query %s" % ("as given" if not steps else "after `%s`: names that do not contain the caller's query are returned" % ", ".join(steps)), where=new.where())

    # ---- the arena's id iterator answer each protocol method with the inner iterator's SAME method
    # ------------------------------------------------------------------ TABLE: whoever walks `terms` leaves the placeholder out
    # (not only the named accessors: a hand-written Clone / Extend / FromIterator of the arena that re-inserts `for term in &self.terms` turns the
    # placeholder into a real term with id 0)
    n_walk = 0
    pvn = Prov(prog, inline=False, mutflow=False)
    for b_ in prog.production():
        if not (b_.id.startswith(ARENA + "::") or b_.id.startswith("<" + ARENA + " as ")) or b_.kind != "AssocFn":
            continue
        walks = []
        for fb_ in prog.family(b_):
            for bi, t in fb_.calls():
                if t.callee.method in ("iter", "into_iter", "iter_mut", "drain") and t.args:
                    at = pvn.of_operand(fb_, t.args[0])
                    if "terms" in field_names(at, "Arena") and not any(a[0] == "call" and a[1].startswith(ARENA + "::") for a in at):
                        walks.append(t)
        if not walks:
            continue
        n_walk += 1
        k = arena_placeholder_skips(prog, b_)
        ref_ = consts.get("default/pushes")
        if k is None or ref_ is None:
            ck.undecided("TABLE", "walk/" + b_.short, "%s iterates `terms`; how many leading slots it leaves out is not recognised" % b_.short, where=b_.where(walks[0].line))
        else:
            ck.ob("TABLE", "walk/" + b_.short, k == ref_, "%s iterates `terms` leaving out %d leading slot(s) (the arena reserves %d placeholder)%s" % (b_.short, k, ref_, "" if k == ref_ else ": the placeholder is treated as a term"), where=b_.where(walks[0].line))
    ck.extra["arena functions that iterate `terms` directly"] = n_walk

    # ------------------------------------------------------------------ TABLE: slot numbers are not narrowed
    # the arena may hold one term per id of the 7-digit id space (10^7 slots): a slot number needs 24 bits.  An `as` cast of a slot number to
    # a narrower integer wraps silently: later ids resolve to the placeholder or to ANOTHER term.
    from props.shared import INT_BITS
    need_bits = 24
    narrow = []
    n_casts = 0
    for b_ in prog.production():
        if not (b_.id.startswith(ARENA + "::") or b_.id.startswith("<" + ARENA + " as ")):
            continue
        for fb_ in prog.family(b_):
            for _, st_ in fb_.stmts():
                if st_.k == "assign" and st_.rv["k"] == "cast" and "IntToInt" in st_.rv.get("kind", ""):
                    n_casts += 1
                    src_ = fb_.locals[st_.rv["op"].place.local]["s"] if st_.rv["op"].place is not None else (st_.rv["op"].const or {}).get("ty", "?")
                    dst_ = st_.rv.get("ty", "?")
                    if INT_BITS.get(dst_, 64) < need_bits and INT_BITS.get(src_, 0) > INT_BITS.get(dst_, 64) and st_.rv["op"].kind != "const":
                        narrow.append((fb_, st_, src_, dst_))
    ck.ob("TABLE", "slot/width", not narrow, "no slot number or id index of the arena is narrowed below %d bits (%d integer casts examined)" % (need_bits, n_casts) if not narrow else
          "%s narrows a %s to %s with `as`: the arena can hold 10^7 terms, so slot numbers beyond %d wrap - ids then resolve to the placeholder (term reported absent) or to another term" % (narrow[0][0].short, narrow[0][2], narrow[0][3], 2 ** INT_BITS.get(narrow[0][3], 0) - 1),
          where=narrow[0][0].where(narrow[0][1].line) if narrow else None)

    # ------------------------------------------------------------------ STORE: a term handed to the builder reaches the arena
    ck.rule("STORE", "every Builder function that stores terms passes Arena::insert (directly or through another storing Builder function) on every path that returns normally: no id-dependent gate drops a term")
    from engines import check_required_steps
    ins_id = ARENA + "::insert"
    storing = set()
    bl = [b_ for b_ in prog.production() if b_.kind == "AssocFn" and (b_.impl_self or {}).get("adt") == "ontology::builder::Builder"]
    changed = True
    while changed:
        changed = False
        for b_ in bl:
            if b_.id in storing:
                continue
            if any(t_.callee.res == ins_id or t_.callee.res in storing for fb_ in prog.family(b_) for _, t_ in fb_.calls()):
                storing.add(b_.id)
                changed = True
    for bid in sorted(storing):
        b_ = prog.bodies[bid]
        # the direct storing step of THIS function (its callees are judged on their own)
        check_required_steps(ck, "STORE", prog, b_, [("store the term(s) in the arena", lambda t_, _me=bid: t_.callee.res == ins_id or (t_.callee.res in storing and t_.callee.res != _me))])
    ck.floor("STORE", "Builder functions that store terms", len(storing), 2, soft=True)

    ck.rule("SIBLING", "an iterator wrapper's next / next_back / len / size_hint delegates to the same method of the inner iterator (DESIGN 3.15)")
    from engines import check_iterator_delegations
    check_iterator_delegations(ck, "SIBLING", prog, r"^src/ontology/termarena\.rs$")
    # container methods of the wrapper types answer with the same-named method of one inner collection
    ck.rule("WRAPPER", "len / is_empty / contains / get / iter / push ... of a wrapper type delegate to the same-named method of ONE inner collection, un-negated (DESIGN 3.9)")
    from engines import check_wrappers
    check_wrappers(ck, "WRAPPER", prog, r"^src/ontology\.rs$|^src/ontology/termarena\.rs$", floor=3)
    # records and terms are identified by their id: equality compares the id of both values, Hash feeds the same key
    ck.rule("IDENTITY", "hand-written PartialEq compares the same field of self and other; Hash uses no field that equality ignores")
    from engines import check_identity_impls
    check_identity_impls(ck, "IDENTITY", prog, r"^src/(annotations|term)/", floor=3)
    # iterators that turn one inner item into one item of their own never answer None while the inner iterator still has items
    ck.rule("MAPITER", "a hand-written mapping iterator returns None only on the inner iterator's exhaustion (no early end on a failed lookup)")
    from engines import check_mapping_iterators
    check_mapping_iterators(ck, "MAPITER", prog, r"^src/(ontology|term|annotations/(gene|omim_disease|orpha_disease))\.rs$|^src/term/group\.rs$|^src/ontology/termarena\.rs$", floor=5)
    # the gene / OMIM / ORPHA variants of one operation: none does something its siblings do not
    ck.rule("KSIB", "in a group of >= 3 kind variants of one operation, no member alone has an extra selecting / truncating / error-swallowing / text-changing step or calls a crate function no sibling calls")
    from engines import check_kind_siblings
    check_kind_siblings(ck, "KSIB", prog, r"^src/ontology\.rs$|^src/annotations/", floor=1)
