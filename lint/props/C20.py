"""C20 - term-id text and byte conversions are total and mutually inverse (clauses: PANIC, TABLE)"""
import re
from engines import PanicScan, parse_bytestr, decode_format_template, endian_sites

CLAIM = ("(ROLE) the text handed to the number parser is a plain sub-slice of the input (no trim / case / replace / strip / split step) and is parsed as u32; "
         "(PANIC) no panicking construct (slice/str indexing, unwrap/expect, assert, explicit panic) is reachable from "
         "`impl TryFrom<&str> for HpoTermId`; (TABLE) the literal prefix rendered by `Display for HpoTermId` is 'HP:' with a "
         "zero-padded width of 7 and its byte length equals the slice offset used by the parser and the parser's minimum-length "
         "pre-check minus one; byte conversions of ids use the big-endian pair only.")
NOT_DECIDED = "that parse(render(id)) == id for every id (a statement about values), and the exact grammar accepted by u32::from_str."

TRY_FROM = "<term::hpotermid::HpoTermId as std::convert::TryFrom<&str>>::try_from"
DISPLAY = "<term::hpotermid::HpoTermId as std::fmt::Display>::fmt"
FROM_BYTES = "<term::hpotermid::HpoTermId as std::convert::From<[u8; 4]>>::from"
TO_BE = "annotations::AnnotationId::to_be_bytes"


def run(ck, prog, ctx):
    ck.rule("PANIC", "no may-panic callee / Assert terminator in any crate body reachable from the entry point (DESIGN 3.1)")
    ck.rule("SELFCMP", "the PartialEq / Ord / PartialOrd impls of HpoTermId (against ids and against text) compare self with other and answer `eq` with the un-negated equality")
    from engines import check_comparison_impls
    check_comparison_impls(ck, "SELFCMP", prog, r"^src/term/hpotermid\.rs$", floor=0)
    ck.rule("TABLE", "constants extracted from both sides agree (DESIGN 3.12)")
    tf = prog.body(TRY_FROM)
    if ck.anchor("PANIC", "impl TryFrom<&str> for HpoTermId", tf):
        scan = PanicScan(prog, exemptions={}, assume_total=[])
        findings, undecided, stats = scan.scan([tf.id])
        ck.extra["panic_reachable_bodies"] = stats["reachable_bodies"]
        seen = {}
        for f in findings:
            b = f["body"]
            base = "%s/%s" % (b.short, re.sub(r"\s+", "", f["construct"]))
            n = seen.get(base, 0)
            seen[base] = n + 1
            ck.violation("PANIC", "%s/%d" % (base, n),
                         "%s can panic: %s is reachable from TryFrom<&str> for HpoTermId (e.g. a multi-byte character across the offset)" % (b.short, f["construct"]),
                         where=b.where(f["line"]))
        for u in undecided:
            ck.undecided("PANIC", "%s/%s" % (u["body"].short, u["construct"]), ("std callee with no summary: %s" % u["construct"]) if not u["construct"].startswith("assert:") else u["construct"], where=u["body"].where(u["line"]))
        if not findings:
            ck.ob("PANIC", "entry/" + tf.short, True, "%d reachable bodies, %d calls, %d asserts: no panicking construct" % (stats["reachable_bodies"], stats["calls"], stats["asserts"]), where=tf.where())
    ck.floor("PANIC", "entry points", 1 if tf else 0, 1)

    # ---------------- TABLE: rendered prefix vs parse offset
    disp = prog.body(DISPLAY)
    prefix_len = None
    if ck.anchor("TABLE", "impl Display for HpoTermId", disp):
        tmpl = None
        for pos, s in disp.stmts():
            if s.k == "assign" and s.rv["k"] == "use" and s.rv["op"].kind == "const":
                b = parse_bytestr(s.rv["op"].const["val"])
                if b is not None:
                    tmpl = decode_format_template(b)
        for bi, t in disp.calls():
            for a in t.args:
                if a.kind == "const":
                    b = parse_bytestr(a.const["val"])
                    if b is not None:
                        tmpl = decode_format_template(b)
        # arguments handed to the formatter, in order: a constant string (`{ID_PREFIX}`), the number, a constant count (`ID_WIDTH$`)
        from prov import Prov as _Prov
        from engines import const_str_of as _cso
        _pv = _Prov(prog, inline=False)
        fargs = []
        for bi, t in sorted(disp.calls(), key=lambda x: x[0]):
            if re.search(r"fmt::rt::Argument::<'_>::(new_display|new_debug|from_usize)", t.callee.name or ""):
                kind_ = t.callee.name.rsplit("::", 1)[-1]
                sval = _cso(disp, _pv, t.args[0]) if "str" in (t.callee.def_args or "") else None
                ival = None
                if kind_ == "from_usize":
                    for a_ in _pv.of_operand(disp, t.args[0]):
                        if a_[0] == "const" and re.match(r"^\d+_usize$", str(a_[2])):
                            ival = int(str(a_[2]).split("_")[0])
                        if a_[0] == "constdef" and a_[1] in prog.bodies:
                            for _, st_ in prog.bodies[a_[1]].stmts():
                                if st_.k == "assign" and st_.rv["k"] == "use" and st_.rv["op"].int_value() is not None:
                                    ival = st_.rv["op"].int_value()
                fargs.append((kind_, sval, ival))
        if tmpl and tmpl[0][0] == "arg" and len(fargs) >= 2 and fargs[0][1] is not None:
            # `{CONST_STR}{:0WIDTH$}`: the first argument is a constant string, i.e. a literal prefix
            new_t = [("lit", fargs[0][1].encode())]
            for it in tmpl[1:]:
                if it[0] == "arg" and "width" in it[1] and any(f_[0] == "from_usize" for f_ in fargs) and it[1]["width"] < len(fargs) and fargs[it[1]["width"]][0] == "from_usize":
                    d2 = dict(it[1])
                    d2["width"] = fargs[it[1]["width"]][2]
                    new_t.append(("arg", d2))
                else:
                    new_t.append(it)
            tmpl = new_t if all(not (x[0] == "arg" and x[1].get("width") is None and "width" in x[1]) for x in new_t) else None
        if tmpl and any(x[0] == "arg" and x[1].get("width_arg") for x in tmpl):
            # `"HP:{:0width$}", self.inner, width = PADDED_DIGITS`: the width is the constant handed over as that argument
            new_t = []
            for it in tmpl:
                if it[0] == "arg" and it[1].get("width_arg"):
                    w = it[1]["width"]
                    if w < len(fargs) and fargs[w][0] == "from_usize" and fargs[w][2] is not None:
                        d2 = {k_: v_ for k_, v_ in it[1].items() if k_ != "width_arg"}
                        d2["width"] = fargs[w][2]
                        new_t.append(("arg", d2))
                    else:
                        new_t = None
                        break
                else:
                    new_t.append(it)
            tmpl = new_t
        if not tmpl:
            ck.undecided("TABLE", "display/template", "format template of Display for HpoTermId not recognised (soft idiom)", where=disp.where())
            # a hand-written decimal rendering (`digit = n % 10; n /= 10` over the slots of a fixed byte buffer): the buffer has a slot for every
            # digit the widest id can have (u32::MAX has 10), or the loop is not bounded by the slots at all.  Seven slots are right for the
            # shipped id space only: a larger id loses its leading digits and renders as the text of ANOTHER id.
            from engines import private_scope as _ps20
            from prov import Prov as _Prov20
            pv20 = _Prov20(prog, inline=False)
            for db_ in _ps20(prog, disp):
                for h_, bl_ in sorted(db_.natural_loops().items()):
                    rems = [st_ for bi_ in bl_ for st_ in db_.blocks[bi_].stmts if st_.k == "assign" and st_.rv["k"] == "bin" and st_.rv["op"].startswith("Rem") and st_.rv["r"].kind == "const" and st_.rv["r"].int_value() == 10]
                    divs = [st_ for bi_ in bl_ for st_ in db_.blocks[bi_].stmts if st_.k == "assign" and st_.rv["k"] == "bin" and st_.rv["op"].startswith("Div") and st_.rv["r"].kind == "const" and st_.rv["r"].int_value() == 10]
                    if not rems or not divs:
                        continue
                    num_ty = db_.locals[rems[0].rv["l"].place.local]["s"] if rems[0].rv["l"].place is not None and rems[0].rv["l"].place.is_local() else "?"
                    need = {"u8": 3, "u16": 5, "u32": 10, "u64": 20, "usize": 20}.get(num_ty)
                    # the slots: a fixed array among the parameters / locals of the function that the loop's iterator is drawn from, minus the
                    # constant start of the RangeFrom it is sliced with
                    arrs = sorted({int(m_.group(1)) for l_ in db_.locals for m_ in [re.search(r"\[u8; (\d+)\]", l_["s"])] if m_})
                    parrs = sorted({int(m_.group(1)) for l_ in db_.locals[1:db_.nargs + 1] for m_ in [re.search(r"\[u8; (\d+)\]", l_["s"])] if m_})
                    if len(parrs) == 1:
                        arrs = parrs  # the buffer handed in by the caller (other arrays of the body are templates / constants)
                    starts = [o_.int_value() for bi_ in sorted(db_.reach) for st_ in db_.blocks[bi_].stmts if st_.k == "assign" and st_.rv["k"] == "agg" and re.search(r"::RangeFrom$", st_.rv.get("adt", "")) for o_ in st_.rv["ops"][:1] if o_.kind == "const" and o_.int_value() is not None]
                    # a loop that also ends on the value (`while n != 0`, `if n == 0 { break }`) is not bounded by the slots alone
                    value_exit = any(db_.blocks[bi_].term.k == "switch" and any(a_[0] == "op" and str(a_[1]).startswith(("Div", "Rem")) for a_ in pv20.of_operand(db_, db_.blocks[bi_].term.discr)) for bi_ in bl_)
                    key_ = "display/digit-slots/" + db_.short
                    if need is None or len(arrs) != 1 or len(starts) > 1:
                        ck.undecided("TABLE", key_, "%s renders the number digit by digit; the number of slots is not read (arrays %s, slice starts %s, number type %s)" % (db_.short, arrs, starts, num_ty), where=db_.where(rems[0].line))
                    else:
                        slots = arrs[0] - (starts[0] if starts else 0)
                        ck.ob("TABLE", key_, slots >= need, "%s renders a %s digit by digit into %d slot(s) of a [u8; %d] buffer (the widest %s has %d digits)%s" % (db_.short, num_ty, slots, arrs[0], num_ty, need,
                              "" if slots >= need else ": an id with more than %d digits loses its leading digits and is rendered as the text of another id" % slots), where=db_.where(rems[0].line))
        elif tmpl[0][0] != "lit" and len(fargs) > 1:
            ck.undecided("TABLE", "display/template", "Display for HpoTermId renders its prefix through a formatter argument that is not a constant string", where=disp.where())
        else:
            lits = [x[1] for x in tmpl if x[0] == "lit"]
            args = [x[1] for x in tmpl if x[0] == "arg"]
            first = tmpl[0]
            lit = first[1] if first[0] == "lit" else b""
            prefix_len = len(lit)
            ck.ob("TABLE", "display/prefix", lit == b"HP:", "Display renders the literal prefix %r (expected b'HP:')" % lit, where=disp.where())
            if len(args) == 1 and len(lits) == 1:
                a = args[0]
                width = a.get("width")
                zero = bool(a.get("flags", 0) & (1 << 24))
                ck.ob("TABLE", "display/width", width == 7 and zero, "Display pads the number to width %s, zero-pad=%s (expected 7, zero-padded)" % (width, zero), where=disp.where())
            else:
                ck.ob("TABLE", "display/shape", False, "Display renders %d literal piece(s) and %d argument(s); expected 'HP:' followed by exactly one number" % (len(lits), len(args)), where=disp.where())
    if tf is not None:
        # offsets: RangeFrom{start: const} aggregates, minimum-length comparison constants
        starts = []
        for pos, s in tf.stmts():
            if s.k == "assign" and s.rv["k"] == "agg" and s.rv.get("adt", "").endswith("RangeFrom"):
                iv = s.rv["ops"][0].int_value() if s.rv["ops"] else None
                starts.append((iv, s.line))
        if not starts:
            ck.undecided("TABLE", "parse/offset", "no constant slice offset found in TryFrom<&str> (soft idiom: `s[N..]` / `s.get(N..)`)", where=tf.where())
        for iv, line in starts:
            if prefix_len is not None:
                ck.ob("TABLE", "parse/offset", iv == prefix_len, "parser skips %s byte(s), Display writes a %d-byte prefix" % (iv, prefix_len), where=tf.where(line))
        mins = []
        for pos, s in tf.stmts():
            if s.k == "assign" and s.rv["k"] == "bin" and s.rv["op"] in ("Lt", "Le", "Gt", "Ge"):
                for o in (s.rv["l"], s.rv["r"]):
                    if o.kind == "const" and o.int_value() is not None:
                        mins.append((s.rv["op"], o.int_value(), s.line, o is s.rv["r"]))
        for op, iv, line, const_right in mins:
            if prefix_len is None:
                continue
            # len < c  (or c > len): minimum accepted length is c ; len <= c: c+1
            if (op == "Lt" and const_right) or (op == "Gt" and not const_right):
                minimum = iv
            elif (op == "Le" and const_right) or (op == "Ge" and not const_right):
                minimum = iv + 1
            else:
                continue
            ck.ob("TABLE", "parse/minlen", minimum <= prefix_len + 1,
                  "length pre-check rejects inputs shorter than %d; the shortest valid id text is prefix(%d)+1 digit" % (minimum, prefix_len), where=tf.where(line))

    # ---------------- TABLE: big-endian pair
    fb = prog.body(FROM_BYTES)
    tb = prog.body(TO_BE)
    def byte_order_of(root_body):
        """endian conversions of the function and of the crate helpers it reaches; ('hand', body) when there is none but a shift-and-or loop"""
        rb_ = [prog.bodies[x] for x in prog.reachable_bodies([root_body.id]) if x in prog.bodies and not prog.bodies[x].test and prog.bodies[x].file and prog.bodies[x].file.startswith("src/term/hpotermid")]
        fams_ = [f for (b, t, f) in endian_sites(prog, rb_ or [root_body])]
        if fams_:
            return fams_, None
        for x in rb_:
            for fb_ in prog.family(x):
                if any(st.k == "assign" and st.rv["k"] == "bin" and st.rv["op"] in ("Shl", "Shr", "ShlUnchecked", "ShrUnchecked") for _, st in fb_.stmts()):
                    return [], x
        return [], None
    def shift_terms(b_):
        """straight-line assembly of the number from the bytes of the parameter: {byte index: shift}, or None when the returned value is not a
        plain or-combination of shifted bytes of parameter 1 (loops, folds, helpers: not read here)"""
        if b_.natural_loops():
            return None
        defs = {}
        for pos, st in b_.stmts():
            if st.k == "assign" and st.place.is_local():
                defs.setdefault(st.place.local, []).append(("assign", st))
        for bi, t in b_.calls():
            if t.dest is not None and t.dest.is_local():
                defs.setdefault(t.dest.local, []).append(("call", t))

        def const_index(e):
            if e[0] == "cidx":
                return int(e[1])
            if e[0] == "idx":
                dd = defs.get(e[1] if isinstance(e[1], int) else -1, [])
                if len(dd) == 1 and dd[0][0] == "assign" and dd[0][1].rv["k"] == "use" and dd[0][1].rv["op"].int_value() is not None:
                    return dd[0][1].rv["op"].int_value()
            return None

        def ev_place(pl, depth):
            es = [e for e in pl.fields() if e != "*"]
            es = [("cidx", const_index(e)) if e[0] in ("cidx", "idx") and const_index(e) is not None else e for e in es]
            if pl.local == 1 and len(es) == 1 and es[0][0] == "cidx":
                return {int(es[0][1]): 0}
            ds = defs.get(pl.local, [])
            if len(ds) != 1 or depth > 40:
                return None
            k_, d_ = ds[0]
            if es:
                # element i of `bytes.map(widen)` / of a copy of the parameter
                if len(es) == 1 and es[0][0] == "cidx":
                    src = None
                    if k_ == "call" and d_.callee.method == "map" and "[u8;" in (d_.callee.def_args or d_.callee.name or "").replace(" ", "").replace("[u8;4]", "[u8;4]") and d_.args and d_.args[0].place is not None:
                        src = d_.args[0].place
                    elif k_ == "assign" and d_.rv["k"] == "use" and d_.rv["op"].place is not None:
                        src = d_.rv["op"].place
                    if src is not None and src.is_local():
                        whole = src.local
                        seen_ = set()
                        while whole != 1 and whole not in seen_:
                            seen_.add(whole)
                            dd = defs.get(whole, [])
                            if len(dd) == 1 and dd[0][0] == "assign" and dd[0][1].rv["k"] == "use" and dd[0][1].rv["op"].place is not None and dd[0][1].rv["op"].place.is_local():
                                whole = dd[0][1].rv["op"].place.local
                            else:
                                break
                        if whole == 1:
                            return {int(es[0][1]): 0}
                return None
            if k_ == "call":
                if d_.callee.method in ("from", "into") and len(d_.args) == 1:
                    return ev(d_.args[0], depth + 1)
                return None
            rv = d_.rv
            if rv["k"] in ("use", "cast"):
                return ev(rv["op"], depth + 1)
            if rv["k"] == "bin":
                op = rv["op"].replace("Unchecked", "").replace("WithOverflow", "")
                if op == "Shl" and rv["r"].int_value() is not None:
                    l_ = ev(rv["l"], depth + 1)
                    return None if l_ is None else {i: sh + rv["r"].int_value() for i, sh in l_.items()}
                if op in ("BitOr", "Add", "BitXor"):
                    l_, r_ = ev(rv["l"], depth + 1), ev(rv["r"], depth + 1)
                    if l_ is None or r_ is None or set(l_) & set(r_):
                        return None
                    return {**l_, **r_}
            return None

        def ev(op, depth=0):
            if op.kind == "const" or op.place is None:
                return None
            return ev_place(op.place, depth)
        for pos, st in b_.stmts():
            if st.k == "assign" and st.place.local == 0 and st.rv["k"] == "agg" and len(st.rv.get("ops") or []) == 1:
                return ev(st.rv["ops"][0])
            if st.k == "assign" and st.place.local == 0 and st.rv["k"] == "use":
                return ev(st.rv["op"])
        return None
    if ck.anchor("TABLE", "impl From<[u8;4]> for HpoTermId", fb):
        fams, hand = byte_order_of(fb)
        terms_ = shift_terms(fb) if not fams and hand is not None and hand.id == fb.id else None
        if terms_ is not None:
            # hand-written, straight-line: byte i of the input must land at bit 8 * (3 - i)
            ck.ob("TABLE", "bytes/from", terms_ == {0: 24, 1: 16, 2: 8, 3: 0}, "From<[u8;4]> assembles the number from input byte -> left shift %s (big-endian is {0: 24, 1: 16, 2: 8, 3: 0})" % dict(sorted(terms_.items())), where=fb.where())
        elif not fams and hand is not None:
            ck.undecided("TABLE", "bytes/from", "From<[u8;4]> assembles the number with hand-written shifts (in %s): its byte order is not decided by this rule" % hand.short, where=fb.where())
        else:
            ck.ob("TABLE", "bytes/from", fams == ["be"], "From<[u8;4]> converts with %s (expected exactly one big-endian conversion)" % (fams or "no endian conversion"), where=fb.where())
    if ck.anchor("TABLE", "AnnotationId::to_be_bytes", tb):
        fams = [f for (b, t, f) in endian_sites(prog, [tb])]
        ck.ob("TABLE", "bytes/to", fams == ["be"], "AnnotationId::to_be_bytes converts with %s (expected exactly one big-endian conversion)" % (fams or "no endian conversion"), where=tb.where())
    alls = endian_sites(prog)
    bad = [(b, t) for (b, t, f) in alls if f != "be"]
    for b, t in bad:
        ck.violation("TABLE", "endian/%s/%s" % (b.short, t.callee.method), "non-big-endian byte conversion %s" % t.callee.def_args, where=b.where(t.line))
    ck.ob("TABLE", "endian/all", not bad, "%d int<->bytes conversion sites in production code, %d not big-endian" % (len(alls), len(bad)))
    ck.floor("TABLE", "endian conversion sites", len(alls), 10)

    # ---------------- ROLE: what is handed to the number parser is the caller's text from the prefix offset on, unmodified
    ck.rule("ROLE", "the text parsed as the number is a plain sub-slice of the input: no normalising str method (trim*, to_*case, replace, strip_*, split*) on the way (DESIGN 3.4)")
    if tf is not None:
        from prov import Prov
        pv = Prov(prog, inline=False)
        STR_OK = {"get", "get_unchecked", "index", "as_ref", "as_str", "borrow", "deref"}
        parses = [(bi, t) for fb in prog.family(tf) for bi, t in fb.calls() if t.callee.method in ("parse", "from_str", "from_str_radix") and "str" in (t.callee.name or "")]
        if not parses:
            ck.undecided("ROLE", "parse/input", "no str::parse / from_str call found in TryFrom<&str>", where=tf.where())
        # the other text entry points of the id type (the panicking parser behind From<String> / PartialEq<str>) obey the same rule
        for ob_ in sorted(prog.production(), key=lambda b_: b_.id):
            if ob_.kind in ("Fn", "AssocFn") and ob_.file == tf.file and ob_.id != tf.id and ob_.nargs >= 1:
                for bi, t in ob_.calls():
                    if t.callee.method in ("parse", "from_str", "from_str_radix") and "str" in (t.callee.name or ""):
                        at = pv.of_operand(ob_, t.args[0])
                        from props.shared import text_changes
                        bad = text_changes(prog, pv, ob_, t.args[0], slicing_ok=True)
                        ck.ob("ROLE", "parse/input/%s" % ob_.short, not bad and any(a[0] == "param" for a in at), "%s parses the number from %s" % (ob_.short, "a sub-slice of its input text" if not bad else
                              "its input after `%s`: digits are dropped or rearranged before parsing (an id with more digits than that parses to another id)" % ", ".join(bad)), where=ob_.where(t.line))
        for bi, t in parses:
            at = pv.of_operand(tf, t.args[0])
            steps = sorted({a[1].rsplit("::", 1)[-1].split("::<")[0] for a in at if a[0] == "call" and re.search(r"core::str::<impl str>::|alloc::str::<impl str>::|std::string::String::", a[1])})
            bad = [m for m in steps if re.sub(r"<.*$", "", m) not in STR_OK]
            from_param = any(a[0] == "param" and a[2] == 1 for a in at)
            radix_ok = t.callee.method != "from_str_radix" or (len(t.args) > 1 and t.args[1].int_value() == 10)
            ty = re.search(r"parse::<(\w+)>", t.callee.def_args or "") or re.search(r"<impl (\w+)>::from_str", t.callee.def_args or "")
            if ty is not None:
                ck.ob("ROLE", "parse/type", ty.group(1) == "u32", "the number is parsed as %s (expected u32: an unsigned 32-bit decimal number, nothing wider or signed)" % ty.group(1), where=tf.where(t.line))
            ck.ob("ROLE", "parse/input", from_param and not bad and radix_ok,
                  "the number is parsed from %s%s" % ("a sub-slice of the input text" if from_param and not bad else "the input after `%s`: text that is not 'HP:' + a decimal number (e.g. with trailing white space) is accepted" % (bad[0] if bad else "?"), "" if radix_ok else " with a radix other than 10"),
                  where=tf.where(t.line))
    # a term id is compared with a TEXT by parsing the text: `HpoTermId == "HP:123"` holds for the id 123 (the impls behind `==` with str / &str and
    # From<String> go through the number parser; comparing renderings instead makes every non-canonical spelling unequal to its own id)
    is_parse = lambda c: c.method in ("parse", "from_str", "from_str_radix") and "str" in (c.name or "")
    for tid in ("<term::hpotermid::HpoTermId as std::cmp::PartialEq<str>>::eq", "<term::hpotermid::HpoTermId as std::cmp::PartialEq<&str>>::eq", "<term::hpotermid::HpoTermId as std::convert::From<std::string::String>>::from"):
        eb = prog.body(tid)
        if eb is None:
            continue
        reach = [prog.bodies[x] for x in prog.reachable_bodies([eb.id]) if x in prog.bodies and not prog.bodies[x].test]
        # `self == *other` on references goes through std's blanket `impl PartialEq<&B> for &A`, which calls `<A as PartialEq<B>>::eq`
        for rb_ in list(reach):
            for _, t_ in rb_.calls():
                m_ = re.match(r"^<&(.+) as std::cmp::PartialEq<&(.+)>>::(eq|ne)$", t_.callee.def_args or "")
                if m_:
                    inner = prog.body("<%s as std::cmp::PartialEq<%s>>::%s" % (m_.group(1), m_.group(2), m_.group(3))) or prog.body("<%s as std::cmp::PartialEq<%s>>::eq" % (m_.group(1), m_.group(2)))
                    if inner is not None and inner.id != eb.id:
                        reach += [prog.bodies[x] for x in prog.reachable_bodies([inner.id]) if x in prog.bodies and not prog.bodies[x].test and prog.bodies[x] not in reach]
        parses_ = any(is_parse(t_.callee) for rb_ in reach for _, t_ in rb_.calls())
        renders = [t_ for rb_ in reach for _, t_ in rb_.calls() if t_.callee.method in ("to_string", "format", "fmt", "write_fmt") and rb_.id == eb.id]
        nm = re.sub(r"^<term::hpotermid::HpoTermId as (std::cmp::|std::convert::)?", "", tid).replace(">::", "::")
        hand_ = [rb_ for rb_ in reach if rb_.kind in ("Fn", "AssocFn") and not rb_.exported and not rb_.reachable and rb_.natural_loops() and any(t_.callee.method in ("as_bytes", "bytes", "chars", "char_indices") for _, t_ in rb_.calls())
                 and any(st_.k == "assign" and st_.rv["k"] == "bin" and st_.rv["op"].startswith("Mul") and (st_.rv["r"].int_value() == 10 or st_.rv["l"].int_value() == 10) for _, st_ in rb_.stmts())]
        if not parses_ and hand_ and not renders:
            ck.undecided("ROLE", "text-entry/" + nm, "%s reads the text through the hand-written digit loop %s (no str::parse): that it accepts exactly what the number parser accepts is not decided" % (nm, hand_[0].short), where=eb.where())
            continue
        ck.ob("ROLE", "text-entry/" + nm, parses_, "%s %s" % (nm, "reads the text through the number parser" if parses_ else "never parses the text%s: a text that spells the id differently from the canonical rendering ('HP:123') is no longer that id" % (" (it compares with the rendering, `%s`)" % renders[0].callee.method if renders else "")), where=eb.where())

    # the integer conversions either keep the value or fail: no silent truncation of ids above u32::MAX
    ck.rule("GUARD", "integer conversions into HpoTermId are exact or fail (DESIGN 3.5)")
    from props.shared import check_exact_conversion
    for ty in ("u16", "u64", "usize"):
        cb = prog.body("<term::hpotermid::HpoTermId as std::convert::From<%s>>::from" % ty)
        if cb is not None:
            check_exact_conversion(ck, "GUARD", prog, cb, "a %s" % ty)
