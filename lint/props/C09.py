"""C09 - JAX text loaders (clauses: KIND prefix/variant/annotate, DOM `NOT`, ROLE column maps, file<->parser, obo keys)"""
import re
from engines import error_blocks
from engines import adaptor_chain, TRUNCATING_ADAPTORS, enum_arms, split_columns, columns_of, user_root_locals, string_key_arms, str_const, kind_of_callee, positive_edges, const_str_of
from prov import Prov, params_of, field_names

CLAIM = ("(KIND) in the phenotype.hpoa parser the `OMIM` prefix constructs DiseaseKind::Omim and `ORPHA` DiseaseKind::Orpha, the Omim arm annotates with "
         "annotate_omim_disease and the omim id, the Orpha arm with the orpha pair, and every other line reaches no annotate call; (DOM) a line whose "
         "qualifier equals `NOT` returns Ok(None) and can never reach the construction of a disease record; (ROLE) column -> field maps: genes_to_phenotype "
         "(ncbi, symbol, hpo) = columns (0,1,2), phenotype_to_genes = (2,3,0), phenotype.hpoa id = column 0 after ':', name = column 1, qualifier = column 2, "
         "term = column 3; parsed fields reach annotate_gene(ncbi_id, symbol, hpo) in that order; from_standard joins genes_to_phenotype.txt and reaches the "
         "genes_to_phenotype line parser, from_standard_transitive joins phenotype_to_genes.txt and reaches the phenotype_to_genes one; the loaders hand "
         "(obo, gene, disease) files to the matching parsers; obo keys: `id`->term id, `name`->name, `is_obsolete` compared with `true`->obsolete flag, "
         "`replaced_by`->replacement, `is_a: `->connection (child = this term, parent = parsed id) which is linked as add_parent(parent, child).")
NOT_DECIDED = "equality with the ontology built from the same facts through the Builder API, and tokenisation corner cases (quoting, trailing tabs, CRLF)."

P = "parser::"
D = "parser::disease_to_hpo::"
G = "parser::gene_to_hpo::"
O = "parser::hp_obo::"


def once_chain(body):
    """the body cuts its text with two or more `str::split_once` calls (one column at a time)"""
    return len([1 for _, t in body.calls() if t.callee.method == "split_once" and "str" in (t.callee.name or "")]) >= 2


def run(ck, prog, ctx):
    ck.rule("KIND", "prefix / variant / annotate agreement (DESIGN 3.3)")
    ck.rule("DOM", "NOT qualifier never reaches a record (DESIGN 3.6)")
    ck.rule("ROLE", "column and key roles (DESIGN 3.4)")
    ck.rule("TABLE", "file name constants")
    pv = Prov(prog)
    pvn = Prov(prog, inline=False)

    # ------------------------------------------------------------------ KIND: prefix -> variant
    pl = prog.body(D + "parse_line")
    if pl is None:
        ck.undecided("KIND", "prefix", "private helper disease_to_hpo::parse_line not found")
    else:
        n = 0
        for bi, t in pl.calls():
            if t.callee.method in ("starts_with", "strip_prefix") and len(t.args) == 2:
                lit = const_str_of(pl, pvn, t.args[1])
                if lit is None:
                    continue
                for (sbi, tgt) in positive_edges(pl, pvn, bi):
                    if True:
                        region = pl.region((sbi, tgt))
                        variants = set()
                        for r in region:
                            blk = pl.blocks[r]
                            for st in blk.stmts:
                                if st.k == "assign" and st.rv["k"] == "agg" and st.rv.get("adt", "").endswith("DiseaseKind"):
                                    variants.add(st.rv["variant"])
                                for o in st.ops:
                                    if o.kind == "const" and "fn" in o.const and "DiseaseKind::" in o.const["fn"]:
                                        variants.add(o.const["fn"].rsplit("::", 1)[-1])
                            if blk.term.k == "call":
                                for o in blk.term.args:
                                    if o.kind == "const" and "fn" in o.const and "DiseaseKind::" in o.const["fn"]:
                                        variants.add(o.const["fn"].rsplit("::", 1)[-1])
                                if blk.term.callee.ctor and "DiseaseKind::" in (blk.term.callee.deff or ""):
                                    variants.add(blk.term.callee.deff.rsplit("::", 1)[-1])
                        want = {"OMIM": "Omim", "ORPHA": "Orpha"}.get(lit.rstrip(":"))
                        if want is None:
                            ck.violation("KIND", "prefix/" + lit, "unexpected disease prefix %r is parsed into %s" % (lit, sorted(variants)), where=pl.where(t.line))
                        else:
                            n += 1
                            ck.ob("KIND", "prefix/" + lit.rstrip(":"), variants == {want}, "lines starting with %r become DiseaseKind::%s (expected %s)" % (lit, "/".join(sorted(variants)) or "nothing", want), where=pl.where(t.line))
        ck.floor("KIND", "disease prefixes", n, 2)
    pr = prog.body(D + "parse")
    if pr is None or not enum_arms(prog, pr, "parser::disease_to_hpo::DiseaseKind"):
        # the row loop may live in another private function of the module (`parse` only opening the file): the function that
        # matches on DiseaseKind and annotates
        cands = [b_ for b_ in prog.production() if b_.kind in ("Fn", "AssocFn") and b_.id.startswith(D) and enum_arms(prog, b_, "parser::disease_to_hpo::DiseaseKind")
                 and any("annotate_" in (t_.callee.res or "") for _, t_ in b_.calls())]
        if len(cands) == 1:
            pr = cands[0]
    if ck.anchor("KIND", "disease_to_hpo::parse", pr, private=True):
        arms = enum_arms(prog, pr, "parser::disease_to_hpo::DiseaseKind")
        total = 0
        for sw in arms:
            for vname, edge in sorted(sw["arms"].items()):
                region = pr.region(edge)
                calls = [pr.blocks[r].term for r in region if pr.blocks[r].term.k == "call"]
                ann = [t for t in calls if (t.callee.res or "").startswith("ontology::builder::Builder") and "annotate_" in (t.callee.res or "")]
                ids = [t for t in calls if (t.callee.res or "").startswith(D + "DiseaseComponents") and t.callee.res.endswith("_disease_id")]
                total += 1
                ks_ann = set()
                for t in ann:
                    ks_ann |= kind_of_callee(t.callee)
                ks_id = set()
                for t in ids:
                    ks_id |= kind_of_callee(t.callee)
                ck.ob("KIND", "parse/%s/annotate" % vname, ks_ann == {vname}, "the %s arm annotates with %s" % (vname, sorted(t.callee.res.rsplit("::", 1)[-1] for t in ann) or "nothing"), where=pr.where(sw["line"]))
                ck.ob("KIND", "parse/%s/id" % vname, ks_id == {vname}, "the %s arm converts the id with %s" % (vname, sorted(t.callee.res.rsplit("::", 1)[-1] for t in ids) or "nothing"), where=pr.where(sw["line"]))
                for t in ann:
                    at = [pvn.of_operand(pr, a) for a in t.args[1:]]
                    f1 = field_names(at[1], "DiseaseComponents") if len(at) > 1 else set()
                    f2 = field_names(at[2], "DiseaseComponents") if len(at) > 2 else set()
                    if not f2 and len(t.args) > 3 and t.args[3].place is not None and re.search(r"Vec<|HpoGroup|impl |Iterator|IntoIter", pr.locals[t.args[3].place.local]["s"]):
                        # a bulk call (`annotate_omim_disease_terms(id, name, terms)`): the third argument is a collection that was filled elsewhere;
                        # which rows it holds is the block logic's business, not read by this rule
                        ck.ob("ROLE", "parse/%s/args" % vname, "name" in f1 and "id" not in f1, "annotate receives (id, %s, <collection>)" % sorted(f1), where=pr.where(t.line))
                        ck.undecided("ROLE", "parse/%s/args/terms" % vname, "the %s arm hands a collection of terms to %s: the rows that fill it are not followed" % (vname, t.callee.res.rsplit("::", 1)[-1]), where=pr.where(t.line))
                        continue
                    ck.ob("ROLE", "parse/%s/args" % vname, "name" in f1 and "hpo_id" in f2 and "id" not in f1 | f2, "annotate receives (id, %s, %s) (expected (id, name, hpo_id))" % (sorted(f1), sorted(f2)), where=pr.where(t.line))
        ck.floor("KIND", "DiseaseKind arms in parse", total, 2)
        # every annotate call sits in one of the arms
        in_arms = set()
        for sw in arms:
            for vname, edge in sw["arms"].items():
                in_arms |= pr.region(edge)
        stray = [t for bi, t in pr.calls() if "annotate_" in (t.callee.res or "") and bi not in in_arms]
        ck.ob("KIND", "parse/other-lines", not stray, "no annotate call outside the Omim/Orpha arms" if not stray else "an annotate call is reachable for lines of other databases", where=pr.where())

    if pr is not None:
        nexts = [(bi, t) for bi, t in pr.calls() if t.callee.method == "next" and t.callee.trait == "std::iter::Iterator"]
        for bi, t in nexts:
            chain = adaptor_chain(pr, pvn, t.args[0])
            if "lines" not in chain:
                continue
            cut = [m for m in chain if m in TRUNCATING_ADAPTORS]
            ck.ob("ROLE", "hpoa/every-line", not cut, "disease_to_hpo::parse looks at %s" % ("every line of phenotype.hpoa (comment and foreign lines are ignored line by line)" if not cut else "the lines that remain after `%s`: a disease row at the top of the file is silently dropped" % ", ".join(cut)), where=pr.where(t.line))

    # ------------------------------------------------------------------ ROLE: every stanza / line of a file is looked at
    # positional adaptors (take / skip / *_while / map_while / step_by / nth ...) in the pipeline that feeds a parsing loop drop
    # elements by POSITION: whatever follows the first non-matching stanza, or precedes the n-th line, is never parsed.  Selection by
    # content (filter, filter_map, an `if` inside the loop) is the parsers' business and not restricted here.
    from engines import for_loops as _for_loops, HARD_TRUNCATIONS as _HT, loop_early_exits as _early
    n_el = 0
    n_unread = 0
    for fid, what, src in ((O + "read_obo_file", "stanza of hp.obo", ("split",)), (O + "add_connections", "line of a [Term] stanza", ("lines", "split")),
                           (G + "parse", "line of the gene file", ("lines",)), (D + "parse", "line of phenotype.hpoa", ("lines",))):
        fb_ = prog.body(fid)
        if fb_ is None:
            continue
        fam_ = prog.family(fb_)
        pipes = []
        for fbx in fam_:
            for lp in _for_loops(fbx):
                pipes.append((fbx, lp["line"], adaptor_chain(fbx, pvn, lp["iter"]), lp))
            for bi, t in fbx.calls():
                if t.callee.trait == "std::iter::Iterator" and t.callee.method in ("for_each", "try_for_each", "collect", "extend", "fold", "try_fold", "count", "last") and t.args:
                    pipes.append((fbx, t.line, [t.callee.method] + adaptor_chain(fbx, pvn, t.args[0]), None))
                elif t.callee.method == "extend" and len(t.args) == 2:
                    pipes.append((fbx, t.line, adaptor_chain(fbx, pvn, t.args[1]), None))
        pipes = [p_ for p_ in pipes if any(m in p_[2] for m in src)]
        if not pipes:
            ck.undecided("ROLE", "every-element/%s" % fb_.short, "the iteration over the %ss is not recognised in %s" % (what.split(" of ")[0], fb_.short), where=fb_.where())
            n_unread += 1
            continue
        for fbx, line, chain, lp in pipes:
            cut = [m for m in chain if m in _HT or m in ("map_while", "take_while", "skip_while")]
            early = _early(fbx, lp) if lp is not None else []
            n_el += 1
            ck.ob("ROLE", "every-element/%s" % fb_.short, not cut and not early, "%s looks at %s" % (fb_.short, ("every %s" % what) if not cut and not early else
                  ("the %ss that remain after `%s`: everything behind the first element it rejects (or before the position it skips to) is silently ignored" % (what.split(" of ")[0], ", ".join(cut)) if cut
                   else "the %ss up to an early exit of the loop (line %s)" % (what.split(" of ")[0], fbx.blocks[early[0][0]].term.line))), where=fbx.where(line))
    ck.floor("ROLE", "parsing loops examined for completeness", n_el, 3, soft=n_unread > 0)

    # ------------------------------------------------------------------ ROLE: the per-line parsers receive lines WITHOUT their terminator
    pvm = Prov(prog, inline=False)
    n_ls = 0
    for fid, what in (("parser::gene_to_hpo::parse", "genes_to_phenotype.txt / phenotype_to_genes.txt"), (D + "parse", "phenotype.hpoa")):
        fb0 = prog.body(fid)
        if fb0 is None:
            continue
        for bi, t in fb0.calls():
            is_fn_param = t.callee.trait in ("std::ops::Fn", "std::ops::FnMut", "std::ops::FnOnce") and len(t.args) == 2
            is_line_parser = bool(re.search(r"::(parse_line|genes_to_phenotype_line|phenotype_to_genes_line)$", t.callee.res or ""))
            if not (is_fn_param or is_line_parser):
                continue
            arg = t.args[1] if is_fn_param else t.args[0]
            at = pvm.of_operand(fb0, arg, (("f", "0", "tuple"),)) if is_fn_param else pvm.of_operand(fb0, arg)
            at = at | pvm.of_operand(fb0, arg)
            names = {a[1].rsplit("::", 1)[-1] for a in at if a[0] in ("call", "mutcall")}
            # a buffer filled in place: read_line(&mut buf) / read_until(.., &mut buf) on the local the argument refers to
            walked = set()

            def base_local(op_):
                cur = op_.place.local if op_.place is not None else None
                seen_ = set()
                while cur is not None and cur not in seen_:
                    seen_.add(cur)
                    ds_ = pvm.defs(fb0).get(cur, [])
                    nxt = None
                    for k_, p_, d_ in ds_:
                        if k_ == "assign" and d_.rv["k"] == "ref":
                            nxt = d_.rv["place"].local
                        elif k_ == "assign" and d_.rv["k"] == "use" and d_.rv["op"].place is not None:
                            nxt = d_.rv["op"].place.local
                        elif k_ == "call" and d_.callee.method in ("deref", "as_str", "as_ref", "borrow", "branch", "map_err", "unwrap", "expect", "next", "into_iter", "lines") and d_.args:
                            walked.add(d_.callee.method)
                            nxt = d_.args[0].place.local if d_.args[0].place is not None else None
                    if nxt is None:
                        return cur
                    cur = nxt
                return cur
            tuple_ops = []
            if is_fn_param and arg.place is not None:
                for k_, p_, d_ in pvm.defs(fb0).get(arg.place.local, []):
                    if k_ == "assign" and d_.rv["k"] == "agg" and d_.rv.get("agg") == "tuple":
                        tuple_ops = d_.rv["ops"]
            line_local = base_local(tuple_ops[0] if tuple_ops else arg)
            names |= walked & {"lines", "next"}
            for rbi, rt in fb0.calls():
                if rt.callee.method in ("read_line", "read_until", "read_to_string") and any(base_local(a_) == line_local for a_ in rt.args[1:]):
                    names.add(rt.callee.method)
            raw = names & {"read_line", "read_until", "read_to_string", "split", "split_inclusive", "split_terminator"}
            trims = names & {"trim_end", "trim", "trim_end_matches", "strip_suffix", "trim_matches"}
            n_ls += 1
            if "lines" in names and not (raw - {"read_to_string"}):
                # (`fs::read_to_string(..)` + `str::lines()`: the text was read whole, the LINES handed on are those of lines())
                ck.ob("ROLE", "line-source/%s" % fb0.short, True, "%s hands each line of %s to the line parser as produced by lines() (terminator removed)" % (fb0.short, what), where=fb0.where(t.line))
            elif raw and not trims:
                ck.ob("ROLE", "line-source/%s" % fb0.short, False, "%s hands the text read with `%s` to the line parser without removing the line terminator: the last column of a row (gene symbol / HPO id) ends in a newline" % (fb0.short, sorted(raw)[0]), where=fb0.where(t.line))
            else:
                ck.undecided("ROLE", "line-source/%s" % fb0.short, "source of the text handed to the line parser not recognised (%s)" % sorted(names)[:6], where=fb0.where(t.line))
    ck.floor("ROLE", "line parsers fed from files", n_ls, 2)

    # ------------------------------------------------------------------ DOM: NOT
    pc = prog.body(D + "parse_disease_components")
    if pc is None:
        ck.undecided("DOM", "NOT", "private helper parse_disease_components not found")
    else:
        arms = string_key_arms(pc)
        if "NOT" not in arms:
            ck.ob("DOM", "NOT/test", False, "no comparison of the qualifier with the constant `NOT`: negated annotations are loaded as positive ones", where=pc.where())
        else:
            a = arms["NOT"]
            builds = [pos for pos, s in pc.stmts() if s.k == "assign" and s.rv["k"] == "agg" and s.rv.get("adt", "").endswith("DiseaseComponents")]
            reach = pc.reachable_from(a["edge"][1])
            bad = [pos for pos in builds if pos[0] in reach]
            ck.ob("DOM", "NOT/no-record", not bad and bool(builds), "a `NOT` row %s" % ("can never reach the construction of a disease record" if not bad else "still reaches the construction of a disease record"), where=pc.where(a["line"]))
            # what the NOT edge returns: Ok(None)
            rets = set()
            for r in a["region"]:
                for st in pc.blocks[r].stmts:
                    if st.k == "assign" and st.rv["k"] == "agg" and st.rv.get("agg") == "adt":
                        rets.add(st.rv["variant"])
            ck.ob("DOM", "NOT/returns", rets == {"None", "Ok"}, "the `NOT` edge returns %s (expected Ok(None))" % sorted(rets), where=pc.where(a["line"]))
            cols = split_columns(pc, pvn)
            # the compared value is column 2
            for bi, t in pc.calls():
                if t.callee.trait == "std::cmp::PartialEq" and any(const_str_of(pc, pvn, x) == "NOT" for x in t.args):
                    c = set()
                    for x in t.args:
                        c |= columns_of(pc, pvn.of_operand(pc, x), cols)
                    if not c and once_chain(pc):
                        ck.undecided("ROLE", "hpoa/qualifier-column", "the row is taken apart column by column with `split_once('\\t')`: column numbers are not read off that form", where=pc.where(t.line))
                        continue
                    ck.ob("ROLE", "hpoa/qualifier-column", c == {2}, "the qualifier compared with `NOT` is column %s (expected 2)" % sorted(c), where=pc.where(t.line))
        cols = split_columns(pc, pvn)
        if cols.get("incomplete"):
            ck.undecided("ROLE", "hpoa/columns", "columns are skipped by a computed count: column numbers are not constants", where=pc.where())
        for pos, s in ([] if cols.get("incomplete") else pc.stmts()):
            if s.k == "assign" and s.rv["k"] == "agg" and s.rv.get("adt", "").endswith("DiseaseComponents"):
                m = {}
                for f, o in zip(s.rv["fields"], s.rv["ops"]):
                    at = pvn.of_operand(pc, o)
                    m[f] = (columns_of(pc, at, cols), any(a[0] == "call" and a[1].endswith("split_once") and any(e == ("f", "1", "tuple") or (e[0] == "f" and e[1] == "1") for e in a[5]) for a in at))
                if not any(m.get(k, (set(),))[0] for k in ("id", "name", "hpo_id")) and once_chain(pc):
                    ck.undecided("ROLE", "hpoa/columns", "the row is taken apart column by column with `split_once('\\t')`: column numbers are not read off that form", where=pc.where(s.line))
                    continue
                ck.ob("ROLE", "hpoa/columns", m.get("id", (None,))[0] == {0} and m.get("name", (None,))[0] == {1} and m.get("hpo_id", (None,))[0] == {3},
                      "DiseaseComponents{id<-col %s, name<-col %s, hpo_id<-col %s} (expected 0, 1, 3)" % tuple(sorted(m.get(k, (set(),))[0]) for k in ("id", "name", "hpo_id")), where=pc.where(s.line))
                ck.ob("ROLE", "hpoa/id-after-colon", bool(m.get("id", (None, False))[1]), "the disease id is the part of column 0 after ':'", where=pc.where(s.line))

    # ------------------------------------------------------------------ TABLE: the column separator is the TAB character
    # (the annotation files are tab separated; gene symbols and disease names may contain blanks, colons and non-ASCII white space)
    for fid_, what_ in ((G + "genes_to_phenotype_line", "genes_to_phenotype.txt"), (G + "phenotype_to_gene_line", "phenotype_to_genes.txt"), (D + "parse_disease_components", "phenotype.hpoa")):
        lb_ = prog.body(fid_)
        if lb_ is None:
            continue
        sp = [(bi, t) for bi, t in lb_.calls() if re.search(r"core::str::<impl str>::(r?splitn?|split_terminator|split_whitespace|split_ascii_whitespace|split_inclusive|split_once)", t.callee.name or "")
              and params_of(pvn.of_operand(lb_, t.args[0]), lb_.id) == {1}]
        if not sp:
            ck.undecided("TABLE", "separator/%s" % lb_.name, "no split of the line recognised in %s" % lb_.short, where=lb_.where())
            continue
        for bi, t in sp[:1]:
            m = t.callee.method
            pat = None
            if m in ("split", "splitn", "rsplit", "rsplitn", "split_terminator", "split_inclusive", "split_once"):
                a = t.args[-1]
                pat = a.const["val"] if a.kind == "const" else const_str_of(lb_, pvn, a)
            # (`split_once('\\t')` taken column by column cuts at the same separator; WHICH column a value then is, is the ROLE rules' question)
            ok = m in ("split", "splitn", "split_once") and pat in ("'\\t'", "\t", '"\\t"', "'\t'")
            if not ok and m in ("split", "splitn") and (pat is None or re.search(r"::|^[A-Z_][A-Z0-9_]*$", str(pat))):
                ck.undecided("TABLE", "separator/%s" % lb_.name, "the separator handed to %s() in %s is not a literal (%s)" % (m, lb_.short, pat), where=lb_.where(t.line))
                continue
            ck.ob("TABLE", "separator/%s" % lb_.name, ok, "%s splits a row of %s with %s(%s) (expected split('\\t'): the columns are TAB separated and may contain other white space)" % (lb_.short, what_, m, pat if pat is not None else ""), where=lb_.where(t.line))

    # ------------------------------------------------------------------ ROLE: gene line parsers
    for fn, want in (("genes_to_phenotype_line", (0, 1, 2)), ("phenotype_to_gene_line", (2, 3, 0))):
        b = prog.body(G + fn)
        if b is None:
            ck.undecided("ROLE", fn + "/columns", "private helper not found")
            continue
        cols = split_columns(b, pvn, prog)
        calls = [(bi, t) for bi, t in b.calls() if (t.callee.res or "").endswith("ParsedGene::<'a>::try_new")]
        if not calls:
            ck.undecided("ROLE", fn + "/columns", "ParsedGene::try_new not called", where=b.where())
        if cols.get("incomplete"):
            ck.undecided("ROLE", fn + "/columns", "columns are skipped by a computed count: column numbers are not constants", where=b.where())
            continue
        for bi, t in calls:
            got = tuple(sorted(columns_of(b, pvn.of_operand(b, a), cols)) for a in t.args)
            ok = got == tuple([w] for w in want)
            if not any(got):
                ck.undecided("ROLE", fn + "/columns", "%s: none of the values handed to ParsedGene::try_new is recognisably a column of the split line (columns taken through a helper?)" % fn, where=b.where(t.line))
                continue
            ck.ob("ROLE", fn + "/columns", ok, "%s passes columns %s as (ncbi_id, symbol, hpo) (expected %s)" % (fn, [g for g in got], list(want)), where=b.where(t.line))
    tn = prog.body(G + "ParsedGene::<'a>::try_new")
    if tn is not None:
        for pos, s in tn.stmts():
            if s.k == "assign" and s.rv["k"] == "agg" and s.rv.get("adt", "").endswith("ParsedGene"):
                m = {f: params_of(pv.of_operand(tn, o), tn.id) for f, o in zip(s.rv["fields"], s.rv["ops"])}
                want_m = {"ncbi_id": {1}, "symbol": {2}, "hpo": {3}}
                if all(v == want_m.get(k) or not v for k, v in m.items()) and any(not v for v in m.values()):
                    # a field whose value comes out of a parser that the provenance does not see through (a shared digit loop, a fold): no parameter
                    # reaches it visibly - which parameter it was is not decided; a field that visibly derives from the WRONG parameter stays a violation
                    ck.undecided("ROLE", "ParsedGene/fields", "ParsedGene::try_new: the fields %s derive from no parameter that is visible through their conversion; the others are right" % sorted(k for k, v in m.items() if not v), where=tn.where(s.line))
                    continue
                ck.ob("ROLE", "ParsedGene/fields", m == {"ncbi_id": {1}, "symbol": {2}, "hpo": {3}}, "ParsedGene::try_new stores %s" % {k: sorted(v) for k, v in m.items()}, where=tn.where(s.line))
    gp = prog.body(G + "parse")
    if gp is not None:
        for bi, t in gp.calls():
            if "annotate_gene" in (t.callee.res or ""):
                fs = [field_names(pvn.of_operand(gp, a), "ParsedGene") for a in t.args[1:]]
                ok = fs == [{"ncbi_id"}, {"symbol"}, {"hpo"}]
                ck.ob("ROLE", "gene_parse/annotate-args", ok, "annotate_gene receives (%s)" % ", ".join("/".join(sorted(f)) for f in fs), where=gp.where(t.line))

    # ------------------------------------------------------------------ ROLE/TABLE: files and loaders
    consts = {}
    for cn, want in (("GENE_FILENAME", "phenotype_to_genes.txt"), ("GENE_TO_PHENO_FILENAME", "genes_to_phenotype.txt"), ("OBO_FILENAME", "hp.obo"), ("DISEASE_FILENAME", "phenotype.hpoa")):
        cb = prog.body(cn)
        if cb is None:
            continue
        val = None
        for pos, s in cb.stmts():
            for o in s.ops:
                v = str_const(o)
                if v is not None:
                    val = v
        consts[cn] = val
        ck.ob("TABLE", "file/" + cn, val == want, "%s = %r (expected %r)" % (cn, val, want), where=cb.where())
    for fn, gconst, reach_yes, reach_no in (("from_standard", "GENE_TO_PHENO_FILENAME", "genes_to_phenotype_line", "phenotype_to_gene_line"),
                                            ("from_standard_transitive", "GENE_FILENAME", "phenotype_to_gene_line", "genes_to_phenotype_line")):
        b = prog.body("ontology::Ontology::" + fn)
        if not ck.anchor("ROLE", "Ontology::" + fn, b):
            continue
        loaders = [(bi, t) for bi, t in b.calls() if (t.callee.res or "").startswith("parser::load_from_jax_files")]
        if not loaders:
            ck.undecided("ROLE", fn + "/files", "loader call not recognised", where=b.where())
            continue
        bi, t = loaders[0]
        cd = [{a[1] for a in pvn.of_operand(b, x) if a[0] == "constdef"} for x in t.args]
        ok = cd == [{"OBO_FILENAME"}, {gconst}, {"DISEASE_FILENAME"}]
        ck.ob("ROLE", fn + "/files", ok, "%s passes files (%s) (expected (OBO_FILENAME, %s, DISEASE_FILENAME))" % (fn, ", ".join("/".join(sorted(c)) or "?" for c in cd), gconst), where=b.where(t.line))
        reach = prog.reachable_bodies([b.id])
        ck.ob("ROLE", fn + "/parser", (G + reach_yes) in reach and (G + reach_no) not in reach, "%s reaches the %s parser%s" % (fn, reach_yes if (G + reach_yes) in reach else "WRONG", "" if (G + reach_no) not in reach else " and also " + reach_no), where=b.where())
        lb = prog.bodies.get(t.callee.res)
        if lb is not None:
            roles = {}
            for lbi, lt in lb.calls():
                r = lt.callee.res or ""
                if r.endswith("hp_obo::read_obo_file"):
                    roles["obo"] = params_of(pvn.of_operand(lb, lt.args[0]), lb.id)
                elif r.startswith(G + "parse_"):
                    roles["gene"] = params_of(pvn.of_operand(lb, lt.args[0]), lb.id)
                elif r == D + "parse":
                    roles["disease"] = params_of(pvn.of_operand(lb, lt.args[0]), lb.id)
            ck.ob("ROLE", fn + "/loader-params", roles == {"obo": {1}, "gene": {2}, "disease": {3}}, "%s hands its files to the parsers as %s" % (lb.short, {k: sorted(v) for k, v in roles.items()}), where=lb.where())

    # ------------------------------------------------------------------ ROLE: obo keys
    tf = prog.body(O + "term_from_obo")
    if tf is None:
        ck.undecided("ROLE", "obo/keys", "private helper term_from_obo not found")
    else:
        arms = string_key_arms(tf)
        keyed = {}
        allk = set()
        for k in ("id", "name", "is_obsolete", "replaced_by"):
            if k in arms:
                keyed[k] = arms[k]["assigned"]
                allk |= arms[k]["assigned"]
        def key_of(roots):
            return sorted(k for k, v in keyed.items() if roots and roots & v)

        ck.ob("ROLE", "obo/keys-present", set(keyed) == {"id", "name", "is_obsolete", "replaced_by"}, "term_from_obo dispatches on the keys %s" % sorted(keyed), where=tf.where())
        tn_calls = [(bi, t) for bi, t in tf.calls() if (t.callee.res or "").endswith("HpoTermInternal::try_new") or (t.callee.res or "").endswith("HpoTermInternal::new")]
        for bi, t in tn_calls:
            r0 = user_root_locals(tf, pvn, t.args[0], stop=allk)
            r1 = user_root_locals(tf, pvn, t.args[1], stop=allk)
            ok = (key_of(r0) == ["id"] and key_of(r1) == ["name"]) if t.callee.res.endswith("try_new") else (key_of(r1) == ["id"] and key_of(r0) == ["name"])
            ck.ob("ROLE", "obo/id-name", bool(ok), "the term is created from the values of keys (%s, %s)" % (key_of(r0), key_of(r1)), where=tf.where(t.line))
        # obsolete flag
        obs = [(bi, t) for bi, t in tf.calls() if (t.callee.res or "").endswith("::obsolete_mut")]
        for bi, t in obs:
            guard = None
            for cbi, ct in tf.calls():
                if ct.callee.trait == "std::cmp::PartialEq" and ct.callee.method == "eq" and ct.dest.is_local():
                    roots = set()
                    lits = set()
                    for a in ct.args:
                        roots |= user_root_locals(tf, pvn, a, stop=allk)
                        for at in pv.of_operand(tf, a):
                            if at[0] == "const" and at[2].startswith('"'):
                                lits.add(at[2].strip('"'))
                    if key_of(roots) == ["is_obsolete"] and "true" in lits:
                        for sbi in sorted(tf.reach):
                            x = tf.blocks[sbi].term
                            if x.k == "switch" and x.discr.place is not None and x.discr.place.local == ct.dest.local:
                                vals = [v for v, _ in x.targets]
                                tt = [tg for v, tg in x.targets if v == 1] or ([x.otherwise] if vals == [0] else [])
                                if tt and tf.edge_dominates((sbi, tt[0]), bi):
                                    guard = ct
            if guard is None:
                # unconditional form: `*term.obsolete_mut() = obsolete == Some("true")`
                for pos_, st_ in tf.stmts():
                    if st_.k == "assign" and "*" in st_.place.fields() and st_.place.local == t.dest.local and st_.ops:
                        for at_ in pvn.of_operand(tf, st_.ops[0]):
                            if at_[0] == "call" and at_[3] == tf.id and at_[1].endswith("PartialEq>::eq") or (at_[0] == "call" and at_[3] == tf.id and at_[1].rsplit("::", 1)[-1] == "eq"):
                                ct2 = tf.blocks[at_[4]].term
                                roots2, lits2 = set(), set()
                                for a2 in ct2.args:
                                    roots2 |= user_root_locals(tf, pvn, a2, stop=allk)
                                    for x2 in pv.of_operand(tf, a2):
                                        if x2[0] == "const" and str(x2[2]).startswith('"'):
                                            lits2.add(str(x2[2]).strip('"'))
                                if key_of(roots2) == ["is_obsolete"] and "true" in lits2:
                                    guard = ct2
            # ... and what is stored on that edge is `true` (the term is created with the flag clear)
            for pos_, st_ in tf.stmts():
                if st_.k == "assign" and "*" in st_.place.fields() and st_.place.local == t.dest.local and st_.ops and st_.ops[0].kind == "const" and (st_.ops[0].const or {}).get("ty") == "bool":
                    ck.ob("ROLE", "obo/obsolete-value", st_.ops[0].const.get("val") == "true", "the obsolete flag is stored as `%s` where `is_obsolete: true` was read" % st_.ops[0].const.get("val"), where=tf.where(st_.line))
            ck.ob("ROLE", "obo/obsolete", guard is not None, "the obsolete flag is set %s" % ("iff the `is_obsolete` value equals \"true\"" if guard is not None else "without a comparison of the `is_obsolete` value with \"true\""), where=tf.where(t.line))
        rep = [(bi, t) for bi, t in tf.calls() if (t.callee.res or "").endswith("::replacement_mut")]
        for bi, t in rep:
            # value assigned through the returned reference
            vals = [s for pos, s in tf.stmts() if s.k == "assign" and "*" in s.place.fields() and s.place.local == t.dest.local]
            roots = set()
            for s in vals:
                for at in pvn.of_operand(tf, s.rv["op"]) if s.rv["k"] == "use" else ():
                    if at[0] == "call" and at[3] == tf.id and at[1].endswith("try_from"):
                        ct = tf.blocks[at[4]].term
                        roots |= user_root_locals(tf, pvn, ct.args[0], stop=allk)
                    # Option::map(|v| HpoTermId::try_from(v)) form: the parsed text is the receiver of the adaptor
                    if at[0] == "call" and at[3] == tf.id and at[1].rsplit("::", 1)[-1] in ("map", "and_then", "map_or", "map_or_else"):
                        ct = tf.blocks[at[4]].term
                        cl = prog.bodies.get(pv.closure_of_operand(tf, ct.args[-1])) if len(ct.args) > 1 else None
                        if cl is not None and any(x.callee.method == "try_from" for _, x in cl.calls()):
                            roots |= user_root_locals(tf, pvn, ct.args[0], stop=allk)
            if not roots:
                ck.undecided("ROLE", "obo/replacement", "the expression stored as replacement is not a recognised parse of a key's value", where=tf.where(t.line))
            else:
                ck.ob("ROLE", "obo/replacement", key_of(roots) == ["replaced_by"], "the replacement is parsed from the value of key %s" % (key_of(roots) or "?"), where=tf.where(t.line))
            # the replacement is independent of the other keys: its store is not guarded by a test on another key's value
            errs = error_blocks(tf)
            foreign = set()
            for sbi in sorted(tf.reach):
                x = tf.blocks[sbi].term
                if x.k != "switch":
                    continue
                for tg in set(tf.succ[sbi]):
                    if not tf.edge_dominates((sbi, tg), bi):
                        continue
                    others = [y for y in tf.succ[sbi] if y != tg and y not in errs and tf.blocks[y].term.k != "unreachable"]
                    if not any(any(e in tf.reachable_from(y, avoid_blocks=errs) for e in tf.exits) for y in others):
                        continue
                    groots = set(user_root_locals(tf, pvn, x.discr, stop=allk))
                    if x.discr.place is not None:
                        for kind_, pos_, d_ in pvn.defs(tf).get(x.discr.place.local, []):
                            if kind_ == "call":
                                for a_ in d_.args:
                                    groots |= set(user_root_locals(tf, pvn, a_, stop=allk))
                    foreign |= set(key_of(groots)) - {"replaced_by", "id", "name"}
            ck.ob("ROLE", "obo/replacement-independent", not foreign, "the replacement is stored %s" % ("whenever the `replaced_by` key is present" if not foreign else "only under a test on the value of %s: a term with `replaced_by` but without that value loses its replacement" % sorted(foreign)), where=tf.where(t.line))
    # `key: value` lines: the value is everything after the FIRST separator
    plb = prog.body(O + "parse_line")
    if plb is None:
        ck.undecided("ROLE", "obo/key-value-split", "private helper hp_obo::parse_line not found")
    else:
        val = pvn.of_local(plb, 0, (("f", "1", "tuple"),))
        names = {a[1] for a in val if a[0] == "call"}
        seps = {const_str_of(plb, pvn, x) for _, t in plb.calls() if t.callee.method in ("split_once", "split", "splitn") for x in t.args[1:]} - {None}
        if any(n.endswith("::split_once") for n in names):
            ok, how = True, "split_once"
        elif any("SplitN" in a[2] and a[1].endswith("::next") for a in val if a[0] == "call"):
            n2 = [t.args[1].int_value() for _, t in plb.calls() if t.callee.method == "splitn"]
            ok, how = (n2 == [2]), "splitn(%s)" % n2
        elif any("str::Split<" in a[2] and a[1].endswith("::next") for a in val if a[0] == "call"):
            ok, how = False, "the second piece of split(): a value that contains the separator is cut short"
        else:
            ok, how = None, "?"
        if ok is None:
            ck.undecided("ROLE", "obo/key-value-split", "key/value split idiom not recognised", where=plb.where())
        else:
            ck.ob("ROLE", "obo/key-value-split", ok and seps == {": "}, "a `key: value` line is split on %s with %s" % (sorted(seps), how), where=plb.where())

    # release version: (year, month, day) from the fixed-width date after the data-version prefix
    vf = prog.body(O + "version_from_obo")
    if vf is not None:
        fam = prog.family(vf)
        lits = set()
        tup = None
        for fb in fam:
            for bi, t in fb.calls():
                if t.callee.method in ("strip_prefix", "starts_with"):
                    for a in t.args[1:]:
                        v = const_str_of(fb, pvn, a)
                        if v is not None:
                            lits.add(v)
            for pos, st in fb.stmts():
                if st.k == "assign" and st.rv["k"] == "agg" and st.rv["agg"] == "tuple" and len(st.rv["ops"]) == 3:
                    comps = []
                    for o in st.rv["ops"]:
                        rng = None
                        for a in pvn.of_operand(fb, o):
                            if a[0] == "call" and a[3] == fb.id and "Index" in a[2] and "Range<usize>" in a[2]:
                                it = fb.blocks[a[4]].term
                                for kk, pp, dd in pvn.defs(fb).get(it.args[1].place.local, []) if it.args[1].place is not None else []:
                                    if kk == "assign" and dd.rv["k"] == "agg" and dd.rv.get("adt", "").endswith("Range"):
                                        rng = tuple(x.int_value() for x in dd.rv["ops"])
                        comps.append(rng)
                    tup = comps
        ck.ob("TABLE", "obo/version-prefix", lits == {"data-version: hp/releases/"}, "the release version is taken from the line starting with %s" % sorted(lits), where=vf.where())
        if tup is None:
            ck.undecided("ROLE", "obo/version-fields", "version tuple not recognised", where=vf.where())
        else:
            ck.ob("ROLE", "obo/version-fields", tup == [(0, 4), (5, 7), (8, 10)], "(year, month, day) are parsed from the character ranges %s (expected [0..4], [5..7], [8..10] of YYYY-MM-DD)" % tup, where=vf.where())
    ro_b = prog.body(O + "read_obo_file")
    if ro_b is not None:
        lits = {}
        for fb in prog.family(ro_b):
            for bi, t in fb.calls():
                if t.callee.method in ("strip_prefix", "starts_with", "split") and (t.callee.impl_self or "").startswith("str"):
                    for a in t.args[1:]:
                        v = const_str_of(fb, pvn, a)
                        if v is not None:
                            lits.setdefault(t.callee.method, set()).add(v)
        want = {"split": {"\n\n"}, "strip_prefix": {"[Term]\n"}, "starts_with": {"format-version: 1.2"}}
        got = {k: {x.replace("\n", "\\n").replace(chr(10), "\\n") for x in v} for k, v in lits.items()}
        want2 = {k: {x.replace("\n", "\\n") for x in v} for k, v in want.items()}
        if not got:
            # the splitting / classification moved into private helpers or a private iterator of the module: the literals are looked for module-wide,
            # and only their presence is judged there (other functions of the module have prefixes of their own)
            lits2 = {}
            for fb in prog.production():
                if fb.file == ro_b.file:
                    for bi, t in fb.calls():
                        if t.callee.method in ("strip_prefix", "starts_with", "split") and (t.callee.impl_self or "").startswith("str"):
                            for a in t.args[1:]:
                                v = const_str_of(fb, pvn, a)
                                if v is not None:
                                    lits2.setdefault(t.callee.method, set()).add(v)
            got2 = {k: {x.replace("\n", "\\n").replace(chr(10), "\\n") for x in v} for k, v in lits2.items()}
            okc = all(want2[k] <= got2.get(k, set()) for k in want2) or all(any(w in got2.get(k2, set()) for k2 in got2) for k in want2 for w in want2[k])
            if okc:
                ck.ob("TABLE", "obo/stanza-literals", True, "the obo module splits stanzas on \\n\\n, recognises `[Term]\\n` stanzas and the `format-version: 1.2` header (in helpers of read_obo_file)", where=ro_b.where())
            else:
                ck.undecided("TABLE", "obo/stanza-literals", "stanza splitting / classification literals not recognised in read_obo_file or its module (found %s)" % {k: sorted(v) for k, v in got2.items()}, where=ro_b.where())
        else:
            ck.ob("TABLE", "obo/stanza-literals", got == want2, "read_obo_file splits stanzas on %s, accepts stanzas starting with %s and the header starting with %s" % (sorted(got.get("split", [])), sorted(got.get("strip_prefix", [])), sorted(got.get("starts_with", []))), where=ro_b.where())
        # the header's version is stored with set_hpo_version
        sv = [t for fb in prog.family(ro_b) for _, t in fb.calls() if (t.callee.res or "").endswith("::set_hpo_version")]
        okv = False
        for t in sv:
            okv = True
        ck.ob("ROLE", "obo/version-stored", okv, "the parsed release version is stored with set_hpo_version" if okv else "the parsed release version is never stored", where=ro_b.where())
    ac = prog.body(O + "add_connections")
    if ac is not None:
        pushes = [(bi, t) for bi, t in ac.calls() if t.callee.method == "push"]
        for bi, t in pushes:
            a0 = pv.of_operand(ac, t.args[1], (("f", "0", "tuple"),))
            a1 = pv.of_operand(ac, t.args[1], (("f", "1", "tuple"),))
            child_ok = params_of(a0, ac.id) == {3}
            parent_ok = any(a[0] == "call" and a[1].endswith("strip_prefix") for a in a1) and 3 not in params_of(a1, ac.id)
            lits = {const_str_of(fb_, pvn, x) for fb_ in prog.family(ac) for cbi, ct in fb_.calls() if ct.callee.method == "strip_prefix" for x in ct.args[1:]} - {None}
            if not lits or not any(a[0] == "call" and a[1].endswith("strip_prefix") for a in a1 | a0):
                ck.undecided("ROLE", "obo/is_a", "the parent id of a connection is not recognisably the text after a strip_prefix literal", where=ac.where(t.line))
                continue
            ck.ob("ROLE", "obo/is_a", child_ok and parent_ok and lits == {"is_a: "}, "a connection is (this term%s, id parsed after %s%s)" % ("" if child_ok else "?", sorted(lits), "" if parent_ok else "?"), where=ac.where(t.line))
    ro = prog.body(O + "read_obo_file")
    if ro is not None:
        links = [(bi, t) for bi, t in ro.calls() if "add_parent" in (t.callee.res or "")]
        for bi, t in links:
            pa = pv.of_operand(ro, t.args[1])
            ca = pv.of_operand(ro, t.args[2])
            # items of `connections`: tuple (child, parent)
            def comp(at):
                return {tuple(e[1] for e in a[5] if e[0] == "f")[-1:] for a in at if a[0] == "call" and a[1].endswith("::next")}
            ok = comp(pa) == {("1",)} and comp(ca) == {("0",)}
            if ("add_parent" in (t.callee.res or "") and not (t.callee.res or "").endswith(("::add_parent", "::add_parent_unchecked"))) or (not {c for c in comp(pa) if c} and not {c for c in comp(ca) if c}) or not (comp(pa) <= {("0",), ("1",)} and comp(ca) <= {("0",), ("1",)}):
                ck.undecided("ROLE", "obo/link-order", "the link call of the obo reader does not receive the two components of a (child, parent) pair (another shape of the connection list / of the linking API): argument roles not read", where=ro.where(t.line))
                continue
            ck.ob("ROLE", "obo/link-order", ok, "connections (child, parent) are linked as add_parent(%s, %s)" % ("parent" if comp(pa) == {("1",)} else "?", "child" if comp(ca) == {("0",)} else "?"), where=ro.where(t.line))

    # ---- constructors: a field named like a parameter is initialised from that parameter, not from a sibling of the same type
    # ---- the two text loaders differ in the gene file parser only: same stages, same finishing call (with the default categories / modifiers)
    ck.rule("SIBLING", "the loaders behind from_standard and from_standard_transitive run the same stages; both finish with build_with_defaults")
    stages = {}
    for fn_ in ("from_standard", "from_standard_transitive"):
        ob_ = prog.body("ontology::Ontology::" + fn_)
        if ob_ is None:
            continue
        ld = [prog.bodies[t.callee.res] for _, t in ob_.calls() if t.callee.res in prog.bodies and (t.callee.res or "").startswith("parser::")]
        if len(ld) != 1:
            ck.undecided("SIBLING", "loader/%s" % fn_, "the loader behind Ontology::%s is not a single crate function of the parser module" % fn_, where=ob_.where())
            continue
        lb_ = ld[0]
        seq = []
        for bi, t in sorted(lb_.calls(), key=lambda q: len([1 for q2 in lb_.calls() if lb_.dominates(q2[0], q[0])])):
            r = t.callee.res or ""
            if r in prog.bodies and not t.callee.trait:
                r0 = prog.bodies[r].spec_of or r  # (a call-site clone of a helper that takes the gene parser as a function pointer is that helper)
                nm = re.sub(r"::<[^>]*>", "", r0).rsplit("::", 1)[-1]
                seq.append("<gene parser>" if r0.startswith(G) else nm)
        stages[fn_] = (lb_, tuple(seq))
        fin = [x for x in seq if x.startswith("build")]
        if not fin:
            # the stages may sit in a shared private helper (`load(.., gene_parser)`)
            for rid in sorted(prog.reachable_bodies([lb_.id])):
                rb_ = prog.bodies.get(rid)
                if rb_ is not None and rb_.id.startswith("parser::") and rb_.id != lb_.id and not rb_.reachable:
                    fin += [re.sub(r"::<[^>]*>", "", t.callee.res).rsplit("::", 1)[-1] for _, t in rb_.calls() if t.callee.res in prog.bodies and re.sub(r"::<[^>]*>", "", t.callee.res).rsplit("::", 1)[-1].startswith("build")]
            fin = sorted(set(fin))
            if not fin:
                ck.undecided("ROLE", "loader/%s/finish" % fn_, "no finishing call of the builder found in %s or the private parser functions it reaches" % lb_.short, where=lb_.where())
                continue
        ck.ob("ROLE", "loader/%s/finish" % fn_, fin == ["build_with_defaults"], "%s finishes the ontology with %s (expected build_with_defaults: categories and modifier roots are part of a loaded ontology)" % (lb_.short, fin or "no build call"), where=lb_.where())
    if len(stages) == 2:
        (l1, s1), (l2, s2) = stages["from_standard"], stages["from_standard_transitive"]
        ck.ob("SIBLING", "loader/stages", s1 == s2, "the two loaders run %s" % ("the same stages: " + " -> ".join(s1) if s1 == s2 else "DIFFERENT stages: %s vs %s" % (" -> ".join(s1), " -> ".join(s2))), where=l2.where())

    ck.rule("CTOR", "in a struct literal, the field `f` of a function with a parameter `f` derives from that parameter (DESIGN 3.9)")
    from engines import check_ctors
    check_ctors(ck, "CTOR", prog, r"^src/parser\.rs$", floor=1)
    # failures of fallible crate functions are propagated or asserted, never turned into success
    ck.rule("ERR", "every call of a crate function returning Result<_, HpoError> propagates the error (`?` / return / match), panics on it (unwrap / expect), or is a listed documented exception; none replaces it by a default")
    from engines import check_error_discipline
    check_error_discipline(ck, "ERR", prog, r"^src/parser\.rs$|^src/parser/hp_obo\.rs$", allowed=[(r"^Ontology::hpo$", r"try_new$", "documented: Ontology::hpo answers None for an id that is not in the ontology")], floor=5)
