"""C11 - distances and paths (clause: SHORTCUT / SELECT / ROLE / FIELD on the four distance / path functions)"""
import re
from engines import positive_edges, adaptor_chain
from prov import Prov, params_of, field_names
from props.shared import path_reduction_key

CLAIM = ("(SHORTCUT) HpoTerm::distance_to_term and HpoTerm::path_to_term produce every result from the MINIMUM over all common ancestors "
         "(the two terms included): a result that does not come from that reduction is allowed only under an identity or direct-parent test, "
         "never under an ancestor-closure test (child_of / parent_of / all_parents.contains) - such a shortcut returns the upward chain, which is "
         "not minimal as soon as a level-skipping is_a edge offers a shorter detour over a higher common ancestor; (SELECT) the four functions "
         "reduce with min / min_by_key, never max, and path_to_ancestor compares its candidate paths by LENGTH (a plain min() on Vec paths is lexicographic); (ROLE) the minimised quantity is distance(self, a) + distance(other, a) for the SAME candidate a; "
         "(FIELD) the candidates are the inclusive common ancestors; distance_to_ancestor answers 0 on identity, 1 on a direct parent and adds 1 "
         "per recursion step; path_to_ancestor prepends the parent it recursed through.")
NOT_DECIDED = ("that the recursion over parents yields shortest chains and valid walks for every DAG, symmetry of the distance, and absence when the "
               "terms share no ancestor (properties of recursion results over runtime graphs).")

T = "term::hpoterm::HpoTerm::<'a>::"


def reductions(prog, fam):
    out = []
    for fb in fam:
        for bi, t in fb.calls():
            if t.callee.trait == "std::iter::Iterator" and t.callee.method in ("min", "max", "min_by_key", "max_by_key", "min_by", "max_by"):
                out.append((fb, bi, t))
    return out


def run(ck, prog, ctx):
    ck.rule("SHORTCUT", "every result comes from the min reduction over all common ancestors, or sits under an identity / direct-parent test (must-pass-through, DESIGN 3.6)")
    ck.rule("SELECT", "reductions are minima (DESIGN 3.10)")
    ck.rule("ROLE", "summands of the minimised distance (DESIGN 3.4)")
    ck.rule("FIELD", "candidate set and base cases (DESIGN 3.9)")
    pv = Prov(prog)
    pvn = Prov(prog, inline=False)

    for name in ("distance_to_term", "path_to_term"):
        b = prog.body(T + name)
        if not ck.anchor("SHORTCUT", "HpoTerm::" + name, b):
            continue
        fam = prog.family(b)
        reds = [(fb, bi, t) for fb, bi, t in reductions(prog, fam) if fb is b]
        if not reds:
            from engines import for_loops as _fl
            if _fl(b):
                ck.undecided("SHORTCUT", name + "/reduction", "%s minimises with an explicit loop, not an Iterator reduction: its results are not classified by this rule" % name, where=b.where())
            else:
                ck.ob("SHORTCUT", name + "/reduction", False, "%s has no min reduction over the common ancestors" % name, where=b.where())
            continue
        # candidate set
        cands = set()
        for fb, bi, t in reds:
            for m in adaptor_chain(b, pvn, t.args[0]):
                if re.search(r"^(all_)?(common|union)_ancestor(s|_ids)$", m):
                    cands.add(m)
        priv_src = None
        if not cands:
            for fb, bi, t in reds:
                for a in pvn.of_operand(b, t.args[0]):
                    if a[0] == "call" and a[3] == b.id and a[1] in prog.bodies and not (prog.bodies[a[1]].exported or prog.bodies[a[1]].reachable):
                        priv_src = prog.bodies[a[1]].short
        if not cands and priv_src:
            ck.undecided("FIELD", name + "/candidates", "%s minimises over what the crate-private %s yields: which ancestor set that is, is not read by this rule" % (name, priv_src), where=b.where())
        else:
            ck.ob("FIELD", name + "/candidates", cands == {"all_common_ancestors"} or cands == {"all_common_ancestor_ids"}, "%s minimises over %s (expected the inclusive common ancestors)" % (name, sorted(cands) or "?"), where=b.where())
        # results
        sites = []
        for bi in sorted(b.reach):
            blk = b.blocks[bi]
            for i, st in enumerate(blk.stmts):
                if st.k == "assign" and st.place.local == 0 and st.place.is_local():
                    sites.append((bi, st.line, pvn.of_operand(b, st.ops[0]) if st.ops else frozenset(), "assign"))
            if blk.term.k == "call" and blk.term.dest.is_local() and blk.term.dest.local == 0:
                at = set()
                for a in blk.term.args:
                    at |= pvn.of_operand(b, a)
                at.add(("call", blk.term.callee.name, blk.term.callee.def_args or "", b.id, bi, ()))
                sites.append((bi, blk.term.line, frozenset(at), "call"))
        red_bbs = {bi for fb, bi, t in reds}
        n = 0
        for bi, line, at, kind in sites:
            from_min = any(a[0] == "call" and a[3] == b.id and a[4] in red_bbs for a in at)
            if from_min:
                ck.ob("SHORTCUT", "%s/result/%d" % (name, n), True, "%s: result produced by the min reduction" % name, where=b.where(line))
                n += 1
                continue
            # classify the guard(s) that dominate this result
            guards = []
            for gbi, gt in b.calls():
                for e in positive_edges(b, pvn, gbi):
                    if b.edge_dominates(e, bi):
                        r = gt.callee.res or gt.callee.deff or ""
                        if re.search(r"HpoTerm::<'.*>::(child_of|parent_of)$", r):
                            guards.append(("closure", r.rsplit("::", 1)[-1]))
                        elif r == "term::group::HpoGroup::contains":
                            fl = field_names(pv.of_operand(b, gt.args[0]), "::HpoTerm")
                            guards.append(("closure", "all_parents.contains") if "all_parents" in fl else ("direct", "parents.contains"))
                        elif gt.callee.trait == "std::cmp::PartialEq" and re.search(r"HpoTermId|HpoTerm", gt.callee.def_args or ""):
                            guards.append(("identity", "=="))
            bad = [g for g in guards if g[0] == "closure"]
            if bad:
                ck.violation("SHORTCUT", "%s/result/%d" % (name, n), "%s returns a result (line %s) under the ancestor test `%s` without taking the minimum over all common ancestors: with a level-skipping is_a edge the upward chain is longer than the detour over a higher common ancestor" % (name, line, bad[0][1]), where=b.where(line))
            elif guards:
                ck.ob("SHORTCUT", "%s/result/%d" % (name, n), True, "%s: shortcut under an %s test" % (name, "/".join(sorted({g[0] for g in guards}))), where=b.where(line))
            else:
                ck.ob("SHORTCUT", "%s/result/%d" % (name, n), False, "%s returns a result (line %s) that does not come from the min reduction and is not guarded by an identity / direct-parent test" % (name, line), where=b.where(line))
            n += 1
        # summands
        for fb in fam:
            dcalls = [(bi, t) for bi, t in fb.calls() if (t.callee.res or "").endswith("::distance_to_ancestor")]
            adds = [st for _, st in fb.stmts() if st.k == "assign" and st.rv["k"] == "bin" and st.rv["op"].startswith("Add")]
            if len(dcalls) >= 2 and adds:
                recv = [params_of(pv.of_operand(fb, t.args[0]), b.id) for bi, t in dcalls[:2]]
                pvc = Prov(prog, bind_closures=False)
                keys = [params_of(pvc.of_operand(fb, t.args[1]), fb.id) for bi, t in dcalls[:2]]
                ok = sorted(map(sorted, recv)) == [[1], [2]] and keys[0] == keys[1] and len(keys[0]) == 1
                ck.ob("ROLE", name + "/summands", ok, "%s minimises distance(%s, a) + distance(%s, a)%s" % (name, "/".join(b.local_name(p) for p in recv[0]) or "?", "/".join(b.local_name(p) for p in recv[1]) or "?", "" if ok else " - expected (self, a) + (other, a) for the same candidate a"), where=fb.where(dcalls[0][1].line))

    # ---- SELECT: minima everywhere
    for name in ("distance_to_term", "path_to_term", "distance_to_ancestor", "path_to_ancestor"):
        b = prog.body(T + name)
        if b is None:
            continue
        reds = reductions(prog, prog.family(b))
        if not reds:
            ck.undecided("SELECT", name + "/min", "no reduction recognised", where=b.where())
            continue
        bad = [t for fb, bi, t in reds if t.callee.method.startswith("max")]
        ck.ob("SELECT", name + "/min", not bad, "%s reduces with %s" % (name, sorted({t.callee.method for fb, bi, t in reds})), where=b.where())
        if name == "path_to_ancestor":
            path_reduction_key(ck, "SELECT", prog, pv, reds)
        if name == "path_to_term":
            for fb, bi, t in reds:
                if t.callee.method == "min_by_key" and len(t.args) > 1:
                    cid = pv.closure_of_operand(fb, t.args[1])
                    cb = prog.bodies.get(cid)
                    if cb is not None:
                        comp = {tuple(e[1] for e in a[3] if e[0] == "f") for a in Prov(prog, bind_closures=False).of_local(cb, 0) if a[0] == "param" and a[2] == 2}
                        ck.ob("SELECT", name + "/key", comp == {("1",)}, "path_to_term picks the candidate with the smallest distance sum (component %s of (ancestor, sum))" % sorted(comp), where=cb.where())

    # ---- no truncating adaptor in the ancestor walks of the distance / path functions (every common ancestor, every parent takes part;
    # the one `skip(1)` that drops the shared ancestor from the second half of a joined path is part of the contract)
    from engines import check_complete_iteration as _cci11
    _cci11(ck, "SHORTCUT", prog, [T + n_ for n_ in ("distance_to_term", "distance_to_ancestor", "path_to_ancestor")], "the ancestors / parents it walks")
    ptb_ = prog.body(T + "path_to_term")
    if ptb_ is not None:
        from engines import hard_truncations as _ht11
        cuts_ = _ht11(prog, ptb_)
        ck.ob("SHORTCUT", "complete-iteration/path_to_term", len(cuts_) <= 1 and all(c_[1].callee.method == "skip" for c_ in cuts_), "path_to_term uses %d truncating adaptor(s) (%s); expected: at most the one `skip(1)` that drops the shared ancestor from the way down" % (len(cuts_), ", ".join(c_[1].callee.method for c_ in cuts_) or "none"), where=ptb_.where())
    # ---- the path ends at `other`: where `other`'s id is appended under a test of what the path already ends with, that test looks at the LAST
    # element of the path (a test of the first one appends `other` a second time whenever the way up already ends there)
    pt_ = prog.body(T + "path_to_term")
    if pt_ is not None:
        pvp_ = Prov(prog, inline=False)
        for fb_ in prog.family(pt_):
            for pbi_, ptm_ in fb_.calls():
                if ptm_.callee.method != "push" or len(ptm_.args) != 2:
                    continue
                ends_ = set()
                for gbi_, gt_ in fb_.calls():
                    if gt_.callee.method in ("eq", "ne") and len(gt_.args) == 2 and any(fb_.edge_dominates((sb_, tg_), pbi_) for sb_ in sorted(fb_.reach) if fb_.blocks[sb_].term.k == "switch" and any(a_[0] == "call" and a_[3] == fb_.id and a_[4] == gbi_ for a_ in pvp_.of_operand(fb_, fb_.blocks[sb_].term.discr)) for tg_ in fb_.blocks[sb_].term.successors()):
                        for a_ in gt_.args:
                            ends_ |= {x_[1].rsplit("::", 1)[-1] for x_ in pvp_.of_operand(fb_, a_) if x_[0] == "call" and x_[3] == fb_.id and x_[1].rsplit("::", 1)[-1] in ("last", "first", "get", "index", "last_mut", "first_mut")}
                if ends_:
                    ck.ob("ROLE", "path_to_term/appends-behind-last", ends_ == {"last"}, "path_to_term appends `other` under a test of the path's %s element" % ("last" if ends_ == {"last"} else "/".join(sorted(ends_)) + " (expected: last)"), where=fb_.where(ptm_.line))

    # ---- base cases of distance_to_ancestor
    da = prog.body(T + "distance_to_ancestor")
    if ck.anchor("FIELD", "HpoTerm::distance_to_ancestor", da):
        consts = {}
        for bi in sorted(da.reach):
            for st in da.blocks[bi].stmts:
                if st.k == "assign" and st.place.local == 0 and st.rv["k"] == "agg" and st.rv.get("variant") == "Some" and st.rv["ops"] and st.rv["ops"][0].kind == "const":
                    v = st.rv["ops"][0].int_value()
                    kinds = set()
                    for gbi, gt in da.calls():
                        for e in positive_edges(da, pvn, gbi):
                            if da.edge_dominates(e, bi):
                                r = gt.callee.res or ""
                                if gt.callee.trait == "std::cmp::PartialEq":
                                    kinds.add("identity")
                                elif r == "term::group::HpoGroup::contains":
                                    fl = field_names(pv.of_operand(da, gt.args[0]), "::HpoTerm")
                                    kinds.add("direct" if "parents" in fl and "all_parents" not in fl else "closure")
                    consts[v] = kinds
        incs = []
        for fb in prog.family(da):
            for _, st in fb.stmts():
                if st.k == "assign" and st.rv["k"] == "bin" and st.rv["op"].startswith("Add") and st.rv["r"].kind == "const":
                    incs.append(st.rv["r"].int_value())
        deleg = None
        if not consts and not incs:
            for a in pvn.of_return(da):
                hb = prog.bodies.get(a[2]) if a[0] == "call" and a[3] == da.id else None
                hb = hb or (prog.bodies.get(a[1]) if a[0] == "call" and a[3] == da.id else None)
                if hb is not None and hb.kind in ("Fn", "AssocFn") and not hb.exported and not hb.reachable and not hb.impl_trait and hb.id != da.id:
                    deleg = hb
        if deleg is not None:
            ck.undecided("FIELD", "distance_to_ancestor/base", "distance_to_ancestor takes its result from the private helper %s (no base case or step of its own): the recursive form's rules do not apply" % deleg.short, where=da.where())
            ck.undecided("FIELD", "distance_to_ancestor/step", "see distance_to_ancestor/base", where=da.where())
        elif consts.get(0) == {"identity"} and 1 not in consts and da.natural_loops():
            # an iterative (level by level) search has no constant `Some(1)` base case: its counter starts somewhere and is returned from the loop
            ck.undecided("FIELD", "distance_to_ancestor/base", "distance_to_ancestor is iterative (its step counter is returned from a loop): the base cases of the recursive form do not apply", where=da.where())
        else:
            ck.ob("FIELD", "distance_to_ancestor/base", consts.get(0) == {"identity"} and consts.get(1) == {"direct"}, "distance_to_ancestor returns %s" % {k: sorted(v) for k, v in sorted(consts.items())}, where=da.where())
        if deleg is None:
          ck.ob("FIELD", "distance_to_ancestor/step", incs == [1], "each recursion step adds %s (expected 1)" % incs, where=da.where())
    pa = prog.body(T + "path_to_ancestor")
    if pa is not None:
        ins = [(fb, t) for fb in prog.family(pa) for _, t in fb.calls() if t.callee.method == "insert" and "Vec" in (t.callee.def_args or "")]
        ok = bool(ins) and all(t.args[1].kind == "const" and t.args[1].int_value() == 0 for fb, t in ins)
        if not ins:
            ck.undecided("FIELD", "path_to_ancestor/prepend", "prepending idiom not recognised", where=pa.where())
        else:
            ck.ob("FIELD", "path_to_ancestor/prepend", ok, "the parent recursed through is inserted at position %s of the path (expected 0 = front)" % [t.args[1] for fb, t in ins], where=pa.where())
