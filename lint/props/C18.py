"""C18 - ontology comparison (clauses: ROLE old/new in the 12 accessors, COVER decision coverage of the deltas)"""
import re
from engines import bool_polarity, kind_elements
from engines import check_complete_iteration
from prov import Prov, params_of, field_names
from props.shared import subtractions

CLAIM = ("(ROLE) every `added_X` accessor iterates the NEW ontology (rhs) and looks each item up in the OLD one (lhs), keeping it iff the lookup is none; "
         "`removed_X` the converse; `changed_X` iterates lhs, looks up rhs and builds the delta from (lhs item, rhs item); each accessor stays within its "
         "own entity kind; HpoTermDelta computes removed parents as lhs\\rhs and added parents as rhs\\lhs (as HashSet::difference or as filter-not-contains), both operands being the DIRECT parents, AnnotationDelta added terms as rhs filtered "
         "by !lhs.contains and removed terms the converse; (COVER) the 'is changed' decision of HpoTermDelta::new depends on name, parents, obsolete and "
         "replacement of BOTH sides, that of AnnotationDelta::delta on added terms, removed terms and both names.")
NOT_DECIDED = "exactness of the reported lists on all pairs of ontologies; HpoTermDelta compares RESOLVED replacement terms (two unresolvable replacement ids compare equal) - an observation, not armed."

C = "ontology::comparison::Comparison::<'a>::"
LOOKUPS = {"hpo_terms": "ontology::Ontology::hpo", "genes": "ontology::Ontology::gene", "omim_diseases": "ontology::Ontology::omim_disease", "orpha_diseases": "ontology::Ontology::orpha_disease"}
ITERS = {"hpo_terms": ("hpos", "iter"), "genes": ("genes",), "omim_diseases": ("omim_diseases",), "orpha_diseases": ("orpha_diseases",)}
KIND = {"genes": "Gene", "omim_diseases": "Omim", "orpha_diseases": "Orpha"}
OTHER = {"lhs": "rhs", "rhs": "lhs"}


def sides(atoms):
    return field_names(atoms, "Comparison") & {"lhs", "rhs"}


def run(ck, prog, ctx):
    ck.rule("ROLE", "old/new provenance at the iteration receiver, the lookup receiver and the delta constructor (DESIGN 3.4)")
    ck.rule("KIND", "accessor stays within its entity kind (DESIGN 3.3 K1)")
    ck.rule("COVER", "decision coverage: discriminants depend on every compared attribute of both sides (DESIGN 3.13 c)")
    pv = Prov(prog)
    pvn = Prov(prog, inline=False, bind_closures=False)
    pvb = Prov(prog, inline=False)
    n_acc = 0
    for ent, lookup in sorted(LOOKUPS.items()):
        for mode in ("added", "removed", "changed"):
            name = "%s_%s" % (mode, ent)
            b = prog.body(C + name)
            if not ck.anchor("ROLE", "Comparison::" + name, b):
                continue
            n_acc += 1
            it_side = "rhs" if mode == "added" else "lhs"
            lk_side = OTHER[it_side]
            fam = prog.family(b)
            # iteration receiver: the adaptor consuming the closure
            adapt = [(bi, t) for bi, t in b.calls() if t.callee.trait == "std::iter::Iterator" and t.callee.method in ("filter", "filter_map", "map", "flat_map", "find")]
            loops = [(bi, t) for bi, t in b.calls() if t.callee.trait == "std::iter::Iterator" and t.callee.method == "next"]
            # the source of the pipeline: adaptors fed by another adaptor of the same chain see derived items (pairs of both sides)
            chained = {t.dest.local for bi, t in adapt if t.dest is not None and t.dest.is_local()}
            adapt = [(bi, t) for bi, t in adapt if not (t.args and t.args[0].place is not None and t.args[0].place.is_local() and t.args[0].place.local in chained)] or adapt
            recvs = [pv.of_operand(b, t.args[0]) for bi, t in adapt] or [pv.of_operand(b, t.args[0]) for bi, t in loops]
            if not recvs:
                ck.undecided("ROLE", name + "/iterates", "iteration not recognised", where=b.where())
            else:
                s_it = set()
                for r in recvs:
                    s_it |= sides(r)
                ck.ob("ROLE", name + "/iterates", s_it == {it_side}, "%s iterates %s (expected %s = the %s ontology)" % (name, sorted(s_it), it_side, "new" if it_side == "rhs" else "old"), where=b.where())
            # lookup receiver
            lks = [(fb, bi, t) for fb in fam for bi, t in fb.calls() if t.callee.res == lookup]
            if not lks:
                ck.undecided("ROLE", name + "/looks-up", "lookup %s not found" % lookup.rsplit("::", 1)[-1], where=b.where())
            for fb, bi, t in lks:
                s_lk = sides(pv.of_operand(fb, t.args[0]))
                ck.ob("ROLE", name + "/looks-up", s_lk == {lk_side}, "%s looks the item up in %s (expected %s)" % (name, sorted(s_lk), lk_side), where=fb.where(t.line))
                if mode != "changed":
                    pol, _ = bool_polarity(fb, pvn, lambda c: c.method in ("is_none", "is_some") and (c.impl_self or "").startswith("std::option::Option"))
                    ts = [(x, y) for x, y in fb.calls() if y.callee.method in ("then_some", "then") and "bool" in (y.callee.name or "") + (y.callee.def_args or "") and y.args]
                    if pol is None and len(ts) == 1 and fb.kind == "Closure":
                        # `filter_map(|x| other.get(x).is_none().then_some(x))`: the item is kept iff the flag is true
                        fl = pvn.of_operand(fb, ts[0][1].args[0])
                        tests = {a[1].rsplit("::", 1)[-1] for a in fl if a[0] == "call" and a[1].rsplit("::", 1)[-1] in ("is_none", "is_some")}
                        nots = len([a for a in fl if a[0] == "op" and a[1] == "Not"])
                        returned = any(a[0] == "call" and a[3] == fb.id and a[4] == ts[0][0] for a in pvn.of_local(fb, 0))
                        if len(tests) == 1 and returned and nots <= 1:
                            keeps_absent = (tests == {"is_none"}) == (nots == 0)
                            ck.ob("ROLE", name + "/keeps", keeps_absent, "%s keeps an item iff it is %s in the other ontology" % (name, "absent" if keeps_absent else "PRESENT"), where=fb.where(t.line))
                        else:
                            ck.undecided("ROLE", name + "/keeps", "predicate is not a plain is_none()/is_some()", where=fb.where(t.line))
                    elif pol is None:
                        ck.undecided("ROLE", name + "/keeps", "predicate is not a plain is_none()/is_some()", where=fb.where(t.line))
                    else:
                        m = _.callee.method
                        keeps_absent = (m == "is_none") == (pol == 1)
                        ck.ob("ROLE", name + "/keeps", keeps_absent, "%s keeps an item iff it is %s in the other ontology" % (name, "absent" if keeps_absent else "PRESENT"), where=fb.where(t.line))
                else:
                    ctors = [(fb, x, y) for x, y in fb.calls() if (y.callee.res or "").startswith("ontology::comparison::") and re.search(r"(HpoTermDelta::new|AnnotationDelta::(gene|disease))$", y.callee.res or "")]
                    if not ctors:
                        # the constructor sits in another closure of the same function (`.and_then(|new| Delta::new(old, new))`, a second adaptor)
                        ctors = [(fb2, x, y) for fb2 in fam for x, y in fb2.calls() if (y.callee.res or "").startswith("ontology::comparison::") and re.search(r"(HpoTermDelta::new|AnnotationDelta::(gene|disease))$", y.callee.res or "")]
                    if not ctors:
                        ck.undecided("ROLE", name + "/delta", "delta constructor not found", where=fb.where())
                    for cfb, x, y in ctors:
                        pvx = pvn if cfb is fb else pvb  # across closures the parameters have to be bound to what the adaptor hands them
                        a0 = pvx.of_operand(cfb, y.args[0])
                        a1 = pvx.of_operand(cfb, y.args[1])
                        if cfb is not fb and all(any(a[0] == "call" and a[1] == lookup for a in ax) and sides(ax) == {"lhs", "rhs"} for ax in (a0, a1)):
                            ck.undecided("ROLE", name + "/delta", "the delta is built in a later stage of the pipeline from a pair whose components the provenance cannot tell apart", where=cfb.where(y.line))
                            continue
                        # the first argument is the iterated item: the closure's element parameter, or (explicit loop / nested closure) a value from the iterated side only
                        item0 = ((cfb is fb and 2 in params_of(a0, fb.id)) or sides(pv.of_operand(cfb, y.args[0])) == {it_side}) and not any(a[0] == "call" and a[1] == lookup for a in a0)
                        found1 = any(a[0] == "call" and a[1] == lookup for a in a1) and 2 not in {p for p in params_of(a1, fb.id) if not any(a[0] == "call" and a[1] == lookup for a in a1)}
                        ok = item0 and any(a[0] == "call" and a[1] == lookup for a in a1)
                        ck.ob("ROLE", name + "/delta", ok, "%s builds the delta from %s" % (name, "(iterated old item, looked-up new item)" if ok else "arguments in another order than (old, new)"), where=cfb.where(y.line))
            if ent in KIND:
                els = []
                for fb in fam:
                    els += kind_elements(fb)
                foreign = [e for e in els if e[0] != KIND[ent]]
                ck.ob("KIND", "K1/" + name, not foreign, "%s %s" % (name, "uses %s only" % KIND[ent] if not foreign else "uses a %s element: %s" % (foreign[0][0], foreign[0][1])), where=b.where())
    check_complete_iteration(ck, "ROLE", prog, [C + "%s_%s" % (m, e) for m in ("added", "removed", "changed") for e in LOOKUPS] + ["ontology::comparison::AnnotationDelta::delta", "ontology::comparison::HpoTermDelta::new"], "the entities of the iterated ontology")
    ck.floor("ROLE", "comparison accessors", n_acc, 12)

    # ------------------------------------------------------------------ HpoTermDelta::new
    hd = prog.body("ontology::comparison::HpoTermDelta::new")
    if ck.anchor("COVER", "HpoTermDelta::new", hd):
        fam = prog.family(hd)
        ACC = {"name": "name", "parents": "parents", "parent_ids": "parents", "is_obsolete": "obsolete", "replaced_by": "replacement", "replacement_id": "replacement"}
        pairs = set()
        for bi in sorted(hd.reach):
            x = hd.blocks[bi].term
            if x.k != "switch":
                continue
            dat = pv.of_operand(hd, x.discr)
            for a in dat:
                if a[0] == "call" and a[3] == hd.id and a[1].startswith("term::hpoterm::HpoTerm::") and a[1].rsplit("::", 1)[-1] in ACC:
                    t = hd.blocks[a[4]].term
                    for p in params_of(pvn.of_operand(hd, t.args[0]), hd.id):
                        pairs.add((ACC[a[1].rsplit("::", 1)[-1]], p))
                elif a[0] == "call" and a[3] != hd.id and a[3] in prog.bodies and prog.bodies[a[3]].file == hd.file and a[1].startswith("term::hpoterm::HpoTerm::") and a[1].rsplit("::", 1)[-1] in ACC:
                    # the accessor is called inside a private helper (`Self::parent_ids(&lhs)`): the sides are those the
                    # discriminant as a whole derives from
                    sides_h = set(params_of(dat, hd.id))
                    if not sides_h:
                        # sides lost through the helper's frame: take the sides the helper is called with in this function
                        for hbi, ht in hd.calls():
                            if ht.callee.res == a[3] or (ht.callee.res and a[3].startswith(ht.callee.res)):
                                for ha in ht.args:
                                    sides_h |= params_of(pvn.of_operand(hd, ha), hd.id)
                    for p in sides_h:
                        pairs.add((ACC[a[1].rsplit("::", 1)[-1]], p))
        need = {(x, p) for x in ("name", "parents", "obsolete", "replacement") for p in (1, 2)}
        miss = sorted(need - pairs)
        ck.ob("COVER", "HpoTermDelta/decision", not miss, "the changed-decision of HpoTermDelta::new depends on %d/8 (attribute, side) pairs%s" % (len(need & pairs), "" if not miss else "; missing: %s" % [(a, "lhs" if p == 1 else "rhs") for a, p in miss]), where=hd.where())
        # each scalar attribute is compared for (in)equality between the two sides: old value vs new value
        cmps = []
        pv_c = Prov(prog, inline=False)
        for bi, t in hd.calls():
            if t.callee.trait in ("std::cmp::PartialEq", "std::cmp::Ord", "std::cmp::PartialOrd") and t.callee.method in ("eq", "ne", "cmp", "partial_cmp") and len(t.args) == 2:
                cmps.append((t.line, t.args[0], t.args[1]))
        for pos, st in hd.stmts():
            if st.k == "assign" and st.rv["k"] == "bin" and st.rv["op"] in ("Eq", "Ne"):
                cmps.append((st.line, st.rv["l"], st.rv["r"]))
        seen_attr = {}
        for line, lo, ro in cmps:
            la, ra = pv_c.of_operand(hd, lo), pv_c.of_operand(hd, ro)

            def attrs(at):
                return {ACC[a[1].rsplit("::", 1)[-1]] for a in at if a[0] == "call" and a[1].startswith("term::hpoterm::HpoTerm::") and a[1].rsplit("::", 1)[-1] in ACC}
            lp, rp = params_of(la, hd.id), params_of(ra, hd.id)
            for x in attrs(la) & attrs(ra):
                if {frozenset(lp), frozenset(rp)} == {frozenset({1}), frozenset({2})}:
                    seen_attr[x] = line
        for x in ("name", "obsolete", "replacement"):
            ck.ob("COVER", "HpoTermDelta/compares/" + x, x in seen_attr, "HpoTermDelta::new %s" % (("compares the old and the new %s for equality" % x) if x in seen_attr else ("never compares the old %s with the new %s for equality: a term whose %s changed from one value to another is not reported" % (x, x, x))), where=hd.where(seen_attr.get(x)))
        agg = [s for _, s in hd.stmts() if s.k == "assign" and s.rv["k"] == "agg" and s.rv.get("adt", "").endswith("HpoTermDelta")]
        DIRECT = {"parents", "parent_ids"}

        def acc_of(atoms):
            return {a[1].rsplit("::", 1)[-1] for a in atoms if a[0] == "call" and a[1].startswith("term::hpoterm::HpoTerm::")} - {"id"}

        # accepted forms of a set subtraction A \\ B: see props/shared.py subtractions()
        subs = {}
        for k_, v_ in subtractions(prog, pv, pvn, hd).items():
            pa_, pb_ = params_of(v_["A"], hd.id), params_of(v_["B"], hd.id)
            if pa_ and pb_:
                subs[k_] = (pa_, pb_, acc_of(v_["A"]), acc_of(v_["B"]), v_["pol"])
        if not subs or not agg:
            ck.undecided("ROLE", "HpoTermDelta/parents", "set subtraction (difference / filter-not-contains) or struct construction not recognised", where=hd.where())
        else:
            st = agg[0]
            nm = {frozenset({1}): "lhs", frozenset({2}): "rhs"}
            for fld, want in (("removed_parents", ({1}, {2})), ("added_parents", ({2}, {1}))):
                op = st.rv["ops"][st.rv["fields"].index(fld)]
                at = pvn.of_operand(hd, op)
                used = [subs[a[4]] for a in at if a[0] == "call" and a[3] == hd.id and a[4] in subs]
                if not used:
                    ck.undecided("ROLE", "HpoTermDelta/" + fld, "%s is not built by a recognised set subtraction" % fld, where=hd.where(st.line))
                    continue
                ok = all((u[0], u[1]) == want and u[4] == -1 for u in used)
                desc = " / ".join("%s \\ %s%s" % (nm.get(frozenset(u[0]), sorted(u[0])), nm.get(frozenset(u[1]), sorted(u[1])), "" if u[4] == -1 else " (membership test NOT negated)") for u in used)
                ck.ob("ROLE", "HpoTermDelta/" + fld, ok, "%s = %s" % (fld, desc), where=hd.where(st.line))
                okd = all(u[2] and u[3] and u[2] <= DIRECT and u[3] <= DIRECT for u in used)
                ck.ob("ROLE", "HpoTermDelta/%s/direct" % fld, okd, "%s subtracts %s from %s (both must be the DIRECT parents)" % (fld, " / ".join(str(sorted(u[3])) for u in used), " / ".join(str(sorted(u[2])) for u in used)), where=hd.where(st.line))

    # ------------------------------------------------------------------ AnnotationDelta
    ad = prog.body("ontology::comparison::AnnotationDelta::delta")
    if ck.anchor("COVER", "AnnotationDelta::delta", ad, private=True):
        agg = [s for _, s in ad.stmts() if s.k == "assign" and s.rv["k"] == "agg" and s.rv.get("adt", "").endswith("AnnotationDelta")]
        if not agg:
            ck.undecided("ROLE", "AnnotationDelta/lists", "struct construction not recognised", where=ad.where())
        else:
            st = agg[0]
            subsA = subtractions(prog, pv, pvn, ad)
            nmA = {frozenset({1}): "lhs", frozenset({2}): "rhs"}
            for fld, want in (("added_terms", ({2}, {1})), ("removed_terms", ({1}, {2}))):
                op = st.rv["ops"][st.rv["fields"].index(fld)]
                at = pvn.of_operand(ad, op)
                used = [subsA[a[4]] for a in at if a[0] == "call" and a[3] == ad.id and a[4] in subsA]
                used = [(params_of(u["A"], ad.id), params_of(u["B"], ad.id), u["pol"]) for u in used]
                used = [u for u in used if u[0] and u[1]]
                if not used:
                    ck.undecided("ROLE", "AnnotationDelta/" + fld, "%s is not built by a recognised set subtraction (difference / filter-not-contains / loop / private helper)" % fld, where=ad.where(st.line))
                    continue
                ok = all((u[0], u[1]) == want and u[2] == -1 for u in used)
                ck.ob("ROLE", "AnnotationDelta/" + fld, bool(ok), "%s = %s" % (fld, " / ".join("items of %s kept iff %s contained in %s" % (nmA.get(frozenset(u[0]), sorted(u[0])), "not" if u[2] == -1 else "(positively)", nmA.get(frozenset(u[1]), sorted(u[1]))) for u in used)), where=ad.where(st.line))
        # decision coverage
        subsA_all = subtractions(prog, pv, pvn, ad)
        got = set()
        for bi in sorted(ad.reach):
            x = ad.blocks[bi].term
            if x.k != "switch":
                continue
            at = pv.of_operand(ad, x.discr)
            for a in at:
                if a[0] == "param" and a[1] == ad.id and a[2] == 3:
                    fs = [e[1] for e in a[3] if e[0] == "f"]
                    if fs:
                        got.add("names.%s" % fs[0])
            for a in pvn.of_operand(ad, x.discr):
                if a[0] == "call" and a[3] == ad.id and a[4] in subsA_all:
                    r = params_of(subsA_all[a[4]]["A"], ad.id)
                    got.add("added" if r == {2} else "removed" if r == {1} else "?")
        need = {"added", "removed", "names.0", "names.1"}
        ck.ob("COVER", "AnnotationDelta/decision", need <= got, "the changed-decision of AnnotationDelta::delta depends on %s%s" % (sorted(got & need), "" if need <= got else "; missing %s" % sorted(need - got)), where=ad.where())
    for nm in ("gene", "disease"):
        b = prog.body("ontology::comparison::AnnotationDelta::" + nm)
        if b is None or ad is None:
            continue
        # whether a record changed is decided by AnnotationDelta::delta alone: no other exit (e.g. an `==` on the records, which
        # compares ids only) may answer "unchanged" first
        from engines import check_required_steps
        check_required_steps(ck, "COVER", prog, b, [("decide through AnnotationDelta::delta", lambda t, _ad=ad: t.callee.res == _ad.id)])
        for bi, t in b.calls():
            if t.callee.res == ad.id:
                a0 = params_of(pv.of_operand(b, t.args[0]), b.id)
                a1 = params_of(pv.of_operand(b, t.args[1]), b.id)
                n0 = params_of(pv.of_operand(b, t.args[2], (("f", "0", "tuple"),)), b.id)
                n1 = params_of(pv.of_operand(b, t.args[2], (("f", "1", "tuple"),)), b.id)
                ok = a0 == {1} and a1 == {2} and n0 == {1} and n1 == {2}
                ck.ob("ROLE", "AnnotationDelta::%s/args" % nm, ok, "AnnotationDelta::%s passes (lhs terms, rhs terms, (lhs name, rhs name))%s" % (nm, "" if ok else " in another order: %s %s %s %s" % (sorted(a0), sorted(a1), sorted(n0), sorted(n1))), where=b.where(t.line))

    # ---- accessors: a method named after a field returns that field, not a sibling of the same type
    ck.rule("GETTER", "an accessor `f()` / `f_mut()` of a struct with a field `f` (or its documented alias) derives its result from that field (DESIGN 3.9)")
    from engines import check_getters
    check_getters(ck, "GETTER", prog, r"^src/ontology/comparison\.rs$", floor=4)

    # ---- records and terms implement `==` by ID ONLY: using it inside the comparison module answers "same id", never "unchanged"
    idcmp = []
    n_cmp = 0
    for b_ in prog.production():
        if b_.file != "src/ontology/comparison.rs" or b_.kind not in ("Fn", "AssocFn", "Closure"):
            continue
        for bi_, t_ in b_.calls():
            if t_.callee.trait == "std::cmp::PartialEq" and t_.callee.method in ("eq", "ne"):
                n_cmp += 1
                ty = (t_.callee.def_args or "") + " " + (t_.callee.name or "")
                if re.search(r"<(&)*(annotations::gene::Gene|annotations::omim_disease::OmimDisease|annotations::orpha_disease::OrphaDisease|term::hpoterm::HpoTerm<[^>]*>|term::internal::HpoTermInternal) as std::cmp::PartialEq", ty):
                    idcmp.append((b_, t_))
    ck.ob("COVER", "no-identity-equality", not idcmp, "the comparison module %s" % ("never uses the id-only `==` of records / terms to decide whether something changed (%d equality calls examined)" % n_cmp if not idcmp else "compares whole records with `==` in %s (line %s): that operator looks at the id only, so two records with the same id are always 'equal'" % (idcmp[0][0].short, idcmp[0][1].line)), where=idcmp[0][0].where(idcmp[0][1].line) if idcmp else None)

    # ---- constructors: a field named like a parameter is initialised from that parameter, not from a sibling of the same type
    ck.rule("CTOR", "in a struct literal, the field `f` of a function with a parameter `f` derives from that parameter (DESIGN 3.9)")
    from engines import check_ctors
    check_ctors(ck, "CTOR", prog, r"^src/ontology/comparison\.rs$", floor=2)
    # the gene / OMIM / ORPHA variants of one operation: none does something its siblings do not
    ck.rule("KSIB", "in a group of >= 3 kind variants of one operation, no member alone has an extra selecting / truncating / error-swallowing / text-changing step or calls a crate function no sibling calls")
    from engines import check_kind_siblings
    check_kind_siblings(ck, "KSIB", prog, r"^src/ontology/comparison\.rs$", floor=1)
    # ---------------------------------------------------------------- the entry point: `old.compare(&new)` makes self the OLD side
    oc = prog.body("ontology::Ontology::compare")
    if oc is not None:
        news = [(bi, t) for bi, t in oc.calls() if (t.callee.res or "").endswith("Comparison::<'a>::new") and len(t.args) == 2]
        if len(news) != 1:
            ck.undecided("ROLE", "compare/args", "Ontology::compare does not call Comparison::new directly", where=oc.where())
        else:
            bi, t = news[0]
            a0, a1 = params_of(pvn.of_operand(oc, t.args[0]), oc.id), params_of(pvn.of_operand(oc, t.args[1]), oc.id)
            ck.ob("ROLE", "compare/args", a0 == {1} and a1 == {2}, "Ontology::compare builds Comparison::new(%s, %s) (expected (self, other): self is the old ontology, `added_*` are the items only in `other`)" % (
                "self" if a0 == {1} else "other", "other" if a1 == {2} else "self"), where=oc.where(t.line))
    cn = prog.body("ontology::comparison::Comparison::<'a>::new")
    if cn is not None:
        for pos, st in cn.stmts():
            if st.k == "assign" and st.rv["k"] == "agg" and st.rv.get("adt", "").endswith("Comparison"):
                m = {f: params_of(pvn.of_operand(cn, o), cn.id) for f, o in zip(st.rv["fields"], st.rv["ops"])}
                ck.ob("ROLE", "compare/new-fields", m.get("lhs") == {1} and m.get("rhs") == {2}, "Comparison::new stores its first argument as lhs (old) and its second as rhs (new): %s" % {k: sorted(v) for k, v in m.items()}, where=cn.where(st.line))
