"""C18 - ontology comparison (clauses: ROLE old/new in the 12 accessors, COVER decision coverage of the deltas)"""
import re
from engines import bool_polarity, kind_elements
from engines import check_complete_iteration
from prov import Prov, params_of, field_names
from props.shared import subtractions

CLAIM = ("(ROLE) every `added_X` accessor iterates the NEW ontology (rhs) and looks each item up in the OLD one (lhs), keeping it iff the lookup is none; "
         "`removed_X` the converse; `changed_X` iterates lhs, looks up rhs and builds the delta from (lhs item, rhs item); each accessor stays within its "
         "own entity kind; HpoTermDelta computes removed parents as lhs\\rhs and added parents as rhs\\lhs (as HashSet::difference or as filter-not-contains), both operands being the DIRECT parents, AnnotationDelta added terms as rhs filtered "
         "by !lhs.contains and removed terms the converse; (COVER) the 'is changed' decision of HpoTermDelta::new depends on name, parents, obsolete and "
         "replacement of BOTH sides, that of AnnotationDelta::delta on added terms, removed terms and both names.")
NOT_DECIDED = "exactness of the reported lists on all pairs of ontologies; HpoTermDelta compares RESOLVED replacement terms (two unresolvable replacement ids compare equal) - an observation, not armed."

C = "ontology::comparison::Comparison::<'a>::"
LOOKUPS = {"hpo_terms": "ontology::Ontology::hpo", "genes": "ontology::Ontology::gene", "omim_diseases": "ontology::Ontology::omim_disease", "orpha_diseases": "ontology::Ontology::orpha_disease"}
ITERS = {"hpo_terms": ("hpos", "iter"), "genes": ("genes",), "omim_diseases": ("omim_diseases",), "orpha_diseases": ("orpha_diseases",)}
KIND = {"genes": "Gene", "omim_diseases": "Omim", "orpha_diseases": "Orpha"}
OTHER = {"lhs": "rhs", "rhs": "lhs"}


def sides(atoms):
    return field_names(atoms, "Comparison") & {"lhs", "rhs"}


def run(ck, prog, ctx):
    ck.rule("ROLE", "old/new provenance at the iteration receiver, the lookup receiver and the delta constructor (DESIGN 3.4)")
    ck.rule("KIND", "accessor stays within its entity kind (DESIGN 3.3 K1)")
    ck.rule("COVER", "decision coverage: discriminants depend on every compared attribute of both sides (DESIGN 3.13 c)")
    pv = Prov(prog)
    pvn = Prov(prog, inline=False, bind_closures=False)
    pvb = Prov(prog, inline=False)
    n_acc = 0
    for ent, lookup in sorted(LOOKUPS.items()):
        for mode in ("added", "removed", "changed"):
            name = "%s_%s" % (mode, ent)
            b = prog.body(C + name)
            if not ck.anchor("ROLE", "Comparison::" + name, b):
                continue
            n_acc += 1
            it_side = "rhs" if mode == "added" else "lhs"
            lk_side = OTHER[it_side]
            fam = prog.family(b)
            # iteration receiver: the adaptor consuming the closure
            adapt = [(bi, t) for bi, t in b.calls() if t.callee.trait == "std::iter::Iterator" and t.callee.method in ("filter", "filter_map", "map", "flat_map", "find")]
            loops = [(bi, t) for bi, t in b.calls() if t.callee.trait == "std::iter::Iterator" and t.callee.method == "next"]
            # the source of the pipeline: adaptors fed by another adaptor of the same chain see derived items (pairs of both sides)
            chained = {t.dest.local for bi, t in adapt if t.dest is not None and t.dest.is_local()}
            adapt = [(bi, t) for bi, t in adapt if not (t.args and t.args[0].place is not None and t.args[0].place.is_local() and t.args[0].place.local in chained)] or adapt
            recvs = [pv.of_operand(b, t.args[0]) for bi, t in adapt] or [pv.of_operand(b, t.args[0]) for bi, t in loops]
            # the accessor only hands closures (the two lookups, the delta constructor) to ONE crate-private generic helper that does the walking:
            # which side is iterated and which probed is decided inside that helper, over closure parameters - not read by the rules of this section
            deleg_h = [(bi, t) for bi, t in b.calls() if t.callee.res in prog.bodies and prog.bodies[t.callee.res].kind in ("Fn", "AssocFn") and not prog.bodies[t.callee.res].exported and not prog.bodies[t.callee.res].reachable
                       and len([a for a in t.args if pv.closure_of_operand(b, a)]) >= 1]
            if not recvs and len(deleg_h) == 1:
                hb_ = prog.bodies[deleg_h[0][1].callee.res]
                for part in ("iterates", "looks-up", "delta"):
                    ck.undecided("ROLE", name + "/" + part, "%s hands its lookup (and delta constructor) as closures to the private helper %s and walks nothing itself: what is iterated (a cached list of ids?) and how old and new records are paired is decided there" % (name, hb_.short), where=b.where(deleg_h[0][1].line))
                continue
            if not recvs:
                ck.undecided("ROLE", name + "/iterates", "iteration not recognised", where=b.where())
            else:
                s_it = set()
                for r in recvs:
                    s_it |= sides(r)
                ck.ob("ROLE", name + "/iterates", s_it == {it_side}, "%s iterates %s (expected %s = the %s ontology)" % (name, sorted(s_it), it_side, "new" if it_side == "rhs" else "old"), where=b.where())
            # lookup receiver
            lks = [(fb, bi, t) for fb in fam for bi, t in fb.calls() if t.callee.res == lookup]
            if not lks:
                ck.undecided("ROLE", name + "/looks-up", "lookup %s not found" % lookup.rsplit("::", 1)[-1], where=b.where())
            for fb, bi, t in lks:
                s_lk = sides(pv.of_operand(fb, t.args[0]))
                ck.ob("ROLE", name + "/looks-up", s_lk == {lk_side}, "%s looks the item up in %s (expected %s)" % (name, sorted(s_lk), lk_side), where=fb.where(t.line))
                if mode != "changed":
                    pol, _ = bool_polarity(fb, pvn, lambda c: c.method in ("is_none", "is_some") and (c.impl_self or "").startswith("std::option::Option"))
                    ts = [(x, y) for x, y in fb.calls() if y.callee.method in ("then_some", "then") and "bool" in (y.callee.name or "") + (y.callee.def_args or "") and y.args]
                    if pol is None and len(ts) == 1 and fb.kind == "Closure":
                        # `filter_map(|x| other.get(x).is_none().then_some(x))`: the item is kept iff the flag is true
                        fl = pvn.of_operand(fb, ts[0][1].args[0])
                        tests = {a[1].rsplit("::", 1)[-1] for a in fl if a[0] == "call" and a[1].rsplit("::", 1)[-1] in ("is_none", "is_some")}
                        nots = len([a for a in fl if a[0] == "op" and a[1] == "Not"])
                        returned = any(a[0] == "call" and a[3] == fb.id and a[4] == ts[0][0] for a in pvn.of_local(fb, 0))
                        if len(tests) == 1 and returned and nots <= 1:
                            keeps_absent = (tests == {"is_none"}) == (nots == 0)
                            ck.ob("ROLE", name + "/keeps", keeps_absent, "%s keeps an item iff it is %s in the other ontology" % (name, "absent" if keeps_absent else "PRESENT"), where=fb.where(t.line))
                        else:
                            ck.undecided("ROLE", name + "/keeps", "predicate is not a plain is_none()/is_some()", where=fb.where(t.line))
                    elif pol is None:
                        ck.undecided("ROLE", name + "/keeps", "predicate is not a plain is_none()/is_some()", where=fb.where(t.line))
                    else:
                        m = _.callee.method
                        keeps_absent = (m == "is_none") == (pol == 1)
                        ck.ob("ROLE", name + "/keeps", keeps_absent, "%s keeps an item iff it is %s in the other ontology" % (name, "absent" if keeps_absent else "PRESENT"), where=fb.where(t.line))
                else:
                    ctors = [(fb, x, y) for x, y in fb.calls() if (y.callee.res or "").startswith("ontology::comparison::") and re.search(r"(HpoTermDelta::new|AnnotationDelta::(gene|disease))$", y.callee.res or "")]
                    if not ctors:
                        # the constructor sits in another closure of the same function (`.and_then(|new| Delta::new(old, new))`, a second adaptor)
                        ctors = [(fb2, x, y) for fb2 in fam for x, y in fb2.calls() if (y.callee.res or "").startswith("ontology::comparison::") and re.search(r"(HpoTermDelta::new|AnnotationDelta::(gene|disease))$", y.callee.res or "")]
                    if not ctors:
                        ck.undecided("ROLE", name + "/delta", "delta constructor not found", where=fb.where())
                    for cfb, x, y in ctors:
                        pvx = pvn if cfb is fb else pvb  # across closures the parameters have to be bound to what the adaptor hands them
                        a0 = pvx.of_operand(cfb, y.args[0])
                        a1 = pvx.of_operand(cfb, y.args[1])
                        if cfb is not fb and all(any(a[0] == "call" and a[1] == lookup for a in ax) and sides(ax) == {"lhs", "rhs"} for ax in (a0, a1)):
                            ck.undecided("ROLE", name + "/delta", "the delta is built in a later stage of the pipeline from a pair whose components the provenance cannot tell apart", where=cfb.where(y.line))
                            continue
                        # the first argument is the iterated item: the closure's element parameter, or (explicit loop / nested closure) a value from the iterated side only
                        item0 = ((cfb is fb and 2 in params_of(a0, fb.id)) or sides(pv.of_operand(cfb, y.args[0])) == {it_side}) and not any(a[0] == "call" and a[1] == lookup for a in a0)
                        found1 = any(a[0] == "call" and a[1] == lookup for a in a1) and 2 not in {p for p in params_of(a1, fb.id) if not any(a[0] == "call" and a[1] == lookup for a in a1)}
                        ok = item0 and any(a[0] == "call" and a[1] == lookup for a in a1)
                        ck.ob("ROLE", name + "/delta", ok, "%s builds the delta from %s" % (name, "(iterated old item, looked-up new item)" if ok else "arguments in another order than (old, new)"), where=cfb.where(y.line))
            if ent in KIND:
                els = []
                for fb in fam:
                    els += kind_elements(fb)
                foreign = [e for e in els if e[0] != KIND[ent]]
                ck.ob("KIND", "K1/" + name, not foreign, "%s %s" % (name, "uses %s only" % KIND[ent] if not foreign else "uses a %s element: %s" % (foreign[0][0], foreign[0][1])), where=b.where())
    check_complete_iteration(ck, "ROLE", prog, [C + "%s_%s" % (m, e) for m in ("added", "removed", "changed") for e in LOOKUPS] + ["ontology::comparison::AnnotationDelta::delta", "ontology::comparison::HpoTermDelta::new"], "the entities of the iterated ontology")
    # ---- sibling call sites: a private helper that is called once per annotation kind with (ids of one side, test on the other side, ..) must get
    # the SAME sides in the same argument positions at every site (`Exclusive::new(lhs ids, |id| rhs.has(id), rhs ids, |id| lhs.has(id))` for genes
    # and OMIM, but `lhs ids, |id| lhs.has(id), ..` for ORPHA: every id is known to its own ontology, nothing is ever reported)
    for hb in sorted(prog.production(), key=lambda x: x.id):
        if (hb.file or "") != "src/ontology/comparison.rs" or hb.kind not in ("Fn", "AssocFn"):
            continue
        by_callee = {}
        for bi, t in hb.calls():
            tg = prog.bodies.get(t.callee.res or "")
            if tg is not None and tg.kind in ("Fn", "AssocFn") and not tg.exported and not tg.reachable and (tg.file or "") == "src/ontology/comparison.rs" and len(t.args) >= 2:
                by_callee.setdefault(tg.id, []).append((bi, t))
        for cid, sites_ in by_callee.items():
            if len(sites_) < 3:
                continue
            def sides2(at_):
                """old / new side of a value: the Comparison field it is read from, or - in the constructor - the parameter named lhs / rhs"""
                return sides(at_) | {hb.arg_names.get(p_) for p_ in params_of(at_, hb.id) if hb.arg_names.get(p_) in ("lhs", "rhs")}
            sigs = []
            for bi, t in sites_:
                sig = []
                for a in t.args:
                    cb = prog.bodies.get(pv.closure_of_operand(hb, a) or "")
                    if cb is not None and cb.kind == "Closure":
                        sd = set()
                        for fb in prog.family(cb):
                            for _, ct in fb.calls():
                                if ct.args:
                                    sd |= sides2(pv.of_operand(fb, ct.args[0]))
                        sig.append(tuple(sorted(sd)))
                    else:
                        sig.append(tuple(sorted(sides2(pv.of_operand(hb, a)))))
                sigs.append(tuple(sig))
            common = max(set(sigs), key=sigs.count)
            # a helper that computes `one side without the other` is legitimately called in both orientations (added = new \\ old, removed =
            # old \\ new): the mirror image of the common signature is a sibling, not a deviation (which orientation feeds which accessor is
            # the ROLE rule's question); a site that names ONE side twice is neither
            sw_ = {"lhs": "rhs", "rhs": "lhs", "old": "new", "new": "old"}
            mirror = tuple(tuple(sorted(sw_.get(x, x) for x in part)) for part in common)
            odd = [(sites_[i], sg) for i, sg in enumerate(sigs) if sg != common and sg != mirror]
            if any(any(x for x in sg) for sg in sigs):
                ck.ob("KIND", "sibling-sites/%s/%s" % (hb.short, prog.bodies[cid].short), not odd, "%s calls %s %d times; the old / new sides of the arguments %s" % (hb.short, prog.bodies[cid].short, len(sites_), "agree at every site: %s" % (list(common),) if not odd else
                      "DIFFER at line %s: %s where the other sites have %s" % (odd[0][0][1].line, list(odd[0][1]), list(common))), where=hb.where(odd[0][0][1].line if odd else sites_[0][1].line))
    ck.floor("ROLE", "comparison accessors", n_acc, 12)

    # ---- the delta types' own answers: `None` means `nothing changed in this respect`, and a delta exists as soon as ONE respect changed
    ck.rule("OPTIONAL", "an Option-valued accessor of HpoTermDelta / AnnotationDelta tests the field it hands out (its emptiness, or the equality of its two components) and answers None on the empty / equal side")
    ck.rule("DECISION", "HpoTermDelta::new / AnnotationDelta::delta answer Some(..) as soon as one component test finds a difference: from the `differs` edge of every component test None is unreachable")
    from engines import check_optional_accessors, check_change_decision
    check_optional_accessors(ck, "OPTIONAL", prog, r"^src/ontology/comparison\.rs$", r"(HpoTermDelta|AnnotationDelta)$", floor=4)
    for did_, lab_ in (("ontology::comparison::HpoTermDelta::new", "HpoTermDelta::new"), ("ontology::comparison::AnnotationDelta::delta", "AnnotationDelta::delta")):
        db_ = prog.body(did_)
        if db_ is not None:
            check_change_decision(ck, "DECISION", prog, db_, lab_)

    # ------------------------------------------------------------------ HpoTermDelta::new
    hd = prog.body("ontology::comparison::HpoTermDelta::new")
    if ck.anchor("COVER", "HpoTermDelta::new", hd):
        fam = prog.family(hd)
        ACC = {"name": "name", "parents": "parents", "parent_ids": "parents", "is_obsolete": "obsolete", "replaced_by": "replacement", "replacement_id": "replacement"}
        pairs = set()
        for bi in sorted(hd.reach):
            x = hd.blocks[bi].term
            if x.k != "switch":
                continue
            dat = pv.of_operand(hd, x.discr)
            for a in dat:
                if a[0] == "call" and a[3] == hd.id and a[1].startswith("term::hpoterm::HpoTerm::") and a[1].rsplit("::", 1)[-1] in ACC:
                    t = hd.blocks[a[4]].term
                    for p in params_of(pvn.of_operand(hd, t.args[0]), hd.id):
                        pairs.add((ACC[a[1].rsplit("::", 1)[-1]], p))
                elif a[0] == "call" and a[3] != hd.id and a[3] in prog.bodies and prog.bodies[a[3]].file == hd.file and a[1].startswith("term::hpoterm::HpoTerm::") and a[1].rsplit("::", 1)[-1] in ACC:
                    # the accessor is called inside a private helper (`Self::parent_ids(&lhs)`): the sides are those the
                    # discriminant as a whole derives from
                    sides_h = set(params_of(dat, hd.id))
                    if not sides_h:
                        # sides lost through the helper's frame: take the sides the helper is called with in this function
                        for hbi, ht in hd.calls():
                            if ht.callee.res == a[3] or (ht.callee.res and a[3].startswith(ht.callee.res)):
                                for ha in ht.args:
                                    sides_h |= params_of(pvn.of_operand(hd, ha), hd.id)
                    for p in sides_h:
                        pairs.add((ACC[a[1].rsplit("::", 1)[-1]], p))
        need = {(x, p) for x in ("name", "parents", "obsolete", "replacement") for p in (1, 2)}
        miss = sorted(need - pairs)
        deleg_dec = None
        for bi in sorted(hd.reach):
            x = hd.blocks[bi].term
            if x.k == "switch":
                for a in pvn.of_operand(hd, x.discr):
                    if a[0] == "call" and a[3] == hd.id and a[1] in prog.bodies and prog.bodies[a[1]].file == hd.file and not (prog.bodies[a[1]].exported or prog.bodies[a[1]].reachable or prog.bodies[a[1]].impl_trait):
                        deleg_dec = prog.bodies[a[1]]
        if miss and deleg_dec is not None:
            ck.undecided("COVER", "HpoTermDelta/decision", "HpoTermDelta::new lets the private %s decide on the value it has built: which of the eight (attribute, side) pairs that decision looks at is not traced through the struct" % deleg_dec.short, where=hd.where())
        else:
            ck.ob("COVER", "HpoTermDelta/decision", not miss, "the changed-decision of HpoTermDelta::new depends on %d/8 (attribute, side) pairs%s" % (len(need & pairs), "" if not miss else "; missing: %s" % [(a, "lhs" if p == 1 else "rhs") for a, p in miss]), where=hd.where())
        # each scalar attribute is compared for (in)equality between the two sides: old value vs new value
        cmps = []
        pv_c = Prov(prog, inline=False)
        for bi, t in hd.calls():
            if t.callee.trait in ("std::cmp::PartialEq", "std::cmp::Ord", "std::cmp::PartialOrd") and t.callee.method in ("eq", "ne", "cmp", "partial_cmp") and len(t.args) == 2:
                cmps.append((t.line, t.args[0], t.args[1]))
        for pos, st in hd.stmts():
            if st.k == "assign" and st.rv["k"] == "bin" and st.rv["op"] in ("Eq", "Ne"):
                cmps.append((st.line, st.rv["l"], st.rv["r"]))
        # a private helper that compares the two halves of a pair (`if_different(&(old, new))` does `pair.0 != pair.1`): the call compares
        # what the pair's components derive from
        pair_cmp = {}
        for hb_ in prog.production():
            if hb_.kind not in ("Fn", "AssocFn") or hb_.file != hd.file or hb_.exported or hb_.reachable or hb_.impl_trait or hb_.natural_loops():
                continue
            for _, ht in hb_.calls():
                if ht.callee.trait == "std::cmp::PartialEq" and ht.callee.method in ("eq", "ne") and len(ht.args) == 2:
                    comp = []
                    for o_ in ht.args:
                        src = set()
                        for kind_, pos_, d_ in pv_c.defs(hb_).get(o_.place.local, []) if o_.place is not None and o_.place.is_local() else []:
                            if kind_ == "assign" and d_.rv["k"] == "ref":
                                fs = [e for e in d_.rv["place"].fields() if e != "*"]
                                if len(fs) == 1 and fs[0][0] == "f" and 1 <= d_.rv["place"].local <= len(hb_.arg_names):
                                    src.add((d_.rv["place"].local, fs[0][1]))
                        comp.append(src)
                    if len(comp[0]) == 1 and len(comp[1]) == 1:
                        (p0, f0), (p1, f1) = next(iter(comp[0])), next(iter(comp[1]))
                        if p0 == p1 and {f0, f1} == {"0", "1"}:
                            pair_cmp[hb_.id] = p0
        seen_attr = {}
        for bi, t in hd.calls():
            pp = pair_cmp.get(t.callee.res or "")
            if pp is not None and pp - 1 < len(t.args):
                la, ra = pv_c.of_operand(hd, t.args[pp - 1], (("f", "0", "tuple"),)), pv_c.of_operand(hd, t.args[pp - 1], (("f", "1", "tuple"),))
                lp, rp = params_of(la, hd.id), params_of(ra, hd.id)
                at_l = {ACC[a[1].rsplit("::", 1)[-1]] for a in la if a[0] == "call" and a[1].startswith("term::hpoterm::HpoTerm::") and a[1].rsplit("::", 1)[-1] in ACC}
                at_r = {ACC[a[1].rsplit("::", 1)[-1]] for a in ra if a[0] == "call" and a[1].startswith("term::hpoterm::HpoTerm::") and a[1].rsplit("::", 1)[-1] in ACC}
                for x in at_l & at_r:
                    if {frozenset(lp), frozenset(rp)} == {frozenset({1}), frozenset({2})}:
                        seen_attr[x] = t.line
        for line, lo, ro in cmps:
            la, ra = pv_c.of_operand(hd, lo), pv_c.of_operand(hd, ro)

            def attrs(at):
                return {ACC[a[1].rsplit("::", 1)[-1]] for a in at if a[0] == "call" and a[1].startswith("term::hpoterm::HpoTerm::") and a[1].rsplit("::", 1)[-1] in ACC}
            lp, rp = params_of(la, hd.id), params_of(ra, hd.id)
            for x in attrs(la) & attrs(ra):
                if {frozenset(lp), frozenset(rp)} == {frozenset({1}), frozenset({2})}:
                    seen_attr[x] = line
        for x in ("name", "obsolete", "replacement"):
            if x not in seen_attr and deleg_dec is not None:
                ck.undecided("COVER", "HpoTermDelta/compares/" + x, "the comparison of the old and the new %s is not in HpoTermDelta::new itself (the private %s decides on the built value)" % (x, deleg_dec.short), where=hd.where())
                continue
            ck.ob("COVER", "HpoTermDelta/compares/" + x, x in seen_attr, "HpoTermDelta::new %s" % (("compares the old and the new %s for equality" % x) if x in seen_attr else ("never compares the old %s with the new %s for equality: a term whose %s changed from one value to another is not reported" % (x, x, x))), where=hd.where(seen_attr.get(x)))
        agg = [s for _, s in hd.stmts() if s.k == "assign" and s.rv["k"] == "agg" and s.rv.get("adt", "").endswith("HpoTermDelta")]
        DIRECT = {"parents", "parent_ids"}

        def acc_of(atoms):
            return {a[1].rsplit("::", 1)[-1] for a in atoms if a[0] == "call" and a[1].startswith("term::hpoterm::HpoTerm::")} - {"id"}

        # accepted forms of a set subtraction A \\ B: see props/shared.py subtractions()
        subs = {}
        for k_, v_ in subtractions(prog, pv, pvn, hd).items():
            pa_, pb_ = params_of(v_["A"], hd.id), params_of(v_["B"], hd.id)
            if pa_ and pb_:
                subs[k_] = (pa_, pb_, acc_of(v_["A"]), acc_of(v_["B"]), v_["pol"])
        if not subs or not agg:
            ck.undecided("ROLE", "HpoTermDelta/parents", "set subtraction (difference / filter-not-contains) or struct construction not recognised", where=hd.where())
        else:
            st = agg[0]
            nm = {frozenset({1}): "lhs", frozenset({2}): "rhs"}
            for fld, want in (("removed_parents", ({1}, {2})), ("added_parents", ({2}, {1}))):
                if fld not in st.rv["fields"]:
                    ck.undecided("ROLE", "HpoTermDelta/" + fld, "the private field `%s` is not part of the struct literal (another private representation of the delta): what the public getter of that name hands out is not traced" % fld, where=(hd if "HpoTermDelta" == "HpoTermDelta" else ad).where(st.line))
                    continue
                op = st.rv["ops"][st.rv["fields"].index(fld)]
                at = pvn.of_operand(hd, op)
                used = [subs[a[4]] for a in at if a[0] == "call" and a[3] == hd.id and a[4] in subs]
                if not used:
                    ck.undecided("ROLE", "HpoTermDelta/" + fld, "%s is not built by a recognised set subtraction" % fld, where=hd.where(st.line))
                    continue
                ok = all((u[0], u[1]) == want and u[4] == -1 for u in used)
                desc = " / ".join("%s \\ %s%s" % (nm.get(frozenset(u[0]), sorted(u[0])), nm.get(frozenset(u[1]), sorted(u[1])), "" if u[4] == -1 else " (membership test NOT negated)") for u in used)
                ck.ob("ROLE", "HpoTermDelta/" + fld, ok, "%s = %s" % (fld, desc), where=hd.where(st.line))
                okd = all(u[2] and u[3] and u[2] <= DIRECT and u[3] <= DIRECT for u in used)
                ck.ob("ROLE", "HpoTermDelta/%s/direct" % fld, okd, "%s subtracts %s from %s (both must be the DIRECT parents)" % (fld, " / ".join(str(sorted(u[3])) for u in used), " / ".join(str(sorted(u[2])) for u in used)), where=hd.where(st.line))

    # ------------------------------------------------------------------ AnnotationDelta
    # `delta` is private: which of its parameters (or tuple components) carries the OLD / NEW name and term list is read off its callers
    ad = prog.body("ontology::comparison::AnnotationDelta::delta")
    SIDE = {1: "lhs", 2: "rhs"}
    role_maps = {}
    for nm in ("gene", "disease"):
        b = prog.body("ontology::comparison::AnnotationDelta::" + nm)
        if b is None or ad is None:
            continue
        # whether a record changed is decided by AnnotationDelta::delta alone: no other exit (e.g. an `==` on the records, which
        # compares ids only) may answer "unchanged" first
        from engines import check_required_steps
        check_required_steps(ck, "COVER", prog, b, [("decide through AnnotationDelta::delta", lambda t, _ad=ad: t.callee.res == _ad.id)])
        for bi, t in b.calls():
            if t.callee.res != ad.id:
                continue
            rm = {}
            for i, a in enumerate(t.args):
                is_tuple = a.place is not None and a.place.is_local() and str(b.locals[a.place.local].get("s", "")).startswith("(")
                # a private struct built here and handed over (by value or by reference): its fields are the components
                struct_ops = None
                if not is_tuple and a.place is not None and a.place.is_local():
                    l_ = a.place.local
                    for _hop in range(4):
                        ds_ = pvn.defs(b).get(l_, [])
                        if len(ds_) != 1 or ds_[0][0] != "assign":
                            break
                        d_ = ds_[0][2]
                        if d_.rv["k"] == "agg" and d_.rv.get("agg") == "adt" and d_.rv.get("fields"):
                            struct_ops = list(zip(d_.rv["fields"], d_.rv["ops"]))
                            break
                        if d_.rv["k"] == "ref":
                            l_ = d_.rv["place"].local
                        elif d_.rv["k"] == "use" and d_.rv["op"].place is not None:
                            l_ = d_.rv["op"].place.local
                        else:
                            break
                if struct_ops is not None:
                    for fname, fop in struct_ops:
                        at = pv.of_operand(b, fop)
                        sds = params_of(at, b.id)
                        attrs = {x[1].rsplit("::", 1)[-1] for x in at if x[0] == "call" and x[3] == b.id and x[1].rsplit("::", 1)[-1] in ("name", "hpo_terms", "id")}
                        if sds and attrs:
                            rm[(i + 1, fname)] = (frozenset(sds), frozenset(attrs))
                    continue
                for comp in (("0", "1", "2") if is_tuple else (None,)):
                    at = pv.of_operand(b, a, (("f", comp, "tuple"),)) if comp is not None else pv.of_operand(b, a)
                    sds = params_of(at, b.id)
                    attrs = {x[1].rsplit("::", 1)[-1] for x in at if x[0] == "call" and x[3] == b.id and x[1].rsplit("::", 1)[-1] in ("name", "hpo_terms", "id")}
                    # trait methods called on a type parameter (`D::name`) keep their trait path
                    if sds and attrs:
                        rm[(i + 1, comp)] = (frozenset(sds), frozenset(attrs))
            role_maps[nm] = rm
            have = {}
            for key, (sd, at_) in rm.items():
                if len(sd) == 1 and len(at_) == 1 and next(iter(at_)) in ("name", "hpo_terms"):
                    have.setdefault((next(iter(sd)), next(iter(at_))), []).append(key)
            want = [(1, "name"), (2, "name"), (1, "hpo_terms"), (2, "hpo_terms")]
            ok = all(len(have.get(w, [])) == 1 for w in want)
            mixed = [k for k, (sd, at_) in rm.items() if len(sd) > 1 and at_ & {"name", "hpo_terms"}]
            ck.ob("ROLE", "AnnotationDelta::%s/args" % nm, ok and not mixed, "AnnotationDelta::%s hands delta %s%s" % (nm, ", ".join("%s.%s as %s" % (SIDE[w[0]], w[1], "/".join("arg %d%s" % (k[0], "" if k[1] is None else "." + k[1]) for k in have.get(w, [])) or "NOTHING") for w in want), "" if not mixed else "; an argument mixes both sides: %s" % mixed), where=b.where(t.line))
    if len(role_maps) == 2:
        ck.ob("ROLE", "AnnotationDelta/callers-agree", role_maps["gene"] == role_maps["disease"], "gene() and disease() hand their (old, new) data to delta in %s" % ("the same positions" if role_maps["gene"] == role_maps["disease"] else "DIFFERENT positions"))
    role_of = {}
    for rm in role_maps.values():
        for key, (sd, at_) in rm.items():
            if len(sd) == 1 and len(at_) == 1:
                role_of[key] = (next(iter(sd)), next(iter(at_)))

    def roles(atoms):
        """(side, attribute) pairs that atoms of `delta` derive from"""
        out = set()
        for a in atoms:
            if a[0] == "param" and ad is not None and a[1] == ad.id:
                fs = [e[1] for e in a[3] if e[0] == "f"]
                r = role_of.get((a[2], fs[0] if fs else None)) or role_of.get((a[2], None))
                if r is not None:
                    out.add(r)
        return out
    if ck.anchor("COVER", "AnnotationDelta::delta", ad, private=True):
        agg = [s_ for _, s_ in ad.stmts() if s_.k == "assign" and s_.rv["k"] == "agg" and s_.rv.get("adt", "").endswith("AnnotationDelta")]
        if not role_of:
            ck.undecided("ROLE", "AnnotationDelta/lists", "the callers of delta were not recognised: old / new roles of its parameters unknown", where=ad.where())
        elif not agg:
            ck.undecided("ROLE", "AnnotationDelta/lists", "struct construction not recognised", where=ad.where())
        else:
            st = agg[0]
            subsA = subtractions(prog, pv, pvn, ad)
            for fld, want in (("added_terms", (2, 1)), ("removed_terms", (1, 2))):
                if fld not in st.rv["fields"]:
                    ck.undecided("ROLE", "AnnotationDelta/" + fld, "the private field `%s` is not part of the struct literal (another private representation of the delta): what the public getter of that name hands out is not traced" % fld, where=(hd if "AnnotationDelta" == "HpoTermDelta" else ad).where(st.line))
                    continue
                op = st.rv["ops"][st.rv["fields"].index(fld)]
                at = pvn.of_operand(ad, op)
                used = [subsA[a[4]] for a in at if a[0] == "call" and a[3] == ad.id and a[4] in subsA]
                used = [(roles(u["A"]), roles(u["B"]), u["pol"]) for u in used]
                used = [u for u in used if u[0] and u[1]]
                if not used:
                    ck.undecided("ROLE", "AnnotationDelta/" + fld, "%s is not built by a recognised set subtraction (difference / filter-not-contains / loop / private helper)" % fld, where=ad.where(st.line))
                    continue
                ok = all(u[0] == {(want[0], "hpo_terms")} and u[1] == {(want[1], "hpo_terms")} and u[2] == -1 for u in used)
                ck.ob("ROLE", "AnnotationDelta/" + fld, bool(ok), "%s = %s" % (fld, " / ".join("items of %s kept iff %s contained in %s" % ("+".join("%s.%s" % (SIDE[x[0]], x[1]) for x in sorted(u[0])), "not" if u[2] == -1 else "(positively)", "+".join("%s.%s" % (SIDE[x[0]], x[1]) for x in sorted(u[1]))) for u in used)), where=ad.where(st.line))
        # the stored pairs are (old, new): `changed_name()` / `n_terms()` hand them out in that order
        if role_of and agg:
            st = agg[0]
            for fld, attr in (("names", "name"), ("n_terms", "hpo_terms")):
                if fld not in st.rv["fields"]:
                    continue
                if fld not in st.rv["fields"]:
                    ck.undecided("ROLE", "AnnotationDelta/" + fld, "the private field `%s` is not part of the struct literal (another private representation of the delta): what the public getter of that name hands out is not traced" % fld, where=(hd if "AnnotationDelta" == "HpoTermDelta" else ad).where(st.line))
                    continue
                op = st.rv["ops"][st.rv["fields"].index(fld)]
                r0, r1 = roles(pv.of_operand(ad, op, (("f", "0", "tuple"),))), roles(pv.of_operand(ad, op, (("f", "1", "tuple"),)))
                if not r0 or not r1:
                    ck.undecided("ROLE", "AnnotationDelta/%s-order" % fld, "what the two halves of `%s` derive from is not recognised" % fld, where=ad.where(st.line))
                    continue
                ok = r0 == {(1, attr)} and r1 == {(2, attr)}
                ck.ob("ROLE", "AnnotationDelta/%s-order" % fld, ok, "the field `%s` is (%s, %s) - expected (old, new)" % (fld, "+".join("%s.%s" % (SIDE[x[0]], x[1]) for x in sorted(r0)), "+".join("%s.%s" % (SIDE[x[0]], x[1]) for x in sorted(r1))), where=ad.where(st.line))
        # decision coverage
        if role_of:
            subsA_all = subtractions(prog, pv, pvn, ad)
            got = set()
            for bi in sorted(ad.reach):
                x = ad.blocks[bi].term
                if x.k != "switch":
                    continue
                for sd, at_ in roles(pv.of_operand(ad, x.discr)):
                    if at_ == "name":
                        got.add("names.%d" % (sd - 1))
                for a in pvn.of_operand(ad, x.discr):
                    if a[0] == "call" and a[3] == ad.id and a[4] in subsA_all:
                        r = {sd for sd, at_ in roles(subsA_all[a[4]]["A"])}
                        got.add("added" if r == {2} else "removed" if r == {1} else "?")
            need = {"added", "removed", "names.0", "names.1"}
            opaque = []
            for bi in sorted(ad.reach):
                x = ad.blocks[bi].term
                if x.k == "switch":
                    for a in pvn.of_operand(ad, x.discr):
                        if a[0] == "call" and a[3] == ad.id and a[4] not in subsA_all and a[1] in prog.bodies and prog.bodies[a[1]].file == ad.file and not (prog.bodies[a[1]].exported or prog.bodies[a[1]].reachable or prog.bodies[a[1]].impl_trait):
                            opaque.append(prog.bodies[a[1]].short)
            if not (need <= got) and opaque and {"names.0", "names.1"} <= got:
                ck.undecided("COVER", "AnnotationDelta/decision", "the changed-decision of AnnotationDelta::delta looks at the names and at the result of the private %s: whether that covers the added AND the removed terms is not traced" % opaque[0], where=ad.where())
            else:
                ck.ob("COVER", "AnnotationDelta/decision", need <= got, "the changed-decision of AnnotationDelta::delta depends on %s%s" % (sorted(got & need), "" if need <= got else "; missing %s" % sorted(need - got)), where=ad.where())

    # ---- accessors: a method named after a field returns that field, not a sibling of the same type
    ck.rule("GETTER", "an accessor `f()` / `f_mut()` of a struct with a field `f` (or its documented alias) derives its result from that field (DESIGN 3.9)")
    from engines import check_getters
    check_getters(ck, "GETTER", prog, r"^src/ontology/comparison\.rs$", floor=4)

    # ---- records and terms implement `==` by ID ONLY: using it inside the comparison module answers "same id", never "unchanged"
    idcmp = []
    n_cmp = 0
    for b_ in prog.production():
        if b_.file != "src/ontology/comparison.rs" or b_.kind not in ("Fn", "AssocFn", "Closure"):
            continue
        for bi_, t_ in b_.calls():
            if t_.callee.trait == "std::cmp::PartialEq" and t_.callee.method in ("eq", "ne"):
                n_cmp += 1
                ty = (t_.callee.def_args or "") + " " + (t_.callee.name or "")
                if re.search(r"<(&)*(annotations::gene::Gene|annotations::omim_disease::OmimDisease|annotations::orpha_disease::OrphaDisease|term::hpoterm::HpoTerm<[^>]*>|term::internal::HpoTermInternal) as std::cmp::PartialEq", ty):
                    idcmp.append((b_, t_))
    ck.ob("COVER", "no-identity-equality", not idcmp, "the comparison module %s" % ("never uses the id-only `==` of records / terms to decide whether something changed (%d equality calls examined)" % n_cmp if not idcmp else "compares whole records with `==` in %s (line %s): that operator looks at the id only, so two records with the same id are always 'equal'" % (idcmp[0][0].short, idcmp[0][1].line)), where=idcmp[0][0].where(idcmp[0][1].line) if idcmp else None)

    # ---- constructors: a field named like a parameter is initialised from that parameter, not from a sibling of the same type
    ck.rule("CTOR", "in a struct literal, the field `f` of a function with a parameter `f` derives from that parameter (DESIGN 3.9)")
    from engines import check_ctors
    check_ctors(ck, "CTOR", prog, r"^src/ontology/comparison\.rs$", floor=2)
    # the gene / OMIM / ORPHA variants of one operation: none does something its siblings do not
    ck.rule("KSIB", "in a group of >= 3 kind variants of one operation, no member alone has an extra selecting / truncating / error-swallowing / text-changing step or calls a crate function no sibling calls")
    from engines import check_kind_siblings
    check_kind_siblings(ck, "KSIB", prog, r"^src/ontology/comparison\.rs$", floor=1)
    # ---------------------------------------------------------------- the entry point: `old.compare(&new)` makes self the OLD side
    oc = prog.body("ontology::Ontology::compare")
    if oc is not None:
        news = [(bi, t) for bi, t in oc.calls() if (t.callee.res or "").endswith("Comparison::<'a>::new") and len(t.args) == 2]
        if len(news) != 1:
            ck.undecided("ROLE", "compare/args", "Ontology::compare does not call Comparison::new directly", where=oc.where())
        else:
            bi, t = news[0]
            a0, a1 = params_of(pvn.of_operand(oc, t.args[0]), oc.id), params_of(pvn.of_operand(oc, t.args[1]), oc.id)
            ck.ob("ROLE", "compare/args", a0 == {1} and a1 == {2}, "Ontology::compare builds Comparison::new(%s, %s) (expected (self, other): self is the old ontology, `added_*` are the items only in `other`)" % (
                "self" if a0 == {1} else "other", "other" if a1 == {2} else "self"), where=oc.where(t.line))
    cn = prog.body("ontology::comparison::Comparison::<'a>::new")
    if cn is not None:
        for pos, st in cn.stmts():
            if st.k == "assign" and st.rv["k"] == "agg" and st.rv.get("adt", "").endswith("Comparison"):
                m = {f: params_of(pvn.of_operand(cn, o), cn.id) for f, o in zip(st.rv["fields"], st.rv["ops"])}
                ck.ob("ROLE", "compare/new-fields", m.get("lhs") == {1} and m.get("rhs") == {2}, "Comparison::new stores its first argument as lhs (old) and its second as rhs (new): %s" % {k: sorted(v) for k, v in m.items()}, where=cn.where(st.line))
