"""C15 - rejected builder calls have no effect (clauses: ATOMIC B1/B2; WIT in the thorough tier)"""
import re
from engines import Atomic
from prov import Prov

CLAIM = ("(ATOMIC B1) in every public `&mut self` method of Builder<_> that returns HpoResult, every mutation of builder storage is "
         "dominated by a validation edge (non-error out-edge of a branch on the result of an arena lookup) for every caller-supplied id "
         "that reaches an arena access below that method, or is a call of a crate function that itself validates that id before it mutates; "
         "(ATOMIC B2) an unchecked arena access (which silently yields the placeholder term for an absent id) never sees a caller-supplied "
         "id that was not validated first; (WIT, thorough tier) out-of-order Builder calls do not type-check.")
NOT_DECIDED = ("that no accessor panics on every built ontology and that the result equals the ontology built from the successful calls alone "
               "(observational equality is a statement about runtime state); error exits of the recursive propagation after validation are assumed "
               "infeasible for ontologies built through the public API (all stored parent ids resolve: that is B1+B2 applied to add_parent).")

BUILDER = "ontology::builder::Builder"
ARENA = "ontology::termarena::Arena"
EXPECTED = ["add_parent", "annotate_gene", "annotate_omim_disease", "annotate_orpha_disease"]


def is_lookup(c):
    n = c.res or c.deff or ""
    return n in (ARENA + "::get", ARENA + "::get_mut")


def is_unchecked(c):
    n = c.res or c.deff or ""
    return n in (ARENA + "::get_unchecked", ARENA + "::get_unchecked_mut")


def fallible_mut_methods(prog):
    out = []
    for b in prog.production():
        if b.kind != "AssocFn" or not b.impl_self or b.impl_self.get("adt") != BUILDER or b.impl_trait:
            continue
        if not b.reachable or b.vis != "pub":
            continue
        sig = b.sig or ""
        if not re.search(r"fn\(&'?\w* ?mut ", sig):
            continue
        if "-> std::result::Result<" not in sig:
            continue
        out.append(b)
    return out


def run(ck, prog, ctx):
    ck.rule("ATOMIC", "validate-before-mutate on public fallible &mut self Builder methods; unchecked-access discipline (DESIGN 3.2)")
    ms = fallible_mut_methods(prog)
    names = sorted(b.name for b in ms)
    for e in EXPECTED:
        ck.anchor("ATOMIC", "Builder::" + e, [b for b in ms if b.name == e])
    ck.floor("ATOMIC", "public fallible &mut self Builder methods", len(ms), 4)
    at = Atomic(prog, is_lookup, is_unchecked)
    # structural sanity of the arena accessors the rule relies on
    for n in ("get", "get_mut", "get_unchecked", "get_unchecked_mut"):
        ck.anchor("ATOMIC", "Arena::" + n + " (private helper the rule is phrased over)", prog.body(ARENA + "::" + n), private=True)
    # the validation rejects what is ABSENT: an error result that stands behind a lookup of a caller-supplied id stands on the lookup's None
    # edge.  (`if self.hpo_terms.get(id).is_some() { return Err(DoesNotExist) }` rejects every valid call and lets the invalid ones through
    # to the unchecked accesses.)
    from engines import positive_edges as _pe15, error_blocks as _eb15
    from prov import Prov as _Prov15
    pv15 = _Prov15(prog, inline=False)
    for m in sorted(ms, key=lambda b: b.id):
        errs_ = _eb15(m)
        for lbi, lt in m.calls():
            if not is_lookup(lt.callee) or lt.dest is None:
                continue
            pos_ = set(_pe15(m, pv15, lbi))
            sw_ = {e_[0] for e_ in pos_}
            neg_ = {(sb_, tg_) for sb_ in sw_ for tg_ in m.succ[sb_] if (sb_, tg_) not in pos_}
            if not pos_:
                continue
            def fails_(edges_):
                for (sb_, tg_) in edges_:
                    seen_, work_ = set(), [tg_]
                    straight = True
                    while work_:
                        y_ = work_.pop()
                        if y_ in seen_:
                            continue
                        seen_.add(y_)
                        if y_ in errs_:
                            return True
                        if len(m.succ[y_]) == 1 and len(seen_) < 6:
                            work_.extend(m.succ[y_])
                return False
            on_found, on_absent = fails_(pos_), fails_(neg_)
            if on_found or on_absent:
                ck.ob("ATOMIC", "validation-polarity/%s/%d" % (m.short, lbi), on_absent and not on_found, "%s answers with an error %s" % (m.short, "when the looked-up id is absent" if on_absent and not on_found else
                      "when the looked-up id IS PRESENT (and goes on when it is absent): valid calls are rejected, invalid ones reach the unchecked accesses"), where=m.where(lt.line))
    for m in sorted(ms, key=lambda b: b.id):
        P, sites, results = at.check_method(m)
        pnames = {p: m.local_name(p) for p in P}
        if not P:
            ck.ob("ATOMIC", "B1/%s" % m.short, True, "no caller-supplied id reaches an arena access below %s (%d mutation site(s))" % (m.short, len(sites)), where=m.where())
            continue
        bad = 0
        cnt = {}
        for r in results:
            s = r["site"]
            what = s["callee"].method if s.get("callee") is not None else "assign"
            base = "B1/%s/%s/%s" % (m.short, what, pnames[r["param"]])
            n = cnt.get(base, 0)
            cnt[base] = n + 1
            key = "%s/%d" % (base, n)
            if r["ok"] is True:
                ck.ob("ATOMIC", key, True, "%s: mutation via %s is preceded by the validation of `%s` (%s)" % (m.short, what, pnames[r["param"]], r["reason"]), where=m.where(s["line"]))
            else:
                bad += 1
                ck.violation("ATOMIC", key,
                             "%s: mutation via %s precedes validation of parameter `%s`: a call that returns Err leaves the builder changed" % (m.short, s["what"].replace("call of ", ""), pnames[r["param"]]),
                             where=m.where(s["line"]))
        for r in at.check_unchecked(m):
            u = r["acc"]
            key = "B2/%s/%s/%s" % (m.short, u["callee"].method, pnames.get(u["param"], u["param"]))
            ck.ob("ATOMIC", key, r["ok"], "%s reaches the unchecked arena access %s with caller id `%s` %s" % (m.short, u["callee"].method, pnames.get(u["param"], u["param"]), "after validating it" if r["ok"] else "without validating it first (an absent id silently yields the placeholder term)"), where=u["body"].where(u["line"]))
    ck.extra["methods"] = names
    ck.assume("error exits of the recursive annotation propagation after the ids were validated are infeasible for builders fed through the public API")
    ck.assume("std mutator / non-mutator tables of DESIGN 3.0")
    # failures of fallible crate functions are propagated or asserted, never turned into success
    ck.rule("ERR", "every call of a crate function returning Result<_, HpoError> propagates the error (`?` / return / match), panics on it (unwrap / expect), or is a listed documented exception; none replaces it by a default")
    from engines import check_error_discipline
    check_error_discipline(ck, "ERR", prog, r"^src/ontology/builder\.rs$", allowed=[(r"^Ontology::hpo$", r"try_new$", "documented: Ontology::hpo answers None for an id that is not in the ontology")], floor=5)
