"""rule instances shared by several properties"""
import re
from prov import field_names

TERM_OWNERS = ("HpoTerm", "HpoTermInternal")


def term_fields(atoms):
    out = set()
    for o in TERM_OWNERS:
        out |= field_names(atoms, "::" + o)
    return out


def membership_sites(prog, pv, pv_local=None):
    """sites where a root set of the ontology (Ontology.modifier / Ontology.categories) is tested against the
    ancestor set of a term: calls of HpoGroup::contains / `&` with one operand from each side.
    returns list of dict(body, term, root (modifier|categories), inclusive(bool), fields)"""
    out = []
    for b in prog.production():
        if b.kind not in ("Fn", "AssocFn", "Closure"):
            continue
        for bi, t in b.calls():
            c = t.callee
            is_contains = c.res == "term::group::HpoGroup::contains"
            is_and = c.trait == "std::ops::BitAnd" and "HpoGroup" in (c.def_args or "")
            if not (is_contains or is_and) or len(t.args) != 2:
                continue
            sides = [pv.of_operand(b, a) for a in t.args]
            # the term side is sliced locally (no closure-parameter binding, no flow through mutated containers):
            # the union with the term's own id has to be visible between the read of all_parents and the test
            lsides = [pv_local.of_operand(b, a) for a in t.args] if pv_local is not None else sides
            roots = [field_names(s, "::Ontology") & {"modifier", "categories"} for s in sides]
            tsets = ["all_parents" in term_fields(s) for s in lsides]
            for i in (0, 1):
                j = 1 - i
                if roots[i] and tsets[j] and not roots[j]:
                    tf = term_fields(lsides[j])
                    out.append({"body": b, "term": t, "root": sorted(roots[i])[0], "inclusive": "id" in tf, "fields": sorted(tf & {"all_parents", "parents", "id", "children"})})
                    break
    return out
