"""rule instances shared by several properties"""
import re
from prov import field_names

TERM_OWNERS = ("HpoTerm", "HpoTermInternal")


def term_fields(atoms):
    out = set()
    for o in TERM_OWNERS:
        out |= field_names(atoms, "::" + o)
    return out


def membership_sites(prog, pv, pv_local=None):
    """sites where a root set of the ontology (Ontology.modifier / Ontology.categories) is tested against the
    ancestor set of a term: calls of HpoGroup::contains / `&` with one operand from each side.
    returns list of dict(body, term, root (modifier|categories), inclusive(bool), fields)"""
    out = []
    # the root sets are the fields the PUBLIC accessors Ontology::modifier() / Ontology::categories() hand out (whatever they are called)
    role_of = {"modifier": "modifier", "categories": "categories"}
    for role in ("modifier", "categories"):
        ab = prog.body("ontology::Ontology::" + role)
        if ab is not None:
            for a in pv.of_return(ab):
                if a[0] == "field" and a[1].endswith("::Ontology"):
                    role_of[a[2]] = role

    def root_roles(atoms):
        return {role_of[f] for f in field_names(atoms, "::Ontology") if f in role_of}
    for b in prog.production():
        if b.kind not in ("Fn", "AssocFn", "Closure"):
            continue
        for bi, t in b.calls():
            c = t.callee
            is_contains = c.res == "term::group::HpoGroup::contains"
            is_and = c.trait == "std::ops::BitAnd" and "HpoGroup" in (c.def_args or "")
            if not (is_contains or is_and) or len(t.args) != 2:
                continue
            # (a private helper `fn is_or_descends_from(&self, root)` receives the root as a parameter: follow it to the call sites)
            sides = [pv.through_callers(pv.of_operand(b, a)) for a in t.args]
            # the term side is sliced locally (no closure-parameter binding, no flow through mutated containers):
            # the union with the term's own id has to be visible between the read of all_parents and the test
            lsides = [pv_local.of_operand(b, a) for a in t.args] if pv_local is not None else sides
            roots = [root_roles(s) for s in sides]
            tsets = [bool(term_fields(s) & {"all_parents", "parents"}) for s in lsides]  # (the DIRECT parents where the closure is meant: a site, judged below)
            for i in (0, 1):
                j = 1 - i
                if roots[i] and tsets[j] and not roots[j]:
                    tf = term_fields(lsides[j])
                    incl = "id" in tf
                    closure_read = "all_parents" in tf
                    fields = sorted(tf & {"all_parents", "parents", "id", "children"})
                    if not incl:
                        # the term's own id tested separately:  `root == term.id() || term.all_parents().contains(&root)`
                        for ebi, et in b.calls():
                            if et.callee.trait == "std::cmp::PartialEq" and et.callee.method in ("eq", "ne") and len(et.args) == 2:
                                es = [pv.through_callers(pv.of_operand(b, a)) for a in et.args]
                                er = [root_roles(x) for x in es]
                                ei = ["id" in term_fields(x) for x in (pv_local.of_operand(b, a) if pv_local is not None else pv.of_operand(b, a) for a in et.args)]
                                if (er[0] and ei[1]) or (er[1] and ei[0]):
                                    incl = True
                                    fields = sorted(set(fields) | {"id (compared separately)"})
                    out.append({"body": b, "term": t, "root": sorted(roots[i])[0], "inclusive": incl and closure_read, "fields": fields})
                    break
    return out


def path_reduction_key(ck, rule, prog, pv, reds):
    """HpoTerm::path_to_ancestor (C11, C14): the candidates are whole paths (Vec<HpoTermId>), so the reduction must compare their
    LENGTHS.  A plain min()/max() on paths compares them lexicographically id by id (seeded C14r2)."""
    # the candidates are whole paths (Vec<HpoTermId>): the reduction must compare their LENGTHS.  A plain min()/max() on paths
    # compares them lexicographically id by id (seeded C14r2).
    for fb, bi, t in reds:
        m = t.callee.method
        if m in ("min", "max"):
            dty = fb.locals[t.dest.local]["s"] if t.dest is not None else ""
            if "Vec<" in dty:
                ck.ob(rule, "path_to_ancestor/key", False, "path_to_ancestor reduces whole paths with plain %s(): paths are compared lexicographically id by id, not by length, so a longer chain through a smaller id wins" % m, where=fb.where(t.line))
            else:
                ck.ob(rule, "path_to_ancestor/key", True, "path_to_ancestor reduces scalars with %s()" % m, where=fb.where(t.line))
        elif m == "min_by_key":
            ok = any(a.kind == "const" and re.search(r"::len$", a.const.get("fn") or "") for a in t.args[1:])
            if not ok and len(t.args) > 1:
                cb = prog.bodies.get(pv.closure_of_operand(fb, t.args[1]))
                if cb is not None:
                    ok = any(ct.callee.method == "len" for _, ct in cb.calls()) or any(st.k == "assign" and st.rv["k"] in ("len", "ptrmeta") for _, st in cb.stmts())
            ck.ob(rule, "path_to_ancestor/key", ok, "path_to_ancestor picks the path with the smallest %s" % ("length" if ok else "key that is NOT its length"), where=fb.where(t.line))
        else:
            ck.undecided(rule, "path_to_ancestor/key", "reduction %s not recognised" % m, where=fb.where(t.line))


def reductions(prog, fam):
    out = []
    for fb in fam:
        for bi, t in fb.calls():
            if t.callee.trait == "std::iter::Iterator" and t.callee.method in ("min", "max", "min_by_key", "max_by_key", "min_by", "max_by"):
                out.append((fb, bi, t))
    return out


ARENA = "ontology::termarena::Arena"



def reaches_membership_test(prog, body, private_only=False):
    """some function reachable from `body` (crate calls, closures, and the trait impls of crate types that are constructed on the way, e.g. the
    `Iterator::next` of a private iterator struct) tests an id for membership in a group (`HpoGroup::contains` / `binary_search`) - the sign that a
    membership predicate exists, in an idiom the membership rules do not read"""
    # the test must sit in PRIVATE code below `body`: a public sibling (`is_modifier` answering through `categories()`) has a meaning of its own,
    # its membership test is not this predicate's
    stop = {b.id for b in prog.production() if b.kind in ("Fn", "AssocFn") and (b.exported or b.reachable) and not b.impl_trait and b.id != body.id} if private_only else set()
    seen = set(prog.reachable_bodies([body.id], stop=stop)) - (stop - {body.id})
    work = list(seen)
    while work:
        x = prog.bodies.get(work.pop())
        if x is None:
            continue
        for fb in prog.family(x):
            for _, t in fb.calls():
                tg = prog.bodies.get(t.callee.res or "")
                adt = (tg.impl_self or {}).get("adt") if tg is not None and tg.kind == "AssocFn" else None
                if adt:
                    for y in prog.production():
                        if y.kind == "AssocFn" and y.impl_trait and (y.impl_self or {}).get("adt") == adt and y.id not in seen:
                            new = (prog.reachable_bodies([y.id], stop=stop) - (stop - {y.id})) - seen
                            seen |= new | {y.id}
                            work.extend(new | {y.id})
    for bid in seen:
        x = prog.bodies.get(bid)
        if x is None or x.test:
            continue
        for _, t in x.calls():
            if (t.callee.res or "").endswith("HpoGroup::contains") or (t.callee.method == "binary_search" and "HpoTermId" in (t.callee.def_args or "")):
                return x
    return None


def arena_placeholder_skips(prog, name, _depth=0):
    """how many leading slots of `Arena.terms` the accessor `Arena::<name>` leaves out: RangeFrom starts + skip(n) constants,
    plus those of another Arena accessor it is built on.  0 = iterates `terms` whole; None = shape not recognised."""
    b = name if not isinstance(name, str) else prog.body("%s::%s" % (ARENA, name))
    if b is None or _depth > 3:
        return None
    total = 0
    seen_any = False
    for fb in prog.family(b):
        for _, s in fb.stmts():
            if s.k == "assign" and s.rv["k"] == "agg" and s.rv.get("adt", "").endswith("RangeFrom"):
                v = s.rv["ops"][0].int_value()
                if v is None:
                    return None
                total += v
                seen_any = True
            elif s.k == "assign" and s.rv["k"] == "agg" and re.search(r"::Range(Inclusive|To|ToInclusive)?$", s.rv.get("adt", "")):
                return None
            elif s.k == "assign" and s.rv["k"] == "ref" and any(e != "*" and e[0] == "f" and e[1] == "terms" for e in s.rv["place"].fields()):
                seen_any = True
        for _, t in fb.calls():
            c = t.callee
            if c.method == "skip" and (c.trait == "std::iter::Iterator"):
                v = t.args[1].int_value() if len(t.args) > 1 and t.args[1].kind == "const" else None
                if v is None:
                    return None
                total += v
            elif c.method in ("take", "step_by", "skip_while", "take_while", "nth", "split_first", "split_at", "split_last", "split_first_mut", "split_at_mut", "split_last_mut", "split_first_chunk", "split_at_checked", "filter", "filter_map") and (c.trait == "std::iter::Iterator" or "slice" in (c.name or "")):
                return None
            elif (c.res or "").startswith(ARENA + "::") and c.res != b.id:
                inner = arena_placeholder_skips(prog, c.res.rsplit("::", 1)[-1], _depth + 1)
                if inner is None:
                    return None
                total += inner
                seen_any = True
    return total if seen_any else None


EXACT_CONV_METHODS = {"try_into", "try_from", "into", "from", "branch", "from_residual", "expect", "unwrap", "map_err", "ok_or", "ok_or_else"}
EXACT_INT_TO_FLOAT = {("u8", "f32"), ("u16", "f32"), ("i8", "f32"), ("i16", "f32"), ("u8", "f64"), ("u16", "f64"), ("u32", "f64"), ("i8", "f64"), ("i16", "f64"), ("i32", "f64")}
INT_BITS = {"u8": 8, "u16": 16, "u32": 32, "u64": 64, "usize": 64, "i8": 8, "i16": 16, "i32": 32, "i64": 64, "isize": 64}


def check_exact_conversion(ck, rule, prog, body_id, what):
    """a numeric conversion helper either converts its argument EXACTLY or fails (error / panic): no defaulting, clamping,
    saturating or truncating step.  The formulas that use the helper treat it as the identity."""
    b = prog.body(body_id) if isinstance(body_id, str) else body_id
    if b is None:
        ck.undecided(rule, "exact-conversion/" + str(body_id).rsplit("::", 1)[-1], "conversion helper %s not found" % body_id)
        return
    bad = _inexact_steps(prog, b, 0)
    ck.ob(rule, "exact-conversion/" + (b.short if b.impl_trait else b.short.rsplit("::", 1)[-1]), not bad, "%s %s" % (b.short, ("converts %s exactly or fails" % what) if not bad else ("is not an exact-or-fail conversion of %s: it %s - large values are silently changed instead of being rejected" % (what, "; ".join(bad[:2])))), where=b.where())


def conversion_min_bits(prog, b, depth=0, _seen=None):
    """narrowest integer type a value passes through inside a conversion helper (crate helpers on the way included): the helper fails for every
    value that does not fit that type.  None when no integer conversion is recognised."""
    _seen = _seen or set()
    if b.id in _seen or depth > 3:
        return None
    _seen = _seen | {b.id}
    best = None
    for fb in prog.family(b):
        for _, t in fb.calls():
            da = t.callee.def_args or ""
            tg = prog.bodies.get(t.callee.res or "")
            if tg is not None and tg.kind in ("Fn", "AssocFn") and tg.id != b.id:
                inner = conversion_min_bits(prog, tg, depth + 1, _seen)
                if inner is not None:
                    best = inner if best is None else min(best, inner)
                continue
            if t.callee.method in ("try_into", "try_from", "into", "from"):
                for ty in re.findall(r"\b(u8|u16|u32|u64|usize|i8|i16|i32|i64|isize)\b", da):
                    bits = INT_BITS[ty] if ty in INT_BITS else 64
                    best = bits if best is None else min(best, bits)
    return best


def check_conversion_range(ck, rule, prog, body_id, need_bits, why):
    """the conversion helper accepts at least every value of `need_bits` bits: a detour through a narrower integer keeps it `exact or fail`
    but makes it FAIL (panic / error) on values the callers legitimately pass"""
    b = prog.body(body_id) if isinstance(body_id, str) else body_id
    if b is None:
        return
    mb = conversion_min_bits(prog, b)
    key = "conversion-range/" + (b.short if b.impl_trait else b.short.rsplit("::", 1)[-1])
    if mb is None:
        ck.undecided(rule, key, "%s: no integer conversion recognised" % b.short, where=b.where())
    else:
        ck.ob(rule, key, mb >= need_bits, "%s converts through an integer of %d bits%s" % (b.short, mb, " (at least the %d bits reviewed: %s)" % (need_bits, why) if mb >= need_bits else ": values above %d now make it fail, although %s" % (2 ** mb - 1, why)), where=b.where())


def _inexact_steps(prog, b, depth):
    bad = []
    for fb in prog.family(b):
        for _, t in fb.calls():
            m = t.callee.method
            tg = prog.bodies.get(t.callee.res or "")
            if tg is not None and tg.kind in ("Fn", "AssocFn") and tg.id != b.id and depth < 3 and m not in EXACT_CONV_METHODS:
                # a crate helper on the way (`Self::from_u32(..)`, `from_wide_int(n)`) is judged by the same rule
                inner = _inexact_steps(prog, tg, depth + 1)
                if inner:
                    bad.append("calls `%s`, which %s" % (m, inner[0]))
                continue
            if m in ("map", "map_err", "and_then", "ok", "ok_or", "ok_or_else") and re.search(r"std::(result::Result|option::Option)", t.callee.name or ""):
                # combinators: what they apply must itself be an exact conversion (closures are members of the family and are
                # examined like the body; function items are judged by their name)
                for a in t.args[1:]:
                    if a.kind == "const" and "fn" in a.const:
                        fm = re.sub(r"::<.*$", "", a.const["fn"]).rsplit("::", 1)[-1]
                        if fm not in EXACT_CONV_METHODS and not re.search(r"HpoError", a.const["fn"]):
                            bad.append("applies `%s` (line %s)" % (a.const["fn"], t.line))
                continue
            if m not in EXACT_CONV_METHODS:
                bad.append("calls `%s` (line %s)" % (m, t.line))
        for _, st in fb.stmts():
            if st.k == "assign" and st.rv["k"] == "cast":
                kind = st.rv.get("kind", "")
                src = fb.locals[st.rv["op"].place.local]["s"] if st.rv["op"].place is not None else (st.rv["op"].const or {}).get("ty", "?")
                dst = st.rv.get("ty", "?")
                if "IntToFloat" in kind and (src, dst) not in EXACT_INT_TO_FLOAT:
                    bad.append("casts %s to %s with `as` (rounds above 2^24 / 2^53) (line %s)" % (src, dst, st.line))
                elif "IntToInt" in kind and INT_BITS.get(dst, 0) < INT_BITS.get(src, 0):
                    bad.append("narrows %s to %s with `as` (line %s)" % (src, dst, st.line))
                elif "FloatToInt" in kind or "FloatToFloat" in kind and dst == "f32":
                    bad.append("casts %s to %s (line %s)" % (src, dst, st.line))
            if st.k == "assign" and st.rv["k"] == "bin":
                bad.append("computes with `%s` (line %s)" % (st.rv["op"], st.line))
    return bad


def termid_display_width(prog):
    """zero-padded width of the number in `Display for HpoTermId` (the id space is the numbers of that many decimal digits)"""
    from engines import parse_bytestr, decode_format_template
    disp = prog.body("<term::hpotermid::HpoTermId as std::fmt::Display>::fmt")
    if disp is None:
        return None
    tmpl = None
    for pos, s in disp.stmts():
        if s.k == "assign" and s.rv["k"] == "use" and s.rv["op"].kind == "const":
            b = parse_bytestr(s.rv["op"].const["val"])
            if b is not None:
                tmpl = decode_format_template(b)
    for bi, t in disp.calls():
        for a in t.args:
            if a.kind == "const":
                b = parse_bytestr(a.const["val"])
                if b is not None:
                    tmpl = decode_format_template(b)
    if not tmpl:
        return None
    args = [x[1] for x in tmpl if x[0] == "arg"]
    if len(args) == 1 and args[0].get("width") and not args[0].get("width_arg"):
        return args[0]["width"]
    return None


def subtractions(prog, pv, pvn, body, depth=0):
    """set subtractions A \\ B computed in `body`:  A.difference(&B) | A.iter().filter(|x| !B.contains(x)) | a loop over A that pushes
    x under the negative edge of B.contains(x) | a call of a private helper that does one of these with its two parameters.
    returns {call-or-site block: dict(A (atoms), B (atoms), pol (-1 subtraction, +1 intersection, None), line)}"""
    from engines import bool_polarity, for_loops, positive_edges
    out = {}
    for bi, t in body.calls():
        c = t.callee
        if c.method == "difference" and len(t.args) == 2:
            out[bi] = {"A": pv.of_operand(body, t.args[0]), "B": pv.of_operand(body, t.args[1]), "pol": -1, "line": t.line}
        elif c.trait == "std::iter::Iterator" and c.method == "filter" and len(t.args) == 2:
            cb = prog.bodies.get(pv.closure_of_operand(body, t.args[1]) or "")
            if cb is None:
                continue
            cont = [(cbi, ct) for cbi, ct in cb.calls() if ct.callee.method == "contains"]
            if len(cont) != 1:
                continue
            pol, _ = bool_polarity(cb, pvn, lambda c2: c2.method == "contains")
            out[bi] = {"A": pv.of_operand(body, t.args[0]), "B": pv.of_operand(cb, cont[0][1].args[0]), "pol": pol, "line": t.line}
        elif c.trait == "std::ops::Sub" and "HpoGroup" in (c.def_args or "") and len(t.args) == 2:
            # `a - b` on groups (a crate impl of the difference operator; what that impl does is C12's business)
            out[bi] = {"A": pv.of_operand(body, t.args[0]), "B": pv.of_operand(body, t.args[1]), "pol": -1, "line": t.line, "helper": "HpoGroup - HpoGroup"}
        else:
            tg = prog.bodies.get(c.res) if c.res else None
            if tg is not None and depth == 0 and tg.kind in ("Fn", "AssocFn") and tg.file == body.file and len(t.args) == 2 and tg.id != body.id:
                inner = subtractions(prog, pv, pvn, tg, depth + 1)
                from prov import params_of
                shapes = []
                for k, v in inner.items():
                    pa, pb = params_of(v["A"], tg.id), params_of(v["B"], tg.id)
                    if len(pa) == 1 and len(pb) == 1 and pa != pb and pa | pb == {1, 2}:
                        shapes.append((next(iter(pa)), next(iter(pb)), v["pol"]))
                if len(shapes) == 1:
                    a_i, b_i, pol = shapes[0]
                    out[bi] = {"A": pv.of_operand(body, t.args[a_i - 1]), "B": pv.of_operand(body, t.args[b_i - 1]), "pol": pol, "line": t.line, "helper": tg.short}
    # loop form
    for lp in for_loops(body):
        conts = [(bi, t) for bi, t in body.calls() if bi in lp["blocks"] and t.callee.method == "contains" and len(t.args) == 2]
        pushes = [(bi, t) for bi, t in body.calls() if bi in lp["blocks"] and t.callee.method in ("push", "insert") and len(t.args) == 2]
        if len(conts) != 1 or len(pushes) != 1:
            continue
        cbi, ct = conts[0]
        pbi, pt = pushes[0]
        pos = positive_edges(body, pvn, cbi)
        on_pos = any(body.edge_dominates(e, pbi) for e in pos)
        neg = [(sb, y) for sb, _ in pos for y in body.succ[sb] if (sb, y) not in pos]
        on_neg = any(body.edge_dominates(e, pbi) for e in neg)
        pol = 1 if on_pos and not on_neg else -1 if on_neg and not on_pos else None
        out[lp["header"]] = {"A": pv.of_operand(body, lp["iter"]), "B": pv.of_operand(body, ct.args[0]), "pol": pol, "line": ct.line}
    return out


# std methods that CHANGE a text (or take it apart) between where it comes from and where it is compared / parsed.  A deny-list:
# accessors, borrows, iteration over a collection of records and `?` are not on it.
STR_CHANGE = {"trim", "trim_start", "trim_end", "trim_matches", "trim_start_matches", "trim_end_matches", "trim_left", "trim_right", "to_lowercase", "to_uppercase", "to_ascii_lowercase",
              "to_ascii_uppercase", "make_ascii_lowercase", "make_ascii_uppercase", "replace", "replacen", "strip_prefix", "strip_suffix", "split", "splitn", "rsplit", "rsplitn", "split_once",
              "rsplit_once", "split_whitespace", "split_at", "split_terminator", "lines", "chars", "char_indices", "bytes", "repeat", "escape_default", "escape_debug", "truncate", "pop",
              "remove", "drain", "retain", "skip", "take", "rev", "step_by", "filter", "eq_ignore_ascii_case", "normalize", "nfc", "nfkc", "concat", "join", "format"}


def text_changes(prog, pv, body, op, slicing_ok=False):
    """names of text-changing std calls applied (inside `body`) to the value of an operand; slicing (`get` / `index` with a range) counts
    unless slicing_ok"""
    out = set()
    for a in pv.of_operand(body, op):
        if a[0] == "call" and a[3] == body.id and a[2] not in prog.bodies and a[1] not in prog.bodies:
            m = a[1].rsplit("::", 1)[-1].split("::<")[0]
            if slicing_ok and m in ("split_at", "split_at_checked", "split_at_unchecked"):
                continue  # `s.split_at(n)` is `(&s[..n], &s[n..])`: slicing at a position, not at a content-dependent delimiter
            if m in STR_CHANGE or (not slicing_ok and m in ("get", "index", "get_unchecked") and "Range" in (a[2] or "")):
                out.add(m)
    return sorted(out)


def decoder_step_alternatives(prog, pv, db, fld, stem):
    """other spellings of the steps of a byte decoder `add_K_from_bytes`, looked for in the function, its closures and the private code it reaches
    (clones of generic helpers included):  store - `extend` / `entry` / `or_insert*` on `self.<fld>`;  propagate - the direct term writer
    `HpoTermInternal::add_<stem>` applied without going through `link_<stem>_term`.  Returns (store_alt, propagate_alt) as short descriptions or None."""
    from engines import private_scope
    from prov import field_names
    scope = []
    for x in [db] + [y for y in private_scope(prog, db) if y.id != db.id]:
        scope += [z for z in prog.family(x) if z not in scope]
    store = prop = None
    for fb in scope:
        for _, t in fb.calls():
            if t.callee.method in ("extend", "entry", "or_insert", "or_insert_with", "append") and t.args and fld in field_names(pv.of_operand(fb, t.args[0]), "Builder"):
                store = "%s on self.%s in %s" % (t.callee.method, fld, fb.short)
            if (t.callee.res or "").endswith("HpoTermInternal::add_" + stem) and not re.search(r"::link_\w+_term", fb.id):
                prop = "HpoTermInternal::add_%s called in %s" % (stem, fb.short)
    return store, prop
