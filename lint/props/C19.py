"""C19 - default categories and modifiers (clauses: ROLE/FIELD/SELECT/TABLE on the two default sets, DOM, SIBLING)"""
import re
from engines import for_loops
from engines import bool_polarity
from prov import Prov, params_of, field_names
from props.shared import membership_sites, term_fields

CLAIM = ("(ROLE/FIELD) the default modifier set is built from the DIRECT children of the term looked up with the constant 1, the default categories "
         "from the same plus the direct children of the term looked up with PHENOTYPE_ID (=118); (SELECT) the filter keeps a child iff it is != PHENOTYPE_ID "
         "and is applied to the root's children only; (TABLE) PHENOTYPE_ID is 118; (DOM) both sets are assigned only after every lookup succeeded and "
         "build_with_defaults propagates the error of both setters; (SIBLING) the modifier kernel equals the filtered half of the categories kernel, and the "
         "membership predicates is_modifier / categories are inclusive of the term itself.")
NOT_DECIDED = "the classification of every term of every ontology (depends on C01's closure and on the runtime DAG)."

ONT = "ontology::Ontology::"


def error_blocks_(b):
    from engines import error_blocks
    return error_blocks(b)


def lookup_consts(b, atoms, op=None, pvn=None):
    """constants used as key of the Ontology::hpo lookups a value derives from.  With `op`: read off the receiver chain of that operand
    (`root.children_ids().iter()` <- `root` <- `self.hpo(1)?`), which stays exact when whole-`self` provenance smears"""
    out = set()
    if op is not None and pvn is not None:
        from engines import receiver_calls
        for c in receiver_calls(b, pvn, op):
            if c.callee.res == ONT + "hpo" and len(c.args) > 1:
                k = c.args[1]
                out.add(k.const["val"] if k.kind == "const" else "<non-constant>")
        if out:
            return out
    for a in atoms:
        if a[0] == "call" and a[1] == ONT + "hpo" and a[3] == b.id:
            t = b.blocks[a[4]].term
            k = t.args[1]
            if k.kind == "const":
                out.add(k.const["val"])
            else:
                out.add("<non-constant>")
    return out


def analyse(ck, prog, pv, pvn, name, fieldname):
    b = prog.body(ONT + name)
    if not ck.anchor("ROLE", "Ontology::" + name, b):
        return None
    res = {"filtered_const": None, "filter_vs": None, "polarity": None}
    # the field is the one the public accessor of the same role (Ontology::modifier() / ::categories()) hands out
    acc = prog.body(ONT + fieldname)
    if acc is not None:
        fl = sorted({a[2] for a in pv.of_return(acc) if a[0] == "field" and a[1].endswith("::Ontology")})
        if len(fl) == 1:
            fieldname = fl[0]
    assigns = [(pos, s) for pos, s in b.stmts() if s.k == "assign" and any(e != "*" and e[0] == "f" and e[1] == fieldname and e[2].endswith("Ontology") for e in s.place.fields())]
    if not assigns:
        # a write through an accessor (`*self.classification.categories_mut() = computed`) or a setter of a private sub-struct
        indirect = [s for _, s in b.stmts() if s.k == "assign" and s.place.proj and s.place.proj[0] == "*" and any(a[0] == "call" and a[3] == b.id and a[1] in prog.bodies for a in pvn.of_local(b, s.place.local))]
        indirect += [t for _, t in b.calls() if (t.callee.res or "") in prog.bodies and prog.bodies[t.callee.res].sig and re.search(r"fn\(&'?\w* ?mut ", prog.bodies[t.callee.res].sig or "") and t.args and fieldname in field_names(pvn.of_operand(b, t.args[0]), "Ontology")]
        if indirect:
            ck.undecided("ROLE", name + "/assign", "%s stores its result through an accessor / a private sub-structure of self.%s: the sources of the stored set are not traced" % (name, fieldname), where=b.where())
        else:
            ck.ob("ROLE", name + "/assign", False, "%s never assigns self.%s" % (name, fieldname), where=b.where())
        return None
    filters = [(bi, t) for bi, t in b.calls() if t.callee.trait == "std::iter::Iterator" and t.callee.method == "filter"]
    chains = [(bi, t) for bi, t in b.calls() if t.callee.trait == "std::iter::Iterator" and t.callee.method == "chain"]
    for pos, s in assigns:
        val = pv.of_operand(b, s.rv["op"]) if s.rv["k"] == "use" else frozenset()
        fl = term_fields(val)
        ok = "children" in fl and not (fl & {"all_parents", "parents"})
        ck.ob("FIELD", name + "/source-field", ok, "%s is built from %s (expected the direct `children`)" % (fieldname, sorted(fl & {"children", "all_parents", "parents"})), where=b.where(s.line))
        has_filter = any(a[0] == "call" and a[1].endswith("::filter") for a in val)
        # other idioms (a private helper, an explicit loop with `if child != PHENOTYPE_ID { insert }`) are not classified by this rule
        other_idiom = bool(for_loops(b)) or any(a[0] == "call" and a[3] == b.id and a[1] in prog.bodies and prog.bodies[a[1]].kind in ("Fn", "AssocFn") and prog.bodies[a[1]].vis != "public" and prog.bodies[a[1]].file == b.file and not a[1].endswith("::hpo") for a in pvn.of_operand(b, s.rv["op"]) if s.rv["k"] == "use")
        if not has_filter and other_idiom:
            ck.undecided("ROLE", name + "/filtered", "%s does not build self.%s with an iterator filter in its own body (helper / loop): the exclusion of the phenotype root is not classified" % (name, fieldname), where=b.where(s.line))
        else:
            ck.ob("ROLE", name + "/filtered", has_filter, "%s %s a filter on the root's children" % (name, "applies" if has_filter else "does NOT apply"), where=b.where(s.line))
        # DOM: dominated by the found edge of every lookup (of every KEY: a key that is looked up twice - once to reject the call early, once
        # more where the term is used - needs one lookup whose success edge dominates the assignment)
        by_key = {}
        for bi, t in b.calls():
            if t.callee.res != ONT + "hpo":
                continue
            okd = False
            for sbi in sorted(b.reach):
                x = b.blocks[sbi].term
                if x.k != "switch":
                    continue
                at = pvn.of_operand(b, x.discr)
                if not any(a[0] == "call" and a[4] == bi and a[3] == b.id for a in at):
                    continue
                for tg in x.successors():
                    region = b.region((sbi, tg))
                    errs = any((st.k == "assign" and st.rv["k"] == "agg" and st.rv.get("variant") in ("Err", "None")) for r in region for st in b.blocks[r].stmts) or any(b.blocks[r].term.k == "call" and b.blocks[r].term.callee.method == "from_residual" for r in region)
                    if not errs and b.edge_dominates((sbi, tg), pos[0]):
                        okd = True
            k = t.args[1].const["val"] if t.args[1].kind == "const" else "?"
            by_key[k] = by_key.get(k, False) or okd
        for k, okd in sorted(by_key.items()):
            ck.ob("DOM", "%s/after-lookup/%s" % (name, k), okd, "self.%s is assigned %s the lookup of %s succeeded" % (fieldname, "only after" if okd else "WITHOUT being dominated by the success edge of", k), where=b.where(s.line))
    if not filters:
        return res
    bi, t = filters[0]
    pvc = Prov(prog, mutflow=False)  # without mutation smear: the assignment to self.<field> must not flow back into what was read from self before
    recv = pvc.of_operand(b, t.args[0])
    res["filtered_const"] = lookup_consts(b, recv, t.args[0], pvn)
    ck.ob("ROLE", name + "/filtered-root", res["filtered_const"] == {"1_u32"}, "the filtered children are those of the term looked up with %s (expected the constant 1)" % sorted(res["filtered_const"]), where=b.where(t.line))
    cid = pv.closure_of_operand(b, t.args[1])
    cb = prog.bodies.get(cid)
    if cb is None:
        ck.undecided("SELECT", name + "/filter", "filter predicate is not a closure of this crate", where=b.where(t.line))
    else:
        pol, ct = bool_polarity(cb, pvn, lambda c: c.trait == "std::cmp::PartialEq" and c.method in ("eq", "ne"))
        if pol is None or ct is None:
            ck.undecided("SELECT", name + "/filter", "filter predicate is not a plain (in)equality", where=cb.where())
        else:
            keeps_ne = (ct.callee.method == "ne") == (pol == 1)
            ck.ob("SELECT", name + "/filter-polarity", keeps_ne, "the filter keeps a child iff it is %s the constant" % ("!=" if keeps_ne else "== (inverted)"), where=cb.where(ct.line))
            ops = [pv.of_operand(cb, a) for a in ct.args]
            cds = {a[1] for o in ops for a in o if a[0] == "constdef"}
            has_param = any(2 in params_of(o, cb.id) for o in [Prov(prog, bind_closures=False).of_operand(cb, a) for a in ct.args])
            res["filter_vs"] = cds
            ck.ob("SELECT", name + "/filter-constant", cds == {"PHENOTYPE_ID"} and has_param, "the filter compares each child with %s (expected PHENOTYPE_ID)" % (sorted(cds) or "no named constant"), where=cb.where(ct.line))
            res["polarity"] = keeps_ne
    if name.endswith("categories"):
        if not chains and (for_loops(b) or not filters):
            ck.undecided("ROLE", name + "/chain", "the categories are not built with Iterator::chain in this body (loop / helper): the second source is not classified", where=b.where())
        elif not chains:
            # two `extend` calls into one fresh group (`g.extend(root children filtered); g.extend(phenotype children)`) are a chain written in two
            # statements: the unfiltered one is the second source
            exts = [(bi_, t_) for bi_, t_ in b.calls() if t_.callee.method == "extend" and len(t_.args) == 2]
            second_ok = None
            for bi_, t_ in exts:
                src_ = pvc.of_operand(b, t_.args[1])
                if any(a_[0] == "call" and a_[1].endswith("::filter") for a_ in src_):
                    continue
                lc_ = lookup_consts(b, src_, t_.args[1], pvn)
                fl_ = term_fields(src_)
                second_ok = (second_ok or False) or (lc_ == {"PHENOTYPE_ID"} and "children" in fl_ and not (fl_ & {"all_parents", "parents"}))
            if len(exts) >= 2 and second_ok is not None:
                ck.ob("ROLE", name + "/chain", second_ok, "categories are filled with two `extend` calls; the unfiltered one %s" % ("adds the children of the term looked up with PHENOTYPE_ID" if second_ok else "does NOT add the children of PHENOTYPE_ID"), where=b.where(exts[-1][1].line))
            else:
                ck.ob("ROLE", name + "/chain", False, "categories do not include the children of PHENOTYPE_ID (no second source)", where=b.where())
        for cbi, ctm in chains:
            second = pvc.of_operand(b, ctm.args[1])
            lc = lookup_consts(b, second, ctm.args[1], pvn)
            fl = term_fields(second)
            ok = lc == {"PHENOTYPE_ID"} and "children" in fl and not (fl & {"all_parents", "parents"})
            ck.ob("ROLE", name + "/chain", ok, "categories chain the %s of the term looked up with %s (expected children of PHENOTYPE_ID)" % (sorted(fl & {"children", "all_parents", "parents"}), sorted(lc)), where=b.where(ctm.line))
            from engines import receiver_calls as _rc
            ch2 = _rc(b, pvn, ctm.args[1])
            filt2 = any(c_.callee.method == "filter" for c_ in ch2) if ch2 else any(a[0] == "call" and a[1].endswith("::filter") for a in second)
            ck.ob("SELECT", name + "/chain-unfiltered", not filt2, "the phenotype children are %s" % ("taken unfiltered" if not filt2 else "filtered too"), where=b.where(ctm.line))
            first = pvc.of_operand(b, ctm.args[0])
            ck.ob("ROLE", name + "/chain-first", any(a[0] == "call" and a[1].endswith("::filter") for a in first), "the first half of the chain is the filtered children of the root", where=b.where(ctm.line))
    return res


def run(ck, prog, ctx):
    ck.rule("ROLE", "sources of the default sets (DESIGN 3.4)")
    ck.rule("FIELD", "direct children, not the closure (DESIGN 3.9)")
    ck.rule("SELECT", "filter polarity and constant (DESIGN 3.10)")
    ck.rule("TABLE", "value of PHENOTYPE_ID")
    ck.rule("DOM", "assignment dominated by the found edges of both lookups (DESIGN 3.6)")
    ck.rule("SIBLING", "modifier kernel = filtered half of the categories kernel; inclusive membership predicates (DESIGN 3.15)")
    pv = Prov(prog)
    pvn = Prov(prog, inline=False)
    rm = analyse(ck, prog, pv, pvn, "set_default_modifier", "modifier")
    rc = analyse(ck, prog, pv, pvn, "set_default_categories", "categories")
    if rm and rc:
        same = rm["filtered_const"] == rc["filtered_const"] and rm["filter_vs"] == rc["filter_vs"] and rm["polarity"] == rc["polarity"]
        ck.ob("SIBLING", "modifier~categories", same, "the modifier set and the first half of the categories are %s" % ("built by the same kernel" if same else "built differently: %s vs %s" % (rm, rc)))
    # TABLE: PHENOTYPE_ID
    pid = prog.body("PHENOTYPE_ID")
    if ck.anchor("TABLE", "const PHENOTYPE_ID", pid):
        vals = set()
        for bi, t in pid.calls():
            for a in t.args:
                if a.kind == "const" and a.int_value() is not None:
                    vals.add(a.int_value())
        for pos, s in pid.stmts():
            for o in s.ops:
                if o.kind == "const" and o.int_value() is not None:
                    vals.add(o.int_value())
        ck.ob("TABLE", "PHENOTYPE_ID", vals == {118}, "PHENOTYPE_ID is built from the constant(s) %s (expected 118)" % sorted(vals), where=pid.where())
    # ---- the roots are found BY ID wherever the defaults are computed: every `children` read in the private code behind the two setters hangs
    # on a term that was looked up with a constant key (HP:0000001 / PHENOTYPE_ID).  A root found by its shape (`self.root()`: first term
    # without parents that has children; `iter().find(..)`) is another term as soon as the ontology has a second parentless component, and
    # its absence is no longer the documented error.
    ck.rule("ROOTKEY", "in the setters of the default groups and the private code they reach, each term whose children are read derives from Ontology::hpo / Arena::get with a constant key")
    from engines import private_scope as _psr, receiver_calls as _rcr
    for nm_ in ("set_default_modifier", "set_default_categories"):
        sb_ = prog.body(ONT + nm_)
        if sb_ is None:
            continue
        for hb_ in _psr(prog, sb_):
            for cbi_, ct_ in hb_.calls():
                if not re.search(r"HpoTerm::<'.*>::children_ids$|HpoTermInternal::children$|HpoTerm::<'.*>::children$", ct_.callee.res or "") or not ct_.args:
                    continue
                chain_ = _rcr(hb_, pvn, ct_.args[0])
                # lookups BY ID: Ontology::hpo / the private Ontology::get(_unchecked) / Arena::get*, or any crate function of (self, key) whose key
                # parameter is an id (`HpoTermId` / `impl Into<HpoTermId>`) and that answers with (an Option of) a term
                def by_id_(c_):
                    r_ = c_.callee.res or ""
                    if len(c_.args) != 2:
                        return False
                    if r_ in (ONT + "hpo", ONT + "get", ONT + "get_unchecked") or r_.startswith("ontology::termarena::Arena::get"):
                        return True
                    tb_ = prog.bodies.get(r_)
                    return tb_ is not None and tb_.nargs == 2 and re.search(r"HpoTermId|^I$|^T$|impl Into", tb_.locals[2]["s"]) is not None and re.search(r"HpoTerm", tb_.locals[0]["s"]) is not None and not tb_.natural_loops()
                keys_ = [c_ for c_ in chain_ if by_id_(c_)]
                by_shape = [c_ for c_ in chain_ if c_.callee.method in ("find", "find_map", "next", "min_by_key", "max_by_key", "position", "last", "nth")
                            or ((c_.callee.res or "").startswith(ONT) and not by_id_(c_) and prog.bodies.get(c_.callee.res) is not None and re.search(r"Option<.*HpoTerm", prog.bodies[c_.callee.res].locals[0]["s"]))]
                key_ = "%s/%s/%d" % (nm_, hb_.short, cbi_)
                if keys_ and all(k_.args[1].kind == "const" or any(a_[0] in ("const", "constdef") for a_ in pvn.of_operand(hb_, k_.args[1])) for k_ in keys_):
                    ck.ob("ROOTKEY", key_, True, "%s reads the children of a term looked up with a constant id" % hb_.short, where=hb_.where(ct_.line))
                elif by_shape and not keys_:
                    ck.ob("ROOTKEY", key_, False, "%s reads the children of a term that was not looked up by id but picked with `%s`: with a second parentless branch (or without HP:0000001) the defaults are computed from another term instead of failing" % (hb_.short, by_shape[0].callee.method), where=hb_.where(ct_.line))
                else:
                    ck.undecided("ROOTKEY", key_, "%s reads the children of a term whose origin is not recognised" % hb_.short, where=hb_.where(ct_.line))

    # build_with_defaults: both setters, both results branched on
    bd = prog.one(r"^ontology::builder::Builder::<ontology::builder::FullyAnnotated>::build_with_defaults$")
    if ck.anchor("DOM", "Builder<FullyAnnotated>::build_with_defaults", bd):
        def propagates_(hb, target):
            """does `hb` call `target` and hand its error on (`?`, an explicit Err, or the call's Result returned as it is)?  -> (calls, ok)"""
            calls = [(bi, t) for bi, t in hb.calls() if t.callee.res == target]
            ok = False
            # combinator form (`a().and_then(|()| b()).map(|()| ont)`): the setter's error is the error of the returned Result
            fam_calls = [(fb, bi) for fb in prog.family(hb) for bi, t in fb.calls() if t.callee.res == target]
            ret_err = pvn.of_return(hb, (("errval",),)) | {a for a in pvn.of_return(hb) if a[0] == "call"}
            if fam_calls and all(any(a[0] == "call" and a[3] == fb.id and a[4] == bi for a in ret_err) for fb, bi in fam_calls):
                ok = True
            calls = calls or [(bi, fb.blocks[bi].term) for fb, bi in fam_calls]
            for bi, t in ([] if ok else calls):
                if not any(t is t2 for _, t2 in hb.calls()):
                    continue
                for sbi in sorted(hb.reach):
                    x = hb.blocks[sbi].term
                    if x.k == "switch" and any(a[0] == "call" and a[4] == bi and a[3] == hb.id for a in pvn.of_operand(hb, x.discr)):
                        # the Ok(ontology) construction must not be reachable from the error edge
                        for tg in x.successors():
                            region = hb.region((sbi, tg))
                            if any(hb.blocks[r].term.k == "call" and hb.blocks[r].term.callee.method == "from_residual" for r in region) or any(st.k == "assign" and st.rv["k"] == "agg" and st.rv.get("variant") == "Err" for r in region for st in hb.blocks[r].stmts):
                                ok = True
            return calls, ok

        for nm in ("set_default_categories", "set_default_modifier"):
            calls, ok = propagates_(bd, ONT + nm)
            if not calls:
                # one private, loop-free step in between (`Self::apply_defaults(&mut ont)?`): the same question at both hops
                for hid in sorted({t.callee.res for _, t in bd.calls() if t.callee.res in prog.bodies}):
                    hb = prog.bodies[hid]
                    if hb.exported or hb.reachable or hb.kind not in ("Fn", "AssocFn") or hb.natural_loops():
                        continue
                    c2, ok2 = propagates_(hb, ONT + nm)
                    if c2:
                        c1, ok1 = propagates_(bd, hid)
                        calls, ok = c1, (ok1 and ok2)
                        break
            if not ok and not calls:
                # the defaults may be computed by the private code the two setters share and stored directly (`ont.classification = defaults_for(&ont)?`)
                acc_ = prog.body(ONT + nm.replace("set_default_", ""))
                fl_ = sorted({a[2] for a in pv.of_return(acc_) if a[0] == "field" and a[1].endswith("::Ontology")}) if acc_ is not None else []
                setter_ = prog.body(ONT + nm)
                shared = set()
                if setter_ is not None:
                    shared = {x for x in prog.reachable_bodies([setter_.id]) if x in prog.bodies and x != setter_.id and prog.bodies[x].kind in ("Fn", "AssocFn") and not (prog.bodies[x].exported or prog.bodies[x].reachable)} & prog.reachable_bodies([bd.id])
                writes_field = any(s_.k == "assign" and any(e != "*" and e[0] == "f" and e[1] in fl_ and e[2].endswith("Ontology") for e in s_.place.fields()) for _, s_ in bd.stmts())
                if writes_field and shared:
                    ck.undecided("DOM", "build_with_defaults/" + nm, "build_with_defaults does not call %s but assigns self.%s from private code that %s uses as well (%s): not compared" % (nm, "/".join(fl_), nm, sorted(prog.bodies[x].short for x in shared)[0]), where=bd.where())
                    continue
            if not ok and not calls:
                # ... or re-computed by private Builder code of its own (one pass over the children of the root terms that yields both groups)
                from engines import private_scope as _psc
                own_ = [x for x in _psc(prog, bd) if x.id != bd.id and x.kind in ("Fn", "AssocFn") and any((t_.callee.res or "").endswith("HpoTermInternal::children") for fb_ in prog.family(x) for _, t_ in fb_.calls())]
                if own_ and nm == "set_default_categories":
                    # "building fails with an error when one of the two root terms is missing": in that private code BOTH root lookups are keyed by
                    # a constant and stand on every path that succeeds.  A root that is only looked up when it is met in the data (`if child ==
                    # PHENOTYPE_ID { get(child)? }`) is not reported missing when it is missing.
                    for xb_ in own_:
                        lk_ = []
                        for bi_, t_ in xb_.calls():
                            r_ = t_.callee.res or ""
                            if (r_.startswith("ontology::termarena::Arena::get") or r_ == ONT + "hpo") and len(t_.args) == 2 and "unchecked" not in r_:
                                k_ = t_.args[1]
                                const_key = k_.kind == "const" or any(a_[0] == "const" for a_ in pvn.of_operand(xb_, k_)) and not any(a_[0] == "call" and a_[1].endswith("::next") for a_ in pvn.of_operand(xb_, k_))
                                lk_.append((bi_, t_, const_key, all(xb_.dominates(bi_, e_) for e_ in xb_.exits if e_ not in error_blocks_(xb_))))
                        consts_ok = [x for x in lk_ if x[2] and x[3]]
                        data_keyed = [x for x in lk_ if not x[2] and not x[3]]
                        if consts_ok and data_keyed:
                            ck.ob("DOM", "build_with_defaults/root-lookups/" + xb_.short, False, "%s looks one root term up unconditionally (line %s) but another one only where the data leads to it (line %s, key read from the ontology): a missing root term is then not an error" % (xb_.short, consts_ok[0][1].line, data_keyed[0][1].line), where=xb_.where(data_keyed[0][1].line))
                        elif len(consts_ok) >= 2:
                            ck.ob("DOM", "build_with_defaults/root-lookups/" + xb_.short, True, "%s looks %d constant-keyed root terms up on every path that succeeds" % (xb_.short, len(consts_ok)), where=xb_.where())
                if own_:
                    ck.undecided("DOM", "build_with_defaults/" + nm, "build_with_defaults does not call %s: the default groups are computed by private code of its own (%s), which the rules over %s do not read" % (nm, own_[0].short, nm), where=bd.where())
                    continue
            ck.ob("DOM", "build_with_defaults/" + nm, ok, "build_with_defaults %s" % ("calls %s and propagates its error" % nm if ok else ("does not call %s" % nm if not calls else "ignores the result of %s" % nm)), where=bd.where())
    # inclusive membership predicates (shared with C14)
    sites = [s for s in membership_sites(prog, pv, Prov(prog, bind_closures=False)) if "HpoTerm::<" in (prog.bodies[s["body"].root].id if s["body"].kind == "Closure" and s["body"].root in prog.bodies else s["body"].id)]
    for s in sites:
        b = s["body"]
        owner = prog.bodies[b.root].short if b.kind == "Closure" and b.root in prog.bodies else b.short
        ck.ob("SIBLING", "membership/" + owner, s["inclusive"], "%s tests the %s roots against %s" % (owner, s["root"], " ∪ ".join(s["fields"])), where=b.where(s["term"].line))
    from props.shared import reaches_membership_test as _rmt
    _im = prog.body("term::hpoterm::HpoTerm::<'a>::is_modifier")
    ck.floor("SIBLING", "membership predicates on HpoTerm", len(sites), 2, soft=bool(sites) or (_im is not None and _rmt(prog, _im) is not None))

    # ---- accessors: a method named after a field returns that field, not a sibling of the same type
    ck.rule("GETTER", "an accessor `f()` / `f_mut()` of a struct with a field `f` (or its documented alias) derives its result from that field (DESIGN 3.9)")
    from engines import check_getters
    check_getters(ck, "GETTER", prog, r"^src/ontology\.rs$", floor=3)
    # failures of fallible crate functions are propagated or asserted, never turned into success
    ck.rule("ERR", "every call of a crate function returning Result<_, HpoError> propagates the error (`?` / return / match), panics on it (unwrap / expect), or is a listed documented exception; none replaces it by a default")
    from engines import check_error_discipline
    check_error_discipline(ck, "ERR", prog, r"^src/ontology\.rs$", allowed=[(r"^Ontology::hpo$", r"try_new$", "documented: Ontology::hpo answers None for an id that is not in the ontology")], floor=3)
