"""C05 - set similarity (clauses: DOM empty-matrix guard, ROLE divisors / matrix fill / cache key, SELECT row/col maxima, DISPATCH)"""
import re
import absint
from engines import float_div_sites, classify_selection, enum_arms, norm_name
from engines import check_required_steps
from prov import Prov, params_of, field_names

CLAIM = ("(DOM) every production call of a SimilarityCombiner::combine implementation is dominated by the non-empty edge of Matrix::is_empty on the "
         "same matrix (this discharges the divisions by the matrix dimensions); (ROLE) in the standard combiners the sum of row maxima is divided by "
         "the number of rows and the sum of column maxima by the number of columns (BMA: both sums by both dimensions), the pairwise matrix is built "
         "with rows=|A|, cols=|B|, filled row-major (loop over A encloses loop over B) with similarity(a_i, b_j) in that argument order, and the cache "
         "key is the ordered pair (a, b) with the miss computed on (a, b); (SELECT) row_maxes/col_maxes reduce with a MAX over Matrix::rows()/cols(); "
         "(DISPATCH) StandardCombiner::combine's arms are not cross-wired.")
NOT_DECIDED = "the index arithmetic inside the row/column iterators and the numeric value of the combination (loop results over runtime data)."

SC = "similarity::SimilarityCombiner"
STD = "similarity::StandardCombiner"


def run(ck, prog, ctx):
    ck.rule("DOM", "who-may-call + must-pass-through: call site dominated by the non-empty edge (DESIGN 3.6)")
    # no truncating adaptor (skip / take / step_by ..) in the iterator pipelines of these functions: every element takes part
    from engines import check_complete_iteration as _cci_all
    _cci_all(ck, "ROLE", prog, [b_ for b_ in sorted(prog.production(), key=lambda z: z.id) if re.search(r"^src/similarity\.rs$", b_.file or "")  # (matrix.rs walks a column with step_by by design: its iterators have rules of their own) and b_.kind in ("Fn", "AssocFn") and not b_.test
                               and any(t_.callee.trait == "std::iter::Iterator" for fb_ in prog.family(b_) for _, t_ in fb_.calls())], "the rows / columns / scores it iterates")
    ck.rule("ROLE", "role provenance at contract sites (DESIGN 3.4)")
    ck.rule("SELECT", "direction of a reduction (DESIGN 3.10)")
    ck.rule("DISPATCH", "enum arms not cross-wired (DESIGN 3.11)")
    pv = Prov(prog)
    pvn = Prov(prog, inline=False)
    pv_sel = Prov(prog, bind_closures=False, inline=False)
    ai = absint.Interp(prog)

    # ------------------------------------------------------------------ DOM: combine only behind the non-empty guard
    sites = []
    for b in prog.production():
        for bi, t in b.calls():
            c = t.callee
            if (c.deff == SC + "::combine") or (c.res and c.res.endswith("::combine") and c.trait == SC):
                sites.append((b, bi, t))
    ck.floor("DOM", "production call sites of SimilarityCombiner::combine", len(sites), 1)
    for n, (b, bi, t) in enumerate(sorted(sites, key=lambda x: (x[0].id, x[1]))):
        pos = (bi, len(b.blocks[bi].stmts))
        marg = t.args[1] if len(t.args) > 1 else None
        ok = False
        if marg is not None and marg.place is not None:
            ok = ai.nonempty_at(b, pos, marg.place.local)
        ck.ob("DOM", "combine-call/%s/%d" % (b.short, n), ok,
              "%s calls combine(m) %s" % (b.short, "only after `m.is_empty()` returned false" if ok else "without being dominated by the non-empty edge of m.is_empty(): an empty set divides 0 by 0"),
              where=b.where(t.line))
    from engines import positive_edges
    pvl = Prov(prog, inline=False, bind_closures=False)
    for b in sorted({x[0].id for x in sites}):
        cb = prog.bodies[b]
        if cb.name != "calculate":
            continue  # the documented "0 for an empty set" is the contract of SimilarityCombiner::calculate; other guarded callers may default differently
        for bi, t in cb.calls():
            if t.callee.method == "is_empty" and (t.callee.res or "").startswith("matrix::Matrix"):
                for (sbi, tg) in positive_edges(cb, pvl, bi):
                    vals = set()
                    for r in cb.region((sbi, tg)):
                        for st in cb.blocks[r].stmts:
                            if st.k == "assign" and st.place.local == 0 and st.place.is_local():
                                vals.add(st.rv["op"].float_value() if st.rv["k"] == "use" and st.rv["op"].kind == "const" else "non-constant")
                    ck.ob("DOM", "empty-value/" + cb.short, vals == {0.0}, "%s returns %s for an empty matrix (documented: 0)" % (cb.short, sorted(map(str, vals)) or "nothing"), where=cb.where(t.line))
    me = prog.body("matrix::Matrix::<'a, T>::is_empty")
    if ck.anchor("DOM", "Matrix::is_empty", me):
        at = pv.of_return(me)
        ck.ob("DOM", "matrix/is_empty", "data" in field_names(at, "Matrix") and any(a[0] == "call" and a[1].endswith("is_empty") for a in at),
              "Matrix::is_empty reports emptiness of the data slice", where=me.where())
    ck.assume("rows*cols == data.len(): established at the matrix's only production constructor call (ROLE matrix/new below)")

    # ------------------------------------------------------------------ ROLE: divisor pairing in the standard combiners
    ndiv = 0
    for name in ("fun_sim_avg", "fun_sim_max", "bma"):
        b = prog.body(STD + "::" + name)
        if b is None:
            ck.undecided("ROLE", "div/" + name, "private helper StandardCombiner::%s not found" % name)
            continue
        k = 0
        for site in float_div_sites(b):
            if site["kind"] != "div" or site["den"].kind == "const":
                continue
            num = pv.of_operand(b, site["num"])
            den = pv.of_operand(b, site["den"])
            has_row = any(a[0] == "call" and a[1].endswith("::row_maxes") for a in num)
            has_col = any(a[0] == "call" and a[1].endswith("::col_maxes") for a in num)
            dims = field_names(den, "Matrix") & {"rows", "cols"}
            ndiv += 1
            key = "div/%s/%d" % (name, k)
            k += 1
            if has_row and has_col:
                ok = dims == {"rows", "cols"}
                ck.ob("ROLE", key, ok, "%s: (row maxima + column maxima) divided by %s" % (name, "rows + cols" if ok else "dimension(s) %s" % sorted(dims)), where=b.where(site["line"]))
            elif has_row:
                ok = dims == {"rows"}
                ck.ob("ROLE", key, ok, "%s: sum of row maxima divided by %s" % (name, "the number of rows" if ok else "dimension(s) %s (expected rows)" % sorted(dims)), where=b.where(site["line"]))
            elif has_col:
                ok = dims == {"cols"}
                ck.ob("ROLE", key, ok, "%s: sum of column maxima divided by %s" % (name, "the number of columns" if ok else "dimension(s) %s (expected cols)" % sorted(dims)), where=b.where(site["line"]))
            else:
                ck.undecided("ROLE", key, "%s: numerator of a division does not derive from row_maxes/col_maxes" % name, where=b.where(site["line"]))
    # no floor: when the means are computed in helpers the divisions are not in these bodies; FORMULA (below) decides the combination
    # funSimMax takes the larger of the two MEANS: every comparison / max in it is between quotients (sum / dimension), never raw sums
    fm = prog.body(STD + "::fun_sim_max")
    if fm is not None:
        pvl = Prov(prog, inline=False)
        cmps = []
        for pos, st in fm.stmts():
            if st.k == "assign" and st.rv["k"] == "bin" and st.rv["op"] in ("Gt", "Lt", "Ge", "Le") and st.rv.get("lty") in ("f32", "f64"):
                cmps.append((st.rv["l"], st.rv["r"], st.line))
        for bi, t in fm.calls():
            if t.callee.method in ("max", "min", "partial_cmp", "total_cmp", "gt", "lt") and len(t.args) == 2 and re.search(r"f32|f64", t.callee.def_args or ""):
                cmps.append((t.args[0], t.args[1], t.line))
        if not cmps:
            ck.undecided("SELECT", "fun_sim_max/compare", "no comparison of the two directions recognised", where=fm.where())
        for n, (l, r, line) in enumerate(cmps):
            def desc(o):
                at = pvl.of_operand(fm, o)
                has_div = any(a[0] == "op" and a[1] == "Div" for a in at) or any(a[0] == "call" and a[1].endswith("::div") for a in at)
                side = ("row" if any(a[0] == "call" and a[1].endswith("::row_maxes") for a in at) else "") + ("col" if any(a[0] == "call" and a[1].endswith("::col_maxes") for a in at) else "")
                return has_div, side
            (dl, sl), (dr, sr) = desc(l), desc(r)
            ok = dl and dr and {sl, sr} == {"row", "col"}
            if not sl or not sr:
                ck.undecided("SELECT", "fun_sim_max/compare/%d" % n, "the compared values are not recognisably derived from row_maxes / col_maxes in this body (helper?)", where=fm.where(line))
                continue
            ck.ob("SELECT", "fun_sim_max/compare/%d" % n, ok, "funSimMax compares %s of the %s direction with %s of the %s direction%s" % ("the mean" if dl else "the RAW SUM", sl or "?", "the mean" if dr else "the RAW SUM", sr or "?", "" if ok else ": for non-square matrices the larger sum need not be the larger mean"), where=fm.where(line))
        mx = [t for _, t in fm.calls() if t.callee.method == "min"]
        for t in mx:
            ck.violation("SELECT", "fun_sim_max/direction", "funSimMax takes the SMALLER of the two means", where=fm.where(t.line))
    # which private field holds the number of rows / of columns is read off the constructor: the field(s) that `Matrix::new(rows, cols, ..)` fills
    # from its first / second parameter (through a nested private struct as well)
    mn0 = prog.body("matrix::Matrix::<'a, T>::new")
    dim_role = {}
    if mn0 is not None:
        for fb_ in [mn0] + [prog.bodies[x] for x in prog.reachable_bodies([mn0.id]) if x in prog.bodies and prog.bodies[x].file == mn0.file and x != mn0.id]:
            for pos, st in fb_.stmts():
                if st.k == "assign" and st.rv["k"] == "agg" and st.rv.get("agg") == "adt" and st.rv.get("fields"):
                    for f_, o_ in zip(st.rv["fields"], st.rv["ops"]):
                        ps_ = params_of(pv.of_operand(fb_, o_), mn0.id) if fb_ is mn0 else set()
                        if fb_ is not mn0:
                            # a helper constructor (`Shape::new(rows, cols)`): its parameters are mapped back through the call in Matrix::new
                            hp = params_of(pv.of_operand(fb_, o_), fb_.id)
                            for _, ct in mn0.calls():
                                if ct.callee.res == fb_.id:
                                    for p_ in hp:
                                        if 1 <= p_ <= len(ct.args):
                                            ps_ |= params_of(pv.of_operand(mn0, ct.args[p_ - 1]), mn0.id)
                        if ps_ == {1}:
                            dim_role[(st.rv["adt"], f_)] = "rows"
                        elif ps_ == {2}:
                            dim_role[(st.rv["adt"], f_)] = "cols"

    def dim_roles(atoms):
        return {dim_role[(a[1], a[2])] for a in atoms if a[0] == "field" and (a[1], a[2]) in dim_role}
    dm = prog.body("matrix::Matrix::<'a, T>::dim")
    if ck.anchor("ROLE", "Matrix::dim", dm):
        a0 = dim_roles(pv.of_return(dm, (("f", "0", "tuple"),)))
        a1 = dim_roles(pv.of_return(dm, (("f", "1", "tuple"),)))
        if not dim_role or not (a0 and a1):
            ck.undecided("ROLE", "matrix/dim", "the fields that hold the two dimensions are not recognised (constructor fills %s)" % sorted(dim_role.values()), where=dm.where())
        else:
            ck.ob("ROLE", "matrix/dim", a0 == {"rows"} and a1 == {"cols"}, "Matrix::dim returns (%s, %s) (expected (rows, cols)); the constructor keeps rows / cols in %s" % (sorted(a0), sorted(a1), sorted("%s.%s" % (k[0].rsplit("::", 1)[-1], k[1]) for k in dim_role)), where=dm.where())
    df = prog.body(SC + "::dim_f32")
    if df is not None:
        a0 = dim_roles(pv.of_return(df, (("f", "0", "tuple"),)))
        a1 = dim_roles(pv.of_return(df, (("f", "1", "tuple"),)))
        if not (a0 and a1):
            ck.undecided("ROLE", "combiner/dim_f32", "dim_f32 does not visibly return the matrix dimensions (helper?)", where=df.where())
        else:
            ck.ob("ROLE", "combiner/dim_f32", a0 == {"rows"} and a1 == {"cols"}, "dim_f32 returns (%s, %s) (expected (rows, cols))" % (sorted(a0), sorted(a1)), where=df.where())

    # ------------------------------------------------------------------ SELECT + FIELD: row_maxes / col_maxes
    for name, acc in (("row_maxes", "rows"), ("col_maxes", "cols")):
        b = prog.body(SC + "::" + name)
        if not ck.anchor("SELECT", "SimilarityCombiner::" + name, b):
            continue
        fam = prog.family(b)
        sel = []
        for fb in fam:
            if fb.kind == "Closure":
                sel += [s for s in classify_selection(fb, pv_sel) if s["kind"]]
            for bi, t in fb.calls():
                if t.callee.trait == "std::iter::Iterator" and t.callee.method in ("max", "min", "max_by", "min_by") and fb is not b:
                    sel.append({"kind": t.callee.method[:3], "detail": "Iterator::" + t.callee.method, "line": t.line})
        if not sel:
            ck.undecided("SELECT", name + "/reduce", "no selection recognised in %s" % name, where=b.where())
        else:
            kinds = {s["kind"] for s in sel}
            ck.ob("SELECT", name + "/reduce", kinds == {"max"}, "%s reduces each line with a %s selection (%s)" % (name, "/".join(sorted(kinds)), sel[0]["detail"]), where=b.where(sel[0]["line"]))
        # the maximum of a line is taken over the line's entries ONLY: a fold seeded with a finite constant clamps it from below
        # (user-supplied similarities may be negative: the property quantifies over arbitrary term similarity functions)
        for fb in fam:
            for bi, t in fb.calls():
                if t.callee.trait == "std::iter::Iterator" and t.callee.method == "fold" and len(t.args) >= 3:
                    init = t.args[1]
                    fv = init.float_value() if init.kind == "const" else None
                    if init.kind != "const":
                        ck.ob("SELECT", name + "/seed", True, "%s folds each line starting from a value (not a constant)" % name, where=fb.where(t.line))
                    elif fv is None:
                        ck.undecided("SELECT", name + "/seed", "%s folds each line starting from a constant that is not a literal (%s)" % (name, init), where=fb.where(t.line))
                    else:
                        ok = fv == float("-inf") or fv <= -3.0e38
                        ck.ob("SELECT", name + "/seed", ok, "%s folds each line starting from %s%s" % (name, fv, "" if ok else ": the maximum of a line is clamped from below by this constant (a line of negative similarities yields %s)" % fv), where=fb.where(t.line))
                if t.callee.method in ("max", "min", "clamp") and re.search(r"f32|f64", t.callee.name or "") and t.callee.trait != "std::iter::Iterator" and any(a.kind == "const" for a in t.args):
                    c = next(a for a in t.args if a.kind == "const")
                    ck.ob("SELECT", name + "/clamp", False, "%s bounds a line maximum with the constant %s (%s): maxima beyond it are not reported as they are" % (name, c, t.callee.method), where=fb.where(t.line))
        used = {t.callee.res.rsplit("::", 1)[-1] for fb in fam for _, t in fb.calls() if t.callee.res and t.callee.res.startswith("matrix::Matrix::") and t.callee.res.rsplit("::", 1)[-1] in ("rows", "cols")}
        ck.ob("SELECT", name + "/axis", used == {acc}, "%s iterates Matrix::%s (expected %s)" % (name, "/".join(sorted(used)) or "nothing", acc), where=b.where())
    for name, good, bad in (("rows", "row", "col"), ("cols", "col", "row")):
        b = prog.body("matrix::Matrix::<'a, T>::" + name)
        if not ck.anchor("SELECT", "Matrix::" + name, b):
            continue
        callees = [t.callee.def_args or "" for _, t in b.calls()]
        hit_good = [c for c in callees if re.search(good, c, re.I)]
        hit_bad = [c for c in callees if re.search(bad, c, re.I) and not re.search(good, c, re.I)]
        if not hit_good and not hit_bad:
            ck.undecided("SELECT", "matrix/" + name, "no row/column helper recognised", where=b.where())
        else:
            ck.ob("SELECT", "matrix/" + name, bool(hit_good) and not hit_bad, "Matrix::%s builds %s" % (name, ", ".join(c.rsplit("::", 2)[-2] + "::" + c.rsplit("::", 1)[-1] for c in (hit_bad or hit_good))), where=b.where())

    # ------------------------------------------------------------------ SELECT: a best match is a maximum of the scores alone
    # (`fold(0.0, f32::max)` lets the seed take part: every row / column maximum is clamped at the seed, wrong as soon as a similarity is negative)
    for b_ in prog.production():
        if not (b_.file or "").startswith(("src/similarity", "src/matrix")) or b_.kind not in ("Fn", "AssocFn", "Closure"):
            continue
        for bi_, t_ in b_.calls():
            if t_.callee.method != "fold" or t_.callee.trait != "std::iter::Iterator" or len(t_.args) != 3:
                continue
            init_ = t_.args[1]
            iv_ = init_.float_value() if init_.kind == "const" else None
            if iv_ is None and init_.place is not None:
                for k_, p_, d_ in pvn.defs(b_).get(init_.place.local, []):
                    if k_ == "assign" and d_.rv["k"] == "use" and d_.rv["op"].kind == "const":
                        iv_ = d_.rv["op"].float_value()
            fn_ = None
            if t_.args[2].kind == "const":
                fn_ = t_.args[2].const.get("val", "")
            cb_ = prog.bodies.get(pv.closure_of_operand(b_, t_.args[2]) or "")
            is_max = bool(re.search(r"f(32|64)>?::max\b|::max$", fn_ or "")) or (cb_ is not None and cb_.kind == "Closure" and len(list(cb_.calls())) == 1 and any(ct.callee.method == "max" for _, ct in cb_.calls()))
            if is_max and iv_ is not None and iv_ == iv_ and iv_ not in (float("-inf"),):
                ck.ob("SELECT", "max-seed/%s" % b_.short, False, "%s takes a maximum with `fold(%s, max)`: the seed %s takes part in it, so the result is never below %s - a row / column whose scores are all smaller (negative similarities) gets the seed instead of its best match" % (b_.short, iv_, iv_, iv_), where=b_.where(t_.line))
    # ------------------------------------------------------------------ PARALLEL: side-by-side vectors (a cache kept as keys + values) stay aligned
    from engines import check_parallel_vectors
    ck.rule("PARALLEL", "two Vec fields of one struct that a method edits together are edited at the same position")
    ck.extra["side-by-side vector edits examined"] = check_parallel_vectors(ck, "PARALLEL", prog, [b for b in prog.production() if (b.file or "").startswith(("src/similarity", "src/matrix"))])

    # ------------------------------------------------------------------ ROLE: matrix construction and fill in GroupSimilarity::calculate
    gs = prog.body("similarity::GroupSimilarity::<T, C>::calculate")
    if ck.anchor("ROLE", "GroupSimilarity::calculate", gs):
        news = [(bi, t) for bi, t in gs.calls() if t.callee.res and t.callee.res.startswith("matrix::Matrix::") and t.callee.res.endswith("::new")]
        if not news:
            ck.undecided("ROLE", "matrix/new", "no Matrix::new call in GroupSimilarity::calculate", where=gs.where())
        for bi, t in news:
            p0 = params_of(pv.of_operand(gs, t.args[0]), gs.id)
            p1 = params_of(pv.of_operand(gs, t.args[1]), gs.id)
            ok = p0 == {2} and p1 == {3}
            ck.ob("ROLE", "matrix/new", ok, "Matrix::new(rows<-%s, cols<-%s) %s" % (sorted(gs.local_name(p) for p in p0), sorted(gs.local_name(p) for p in p1), "= (|a|, |b|)" if ok else "is not (|a|, |b|)"), where=gs.where(t.line))
        # the data handed to Matrix::new must hold rows * cols values (Matrix does not check): a fixed-size LOCAL array passed whole has a constant
        # length, whatever |a| * |b| is - the column iterator, which walks to the end of the slice, then reads the padding
        for bi, t in news:
            if len(t.args) < 3 or t.args[2].place is None:
                continue
            work_, seen_, whole = [t.args[2].place.local], set(), []
            while work_:
                l_ = work_.pop()
                if l_ in seen_:
                    continue
                seen_.add(l_)
                for k_, p_, d_ in pvn.defs(gs).get(l_, []):
                    if k_ != "assign":
                        continue
                    rv_ = d_.rv
                    if rv_["k"] in ("use", "cast") and rv_["op"].place is not None:
                        src_ = rv_["op"].place
                        if rv_["k"] == "cast" and "Unsize" in (rv_.get("kind") or ""):
                            # reference to a whole local array?
                            cur_, hops_ = src_.local, 0
                            while cur_ is not None and hops_ < 6:
                                hops_ += 1
                                nxt_ = None
                                for k2, p2, d2 in pvn.defs(gs).get(cur_, []):
                                    if k2 == "assign" and d2.rv["k"] == "ref" and not [e for e in d2.rv["place"].fields() if e != "*"]:
                                        al_ = d2.rv["place"].local
                                        m_ = re.match(r"^\[.*; (\d+)\]$", gs.locals[al_]["s"])
                                        if m_ and int(m_.group(1)) > 0 and al_ in gs.debug:
                                            whole.append((gs.local_name(al_), int(m_.group(1)), d_.line))
                                        else:
                                            nxt_ = al_
                                    elif k2 == "assign" and d2.rv["k"] == "use" and d2.rv["op"].place is not None and not [e for e in d2.rv["op"].place.fields() if e != "*"]:
                                        nxt_ = d2.rv["op"].place.local
                                cur_ = nxt_
                        if not [e for e in src_.fields() if e != "*"]:
                            work_.append(src_.local)
                    elif rv_["k"] == "ref" and not [e for e in rv_["place"].fields() if e != "*"]:
                        work_.append(rv_["place"].local)
            dims_const = all(a_.kind == "const" for a_ in t.args[:2])
            if whole and not dims_const:
                ck.ob("ROLE", "matrix/data-length", False, "Matrix::new receives the whole fixed-size array `%s` (%d values) as its data while rows * cols depends on the sets: only a sub-slice of rows * cols values is the matrix" % (whole[0][0], whole[0][1]), where=gs.where(whole[0][2]))
        # inner similarity call and loop nesting
        sims = [(bi, t) for bi, t in gs.calls() if t.callee.deff == "similarity::Similarity::calculate" or (t.callee.trait == "similarity::Similarity" and t.callee.method == "calculate")]
        if not sims:
            ck.undecided("ROLE", "fill/call", "no pairwise similarity call recognised", where=gs.where())
        for bi, t in sims:
            a1 = params_of(pv.of_operand(gs, t.args[1]), gs.id)
            a2 = params_of(pv.of_operand(gs, t.args[2]), gs.id)
            ok = a1 == {2} and a2 == {3}
            ck.ob("ROLE", "fill/args", ok, "pairwise similarity is computed as calculate(item of %s, item of %s)%s" % (sorted(gs.local_name(p) for p in a1), sorted(gs.local_name(p) for p in a2), "" if ok else " (expected (a, b))"), where=gs.where(t.line))
            # loops: the call sits in a loop nest; the `next` of the outer loop iterates a, of the inner loop b
            loops = gs.natural_loops()
            encl = sorted([(len(bl), h) for h, bl in loops.items() if bi in bl])
            if len(encl) < 2:
                ck.undecided("ROLE", "fill/nesting", "the pairwise call is not inside two nested loops (iterator-chain form?)", where=gs.where(t.line))
            else:
                def loop_source(h, blocks, inner_blocks):
                    src = set()
                    for x in blocks - inner_blocks:
                        tt = gs.blocks[x].term
                        if tt.k == "call" and tt.callee.method == "next" and tt.callee.trait == "std::iter::Iterator":
                            src |= params_of(pv.of_operand(gs, tt.args[0]), gs.id)
                    return src
                inner = loops[encl[0][1]]
                outer = loops[encl[1][1]]
                si = loop_source(encl[0][1], inner, set())
                so = loop_source(encl[1][1], outer, inner)
                ok = so == {2} and si == {3}
                if not ok and so == {2} and 3 in si:
                    # the inner iterator pairs the terms of b with something else (`b_terms.iter().zip(slots)`): it still walks b inside a
                    ok = True
                elif not ok and not (so == {3} or si == {2}) and (2 in so and 3 in si):
                    ck.undecided("ROLE", "fill/nesting", "the loops over a and b draw on %s / %s: which one is the outer loop is not told apart" % (sorted(gs.local_name(p) for p in so), sorted(gs.local_name(p) for p in si)), where=gs.where(t.line))
                    continue
                ck.ob("ROLE", "fill/nesting", ok, "outer loop iterates %s, inner loop iterates %s%s" % (sorted(gs.local_name(p) for p in so), sorted(gs.local_name(p) for p in si), " (row-major for rows=|a|)" if ok else ": the fill order does not match rows=|a|, cols=|b|"), where=gs.where(t.line))

    mn = prog.body("matrix::Matrix::<'a, T>::new")
    if mn is not None:
        for pos, st in mn.stmts():
            if st.k == "assign" and st.rv["k"] == "agg" and st.rv.get("adt", "").endswith("Matrix"):
                roles_here = sorted(set(dim_role.values()))
                if roles_here != ["cols", "rows"]:
                    ck.undecided("ROLE", "matrix/new-fields", "Matrix::new does not keep its two dimension arguments in two separate fields (found %s)" % roles_here, where=mn.where(st.line))
                else:
                    ck.ob("ROLE", "matrix/new-fields", True, "Matrix::new keeps its first argument (rows) and its second (cols) apart: %s" % sorted("%s.%s<-%s" % (k[0].rsplit("::", 1)[-1], k[1], v) for k, v in dim_role.items()), where=mn.where(st.line))

    if gs is not None:
        check_required_steps(ck, "ROLE", prog, gs, [("pairwise similarity of every (a, b)", lambda t: t.callee.trait == "similarity::Similarity" and t.callee.method == "calculate"),
                                                     ("Matrix::new", lambda t: (t.callee.res or "").endswith("::new") and (t.callee.res or "").startswith("matrix::Matrix")),
                                                     ("combine", lambda t: t.callee.trait == SC and t.callee.method in ("calculate", "combine"))])

    # ------------------------------------------------------------------ ROLE: cache key
    cs = prog.body("<similarity::CachedSimilarity<T> as similarity::Similarity>::calculate")
    if ck.anchor("ROLE", "impl Similarity for CachedSimilarity", cs):
        keys = [(pos, s) for pos, s in cs.stmts() if s.k == "assign" and s.rv["k"] == "agg" and s.rv["agg"] == "tuple" and len(s.rv["ops"]) == 2 and "HpoTermId, " in cs.locals[s.place.local]["s"]]
        if not keys:
            ck.undecided("ROLE", "cache/key", "cache key tuple not recognised", where=cs.where())
        for pos, s in keys:
            k0 = params_of(pv.of_operand(cs, s.rv["ops"][0]), cs.id)
            k1 = params_of(pv.of_operand(cs, s.rv["ops"][1]), cs.id)
            ok = k0 == {2} and k1 == {3}
            ck.ob("ROLE", "cache/key", ok, "cache key is (%s, %s)%s" % (sorted(cs.local_name(p) for p in k0), sorted(cs.local_name(p) for p in k1), "" if ok else ": not the ordered pair (a, b) - an asymmetric similarity would be served the wrong entry"), where=cs.where(s.line))
        inner = []
        for fb in prog.family(cs):
            for bi, t in fb.calls():
                if t.callee.trait == "similarity::Similarity" and t.callee.method == "calculate":
                    inner.append((fb, t))
        if not inner:
            ck.undecided("ROLE", "cache/miss", "inner similarity call not recognised", where=cs.where())
        for fb, t in inner:
            a1 = params_of(pv.of_operand(fb, t.args[1]), cs.id)
            a2 = params_of(pv.of_operand(fb, t.args[2]), cs.id)
            ok = a1 == {2} and a2 == {3}
            ck.ob("ROLE", "cache/miss", ok, "a cache miss computes similarity(%s, %s)%s" % (sorted(cs.local_name(p) for p in a1), sorted(cs.local_name(p) for p in a2), "" if ok else " (expected (a, b))"), where=fb.where(t.line))

    # ------------------------------------------------------------------ DISPATCH
    cb = prog.body("<similarity::StandardCombiner as similarity::SimilarityCombiner>::combine")
    if ck.anchor("DISPATCH", "impl SimilarityCombiner for StandardCombiner", cb):
        total = 0
        variants = [v["name"] for v in prog.adts[STD]["variants"]]
        for sw in enum_arms(prog, cb, STD):
            for vname, edge in sorted(sw["arms"].items()):
                total += 1
                region = cb.region(edge)
                labs = []
                for bi in region:
                    t = cb.blocks[bi].term
                    if t.k == "call" and t.callee.res and t.callee.res.startswith(STD + "::"):
                        m = t.callee.res.rsplit("::", 1)[-1]
                        if norm_name(m) in {norm_name(v) for v in variants}:
                            labs.append((m, t))
                if not labs:
                    ck.undecided("DISPATCH", "combine/" + vname, "arm %s: no helper named after a variant" % vname, where=cb.where(sw["line"]))
                    continue
                wrong = [x for x in labs if norm_name(x[0]) != norm_name(vname)]
                ck.ob("DISPATCH", "combine/" + vname, not wrong, "arm %s of StandardCombiner::combine calls %s" % (vname, (wrong or labs)[0][0]), where=cb.where((wrong or labs)[0][1].line))
        ck.floor("DISPATCH", "StandardCombiner::combine arms", total, 3)

    # ---- the matrix row / column iterators answer each protocol method with the inner iterator's SAME method
    ck.rule("SIBLING", "an iterator wrapper's next / next_back / len / size_hint delegates to the same method of the inner iterator (DESIGN 3.15)")
    from engines import check_iterator_delegations
    check_iterator_delegations(ck, "SIBLING", prog, r"^src/matrix\.rs$")

    # ------------------------------------------------------------------ FORMULA: the three combinations
    ck.rule("FORMULA", "the result of each combiner, extracted as an expression over (sum of row maxima, sum of column maxima, rows, cols) and normalised to a "
                       "quotient of polynomials (max opaque, commutative), equals the documented combination")
    from expr import Extract, S, C, F, add, div, show, unknowns
    from expr import equal as expr_equal
    pv_ni = Prov(prog, inline=False)

    def leaf(ex, body, kind, obj):
        if kind == "call":
            t = obj
            if t.callee.trait == "std::iter::Iterator" and t.callee.method == "sum" and len(t.args) == 1:
                names = {a[1].rsplit("::", 1)[-1] for a in pv_ni.of_operand(body, t.args[0]) if a[0] == "call" and a[1].rsplit("::", 1)[-1] in ("row_maxes", "col_maxes")}
                if len(names) == 1:
                    return S("sum(%s)" % next(iter(names)))
                return None
            r = t.callee.res or t.callee.name or ""
            if r.endswith("usize_to_f32") and len(t.args) == 1:
                return ex.operand(body, t.args[0], 0, getattr(ex, "_at", None))
        if kind == "place":
            pl = obj
            fs = [e for e in pl.fields() if e != "*"]
            if len(fs) == 1 and fs[0][0] == "f" and fs[0][1] in ("0", "1"):
                src = {a[1].rsplit("::", 1)[-1] for a in pv_ni.of_local(body, pl.local) if a[0] == "call"}
                if "dim_f32" in src or "dim" in src:
                    return S("rows" if fs[0][1] == "0" else "cols")
        return None
    EX = Extract(prog, pv, leaf)
    SR, SCm, R, Cc = S("sum(row_maxes)"), S("sum(col_maxes)"), S("rows"), S("cols")
    FORMS = [
        ("fun_sim_avg", div(add(div(SR, R), div(SCm, Cc)), C(2)), "(mean of row maxima + mean of column maxima) / 2"),
        ("fun_sim_max", F("max", div(SR, R), div(SCm, Cc)), "max(mean of row maxima, mean of column maxima)"),
        ("bma", div(add(SR, SCm), add(R, Cc)), "(sum of row maxima + sum of column maxima) / (rows + cols)"),
    ]
    n_f = 0
    for name, want, text in FORMS:
        fb = prog.one(r"^similarity::StandardCombiner::%s$" % name)
        if fb is None:
            ck.undecided("FORMULA", name, "private helper StandardCombiner::%s not found" % name)
            continue
        rets = []
        for kind, pos, d in pv.defs(fb).get(0, []):
            e = EX.rvalue(fb, d, 0, pos) if kind == "assign" else EX.call(fb, d, 0, pos)
            rets.append((d.line, e))
        for i, (ln_, e) in enumerate(rets):
            eq = expr_equal(e, want)
            key = name if i == 0 else "%s/%d" % (name, i)
            n_f += 1
            if eq is None:
                ck.undecided("FORMULA", key, "%s: result expression %s has leaves that are not recognised (%s)" % (name, show(e), "; ".join(unknowns(e)[:2])), where=fb.where(ln_))
            else:
                ck.ob("FORMULA", key, eq, "%s returns %s %s the documented %s" % (name, show(e), "=" if eq else "which is NOT algebraically equal to", text), where=fb.where(ln_))
    ck.floor("FORMULA", "combiner formulas examined (decided or undecided)", n_f, 3)

    # ---- constructors: a field named like a parameter is initialised from that parameter, not from a sibling of the same type
    ck.rule("CTOR", "in a struct literal, the field `f` of a function with a parameter `f` derives from that parameter (DESIGN 3.9)")
    # the public wrapper hands its two sets and its two strategy objects to the group similarity in the documented positions
    hs = prog.one(r"^set::HpoSet::<'a>::similarity$")
    if hs is not None:
        pvw = Prov(prog, inline=False)
        calcs = [(bi, t) for bi, t in hs.calls() if (t.callee.res or "").endswith("::calculate") and "GroupSimilarity" in (t.callee.res or "") and len(t.args) == 3]
        news = [(bi, t) for bi, t in hs.calls() if (t.callee.res or "").endswith("GroupSimilarity::<T, C>::new") and len(t.args) == 2]
        if len(calcs) != 1:
            ck.undecided("ROLE", "HpoSet::similarity/args", "the call of GroupSimilarity::calculate is not recognised", where=hs.where())
        else:
            bi, t = calcs[0]
            a, b_ = params_of(pvw.of_operand(hs, t.args[1]), hs.id), params_of(pvw.of_operand(hs, t.args[2]), hs.id)
            ok = a == {1} and b_ == {2}
            ck.ob("ROLE", "HpoSet::similarity/args", ok, "HpoSet::similarity computes calculate(%s, %s) (expected (self, other): the term similarity is evaluated as sim(self_i, other_j), which matters for an asymmetric measure)" % (
                "self" if a == {1} else "other" if a == {2} else sorted(a), "other" if b_ == {2} else "self" if b_ == {1} else sorted(b_)), where=hs.where(t.line))
        for bi, t in news:
            c_, s_ = params_of(pvw.of_operand(hs, t.args[0]), hs.id), params_of(pvw.of_operand(hs, t.args[1]), hs.id)
            ck.ob("ROLE", "HpoSet::similarity/strategies", c_ == {4} and s_ == {3}, "GroupSimilarity::new receives (combiner, similarity) from the parameters %s, %s (expected the `combiner` and `similarity` arguments)" % (sorted(c_), sorted(s_)), where=hs.where(t.line))

    # row maxima and column maxima are two lists of DIFFERENT length (|A| and |B|): zipping them drops the tail of the longer one
    ck.rule("ZIP", "no `zip` pairs the row maxima with the column maxima (or rows with columns): the shorter side would cut the longer one off")
    n_zip = 0
    for b_ in prog.production():
        if b_.file != "src/similarity.rs":
            continue
        for bi, t in b_.calls():
            if t.callee.method != "zip" or len(t.args) != 2:
                continue
            n_zip += 1
            sides = []
            for a in t.args:
                at = pv.of_operand(b_, a)
                sides.append(frozenset(x[1].rsplit("::", 1)[-1] for x in at if x[0] == "call" and x[1].rsplit("::", 1)[-1] in ("row_maxes", "col_maxes", "rows", "cols")))
            r0, r1 = sides
            cross = (r0 & {"row_maxes", "rows"} and r1 & {"col_maxes", "cols"} and not (r0 & {"col_maxes", "cols"}) and not (r1 & {"row_maxes", "rows"})) or \
                    (r1 & {"row_maxes", "rows"} and r0 & {"col_maxes", "cols"} and not (r1 & {"col_maxes", "cols"}) and not (r0 & {"row_maxes", "rows"}))
            root_ = prog.bodies[b_.root] if b_.kind == "Closure" and b_.root in prog.bodies else b_
            ck.ob("ZIP", "zip/%s/%d" % (root_.short, n_zip), not cross, "%s zips %s with %s%s" % (root_.short, sorted(r0) or "?", sorted(r1) or "?", "" if not cross else ": one list has |A| entries, the other |B| - for sets of different size the longer list loses its tail, so its maxima never reach the sum"), where=b_.where(t.line))
    ck.extra["zip calls examined in similarity.rs"] = n_zip

    # the score travels from the combiner to the caller unchanged: combine -> SimilarityCombiner::calculate -> GroupSimilarity::calculate -> HpoSet::similarity
    ck.rule("ASIS", "each layer between the combiner formula and the public entry point returns the inner result as it is (no clamp / rounding / rescaling on the way)")
    from engines import steps_after_call
    pva = Prov(prog, inline=False, mutflow=False)
    chain = [(SC + "::calculate", "combine", lambda c: c.method == "combine" and (c.deff == SC + "::combine" or (c.trait or "") == SC)),
             ("similarity::GroupSimilarity::<T, C>::calculate", "the combiner's calculate", lambda c: c.method == "calculate" and ((c.trait or "") == SC or c.deff == SC + "::calculate")),
             ("set::HpoSet::<'a>::similarity", "GroupSimilarity::calculate", lambda c: c.method == "calculate" and "GroupSimilarity" in ((c.res or "") + (c.def_args or "")))]
    n_asis = 0
    for bid, what, cpred in chain:
        lb_ = prog.body(bid)
        if lb_ is None:
            ck.undecided("ASIS", bid.rsplit("::", 1)[0].rsplit("::", 1)[-1] + "::" + bid.rsplit("::", 1)[-1], "%s not found" % bid)
            continue
        st_ = steps_after_call(lb_, pva, lambda t_: cpred(t_.callee))
        key = "as-is/" + lb_.short
        if st_ is None:
            ck.undecided("ASIS", key, "%s does not return the result of %s directly (other structure)" % (lb_.short, what), where=lb_.where())
            continue
        n_asis += 1
        ck.ob("ASIS", key, not st_, "%s returns the result of %s %s" % (lb_.short, what, "unchanged" if not st_ else "after `%s`: scores outside what that step lets through are silently altered" % "`, `".join(st_)), where=lb_.where())
    ck.floor("ASIS", "layers between combiner and entry point", n_asis, 2, soft=True)

    ck.rule("GUARD", "numeric conversion helpers are exact or fail (DESIGN 3.5)")
    from props.shared import check_exact_conversion
    check_exact_conversion(ck, "GUARD", prog, "similarity::usize_to_f32", "the matrix dimensions")
    from props.shared import check_conversion_range
    check_conversion_range(ck, "GUARD", prog, "similarity::usize_to_f32", 16, "matrix dimensions up to u16 are accepted (the reviewed bound)")
    from engines import check_ctors
    check_ctors(ck, "CTOR", prog, r"^src/(matrix|similarity)\.rs$", floor=8)
    # container methods of the wrapper types answer with the same-named method of one inner collection
    ck.rule("WRAPPER", "len / is_empty / contains / get / iter / push ... of a wrapper type delegate to the same-named method of ONE inner collection, un-negated (DESIGN 3.9)")
    from engines import check_wrappers
    check_wrappers(ck, "WRAPPER", prog, r"^src/matrix\.rs$", floor=2)
    # iterators that turn one inner item into one item of their own never answer None while the inner iterator still has items
    ck.rule("MAPITER", "a hand-written mapping iterator returns None only on the inner iterator's exhaustion (no early end on a failed lookup)")
    from engines import check_mapping_iterators
    check_mapping_iterators(ck, "MAPITER", prog, r"^src/matrix\.rs$", floor=2)
    # the names accepted by StandardCombiner::try_from select the combiner of that name
    ck.rule("NAMES", "a name-to-variant table maps every accepted name to the variant it names")
    from engines import check_name_table
    sc = prog.body("<similarity::StandardCombiner as std::convert::TryFrom<&str>>::try_from")
    if ck.anchor("NAMES", "StandardCombiner::try_from(&str)", sc):
        check_name_table(ck, "NAMES", "StandardCombiner::try_from", sc, r"similarity::StandardCombiner$", floor=3)
