"""C12 - groups as sorted sets (clauses: TAINT unchecked append, DOM/SELECT insert/contains/&, DISPATCH+ROLE merge arms, ROLE ancestor queries)"""
import re
from engines import positive_edges
from engines import RefDeriv
from engines import check_complete_iteration
from prov import Prov, params_of, field_names

CLAIM = ("(TAINT) an order-unchecked append to a group's id vector only ever receives an id that was obtained by iterating a group (a sorted, "
         "duplicate-free source), never a caller-supplied id; (DOM/SELECT) HpoGroup::insert inserts only on the not-found arm of the search, at the "
         "index that arm carries, and returns true there and false on the found arm; contains has positive polarity; `&` appends an element of one "
         "operand on the positive edge of membership in the other and reads both operands; (DISPATCH+ROLE) in the `|` merge the Less arm appends and "
         "advances the side that compared smaller, Greater the other side, Equal appends one value and advances both, and each drain arm appends and "
         "advances its own side; (ROLE) common/union ancestor queries apply `&` / `|` to the closure sets of BOTH terms (plus both ids in the all_common variant).")
NOT_DECIDED = ("that these local facts add up to set semantics for every pair of groups (the merge's loop invariant), std's binary search, and the "
               "inclusiveness of all_union_ancestor_ids, whose prose and executable doc example contradict each other (recorded as an observation).")

G = "term::group::HpoGroup"
IDS_OWNER = "HpoGroup"


def is_ids_place_atoms(atoms):
    return "ids" in field_names(atoms, IDS_OWNER)


def root_vars(body, pvn, op):
    """user variables (debug locals) the operand is a borrow / copy / deref / as_slice of"""
    if op.place is None:
        return set()
    out, work, seen_ = set(), [op.place.local], set()
    while work:
        l = work.pop()
        if l in seen_:
            continue
        seen_.add(l)
        if l in body.debug:
            out.add(l)
            continue
        for k_, p_, d_ in pvn.defs(body).get(l, []):
            if k_ == "call" and d_.callee.method in ("deref", "as_slice", "as_ref", "borrow") and d_.args and d_.args[0].place is not None:
                work.append(d_.args[0].place.local)
            elif k_ == "assign" and d_.rv["k"] == "ref":
                work.append(d_.rv["place"].local)
            elif k_ == "assign" and d_.rv["k"] == "use" and d_.rv["op"].place is not None:
                work.append(d_.rv["op"].place.local)
    return out


def slice_end_of(body, pvn, op):
    """('first'|'last', root variables) when the operand is the Option handed out by first() / last() of a slice"""
    for a in pvn.of_operand(body, op):
        if a[0] == "call" and a[3] == body.id and (a[1].endswith("::first") or a[1].endswith("::last")):
            ct = body.blocks[a[4]].term
            return ct.callee.method, frozenset(root_vars(body, pvn, ct.args[0])) if ct.args else frozenset()
    return None


def strict_range_guard(body, pvn, site_bb, first_roots, second_roots):
    """is the block `site_bb` dominated by the edge on which  last(<first>) < first(<second>)  holds?  True / False (a non-strict or otherwise
    wrong comparison of exactly these ends guards it) / None (no such comparison)"""
    verdict = None
    for cbi, ct in body.calls():
        if ct.callee.method not in ("lt", "le", "gt", "ge") or len(ct.args) != 2:
            continue
        l_, r_ = slice_end_of(body, pvn, ct.args[0]), slice_end_of(body, pvn, ct.args[1])
        if l_ is None or r_ is None:
            continue
        pos = positive_edges(body, pvn, cbi)
        for sbi in sorted(body.reach):
            x = body.blocks[sbi].term
            if x.k != "switch":
                continue
            for tg in x.successors():
                if not body.edge_dominates((sbi, tg), site_bb):
                    continue
                if not any(e[0] == sbi for e in pos):
                    continue
                holds = (sbi, tg) in pos
                rel = {("lt", True): "<", ("le", True): "<=", ("gt", True): ">", ("ge", True): ">=", ("lt", False): ">=", ("le", False): ">", ("gt", False): "<=", ("ge", False): "<"}[(ct.callee.method, holds)]
                a_, b_ = l_, r_
                if rel in (">", ">="):
                    a_, b_ = r_, l_
                    rel = "<" if rel == ">" else "<="
                if a_[0] == "last" and b_[0] == "first" and a_[1] and b_[1] and a_[1] <= first_roots and b_[1] <= second_roots:
                    v = rel == "<"
                    verdict = v if verdict is None else (verdict and v)
    return verdict


def for_loops_(b):
    from engines import for_loops
    return for_loops(b)


def classifier_arms(prog, pvn, b):
    """`match classify(x, y) { V1 | V2 => .., V3 => .. }` in `b`, where `classify` is a crate function of b's two term parameters that returns a
    field-less enum and builds each variant under eq / parent_of / child_of tests of its own two parameters.
    -> {"fn": classifier body, "switch": bb of the match, "targets": [(variant name, target bb)], "rel": {variant: [(upper params of b, lower
    params of b)]}, "why": {variant: text}} or None.  A variant built under no positive test (the `else` of the chain) has no relation."""
    from engines import positive_edges
    for cbi, ct in b.calls():
        cl = prog.bodies.get(ct.callee.res or "")
        if cl is None or cl.kind not in ("Fn", "AssocFn") or len(ct.args) != 2 or cl.natural_loops():
            continue
        amap = {}
        for i, a in enumerate(ct.args, 1):
            ps = params_of(pvn.of_operand(b, a), b.id)
            if len(ps) == 1:
                amap[i] = next(iter(ps))
        if sorted(amap.values()) != [1, 2]:
            continue
        built = {}
        adt = None
        for pos, st in cl.stmts():
            if st.k == "assign" and st.place.local == 0 and st.rv["k"] == "agg" and st.rv.get("agg") == "adt" and not st.rv.get("ops"):
                info = prog.adts.get(st.rv.get("adt") or "", {})
                if info.get("enum") and all(not v.get("fields") for v in info.get("variants", [])):
                    adt = info
                    built.setdefault(st.rv.get("variant"), []).append(pos[0])
        if adt is None or len(built) < 2:
            continue
        names = [v["name"] for v in adt["variants"]]
        rel, why = {}, {}
        for v, bbs in built.items():
            rs = []
            for gbi, gt in cl.calls():
                gm = gt.callee.method
                if gm not in ("child_of", "parent_of", "eq") or len(gt.args) != 2:
                    continue
                g0, g1 = params_of(pvn.of_operand(cl, gt.args[0]), cl.id), params_of(pvn.of_operand(cl, gt.args[1]), cl.id)
                if not (len(g0) == 1 and len(g1) == 1 and g0 | g1 == {1, 2}):
                    continue
                if all(any(cl.edge_dominates(e, bb_) for e in positive_edges(cl, pvn, gbi)) for bb_ in bbs):
                    m0, m1 = {amap[next(iter(g0))]}, {amap[next(iter(g1))]}
                    if gm == "eq":
                        rs.append(({1, 2}, {1, 2}))
                    elif gm == "child_of":
                        rs.append((m1, m0))
                    else:
                        rs.append((m0, m1))
                    why[v] = "%s(%s, %s) holds" % (gm, cl.local_name(next(iter(g0))), cl.local_name(next(iter(g1))))
            rel[v] = rs
        # the match on the call's result
        for sbi in sorted(b.reach):
            x = b.blocks[sbi].term
            if x.k != "switch" or not any(a[0] == "call" and a[3] == b.id and a[4] == cbi for a in pvn.of_operand(b, x.discr)):
                continue
            tg_ = [(names[v], tg) for v, tg in x.targets if isinstance(v, int) and 0 <= v < len(names)]
            if tg_:
                return {"fn": cl, "switch": sbi, "targets": tg_, "rel": rel, "why": why}
    return None


def error_blocks_c12(b):
    from engines import error_blocks
    return error_blocks(b)


def run(ck, prog, ctx):
    ck.rule("TAINT", "source-to-sink: unchecked append sink reached only by iterated group elements (DESIGN 3.14)")
    ck.rule("DOM", "search-arm dominance and returned flag (DESIGN 3.6/3.10)")
    ck.rule("MERGE", "per-arm append/advance roles of the sorted merge (DESIGN 3.11/3.4)")
    ck.rule("ROLE", "operands of the ancestor-set queries (DESIGN 3.4)")
    pv = Prov(prog)
    pvn = Prov(prog, inline=False)

    # ------------------------------------------------------------------ TAINT
    # direct sinks: SmallVec::push whose receiver denotes HpoGroup.ids
    def direct_sinks(b):
        out = []
        for bi, t in b.calls():
            c = t.callee
            if c.method == "push" and "SmallVec" in (c.def_args or "") and "HpoTermId" in (c.def_args or ""):
                if is_ids_place_atoms(pvn.of_operand(b, t.args[0])):
                    out.append((bi, t, 1))
        return out

    # wrappers: crate functions that push one of their own parameters unchecked
    wrappers = {}
    for b in prog.production():
        if b.kind not in ("Fn", "AssocFn") or b.reachable or b.impl_trait:
            continue  # only private helpers can be wrappers; a public function that appends its argument unchecked is a sink itself
        for bi, t, vi in direct_sinks(b):
            ps = params_of(pvn.of_operand(b, t.args[vi]), b.id)
            for p in ps:
                if b.locals[p]["s"].endswith("HpoTermId"):
                    wrappers[b.id] = p
    sinks = []
    for b in prog.production():
        if b.kind not in ("Fn", "AssocFn", "Closure") or b.id in wrappers:
            continue
        for bi, t, vi in direct_sinks(b):
            sinks.append((b, bi, t, vi))
        for bi, t in b.calls():
            if t.callee.res in wrappers:
                sinks.append((b, bi, t, wrappers[t.callee.res] - 1))
    APPENDS = {"extend_from_slice", "extend", "append", "insert_many", "insert_from_slice", "extend_from_within", "push", "insert"}

    _pvc = Prov(prog, inline=False, mutflow=False)

    def fresh_root(b, op):
        """the operand is (a borrow of a field of) a local created by a constructor call in this body"""
        l = op.place.local if op.place is not None else None
        seen_ = set()
        while l is not None and l not in seen_:
            seen_.add(l)
            ds = _pvc.defs(b).get(l, [])
            if len(ds) != 1:
                return False
            kind_, pos_, d_ = ds[0]
            if kind_ == "call":
                return d_.callee.method in ("with_capacity", "new", "default")
            if d_.rv["k"] == "ref":
                l = d_.rv["place"].local
            elif d_.rv["k"] == "use" and d_.rv["op"].place is not None:
                l = d_.rv["op"].place.local
            else:
                return False
        return False

    def split_insert(b, bi):
        """the append at block bi is part of an insertion at the searched position:
        `Err(i) = src.binary_search(&x)`, `(lo, hi) = src.split_at(i)`, then exactly  fresh.extend(lo); fresh.push(x); fresh.extend(hi).
        None: no search dominates the append; True: the idiom is complete; False: a search dominates but the shape is another"""
        pvc = _pvc
        for sbi, stt in b.calls():
            if stt.callee.method != "binary_search" or len(stt.args) != 2:
                continue
            edge = None
            for wb in sorted(b.reach):
                x = b.blocks[wb].term
                if x.k == "switch" and any(a[0] == "call" and a[3] == b.id and a[4] == sbi for a in pvc.of_operand(b, x.discr)):
                    tg = dict(x.targets).get(1)
                    if tg is not None and b.edge_dominates((wb, tg), bi):
                        edge = (wb, tg)
            if edge is None:
                continue
            src = pvc.of_operand(b, stt.args[0])
            if not is_ids_place_atoms(src):
                return False
            needle = params_of(pvc.of_operand(b, stt.args[1]), b.id)
            seq = sorted([(obi, ot) for obi, ot in b.calls() if ot.callee.method in APPENDS and ot.args and is_ids_place_atoms(pvc.of_operand(b, ot.args[0])) and b.edge_dominates(edge, obi)
                          and fresh_root(b, ot.args[0])],
                         key=lambda q: len([1 for q2 in b.calls() if b.dominates(q2[0], q[0])]))
            if sorted(q[1].callee.method for q in seq) != ["extend_from_slice", "extend_from_slice", "push"]:
                return False

            def half(op):
                out = set()
                for a in pvc.of_operand(b, op):
                    # `&src[..i]` / `&src[i..]` with i the not-found position
                    if a[0] == "call" and a[3] == b.id and re.search(r"Index<std::ops::Range(To|From)<usize>>", a[2] or ""):
                        it2 = b.blocks[a[4]].term
                        rl = it2.args[1].place.local if len(it2.args) > 1 and it2.args[1].place is not None else None
                        for k3, p3, d3 in pvc.defs(b).get(rl, []) if rl is not None else []:
                            if k3 == "assign" and d3.rv["k"] == "agg" and re.search(r"Range(To|From)$", d3.rv.get("adt", "")):
                                idx_ok = any(x[0] == "call" and x[4] == sbi and any(e[0] == "dc" and e[1] == "Err" for e in x[5]) for x in pvc.of_operand(b, d3.rv["ops"][0]))
                                same = is_ids_place_atoms(pvc.of_operand(b, it2.args[0])) and params_of(pvc.of_operand(b, it2.args[0]), b.id) == params_of(src, b.id)
                                if idx_ok and same:
                                    out.add("0" if d3.rv["adt"].endswith("RangeTo") else "1")
                    if a[0] == "call" and a[3] == b.id and a[1].endswith("::split_at"):
                        st2 = b.blocks[a[4]].term
                        idx_ok = any(x[0] == "call" and x[4] == sbi and any(e[0] == "dc" and e[1] == "Err" for e in x[5]) for x in pvc.of_operand(b, st2.args[1]))
                        same = params_of(pvc.of_operand(b, st2.args[0]), b.id) == params_of(src, b.id) and is_ids_place_atoms(pvc.of_operand(b, st2.args[0]))
                        if idx_ok and same:
                            out |= {e[1] for e in a[5] if e[0] == "f" and e[1] in ("0", "1")}
                return out
            tags = []
            for obi, ot in seq:
                if ot.callee.method == "push":
                    tags.append("x" if needle and params_of(pvc.of_operand(b, ot.args[1]), b.id) == needle else "?")
                else:
                    h = half(ot.args[1])
                    tags.append("lo" if h == {"0"} else "hi" if h == {"1"} else "?")
            if tags == ["lo", "x", "hi"]:
                return True
            if sorted(tags) == ["hi", "lo", "x"]:
                return "order"
            return False
        return None

    def sorted_append_guard(b, bi, val_op):
        """the unchecked `push(x)` at block bi is reached only when the vector is empty or its LAST id is strictly below x:
        True / False (a guard on `last` exists but is not strict, or tests something else) / None (no such guard).  Recognised spellings:
        `match ids.last() { None => .., Some(l) => *l < x }` (directly or through a bool), `ids.last().map_or(true, |l| *l < x)`, `is_none_or`,
        `ids.is_empty() || ..`"""
        pvc = _pvc
        x_src = params_of(pvc.of_operand(b, val_op), b.id)

        def is_last(op_local):
            for kind_, pos_, d_ in pvc.defs(b).get(op_local, []):
                if kind_ == "call" and d_.callee.method == "last" and d_.args and is_ids_place_atoms(pvc.of_operand(b, d_.args[0])):
                    return True
            return False

        def strict_below(body_, t_, elem_pred, x_pred):
            """call `a < x` / `x > a` (PartialOrd on ids): strictly, element on the smaller side"""
            if t_.callee.trait not in ("std::cmp::PartialOrd",) or len(t_.args) != 2:
                return None
            m_ = t_.callee.method
            if m_ == "lt":
                return elem_pred(t_.args[0]) and x_pred(t_.args[1])
            if m_ == "gt":
                return elem_pred(t_.args[1]) and x_pred(t_.args[0])
            return False if m_ in ("le", "ge") else None

        def payload_of_last(op):
            if op.place is None:
                return False
            for a in pvc.of_operand(b, op):
                if a[0] == "call" and a[3] == b.id and a[1].endswith("]>::last"):
                    return True
            return False

        def is_x(op):
            return bool(x_src) and params_of(pvc.of_operand(b, op), b.id) == x_src and not payload_of_last(op)

        verdicts = []

        def judge_bool_local(l, depth=0):
            """every definition of the bool local is `true under None-of-last`, a strict comparison, or a map_or(true, strict)"""
            out = []
            for kind_, pos_, d_ in pvc.defs(b).get(l, []):
                if kind_ == "assign":
                    rv = d_.rv
                    if rv["k"] == "use" and rv["op"].kind == "const":
                        tv = rv["op"].const.get("val") == "true"
                        # constant true: only on the None arm of last()
                        okc = False
                        for sb in sorted(b.reach):
                            x_ = b.blocks[sb].term
                            if x_.k == "switch" and x_.discr.place is not None:
                                for k2, p2, d2 in pvc.defs(b).get(x_.discr.place.local, []):
                                    if k2 == "assign" and d2.rv["k"] == "discr" and is_last(d2.rv["place"].local):
                                        none_t = dict(x_.targets).get(0)
                                        if none_t is not None and b.edge_dominates((sb, none_t), pos_[0]):
                                            okc = True
                        out.append(okc if tv else True)
                    elif rv["k"] == "use" and rv["op"].place is not None and rv["op"].place.is_local() and depth < 4:
                        out += judge_bool_local(rv["op"].place.local, depth + 1)
                    else:
                        out.append(None)
                else:
                    t_ = d_
                    sb_ = strict_below(b, t_, payload_of_last, is_x)
                    if sb_ is not None:
                        out.append(sb_)
                    elif t_.callee.method in ("map_or", "is_none_or") and t_.args and t_.args[0].place is not None and is_last(t_.args[0].place.local):
                        dflt_ok = t_.callee.method == "is_none_or" or (len(t_.args) == 3 and t_.args[1].kind == "const" and t_.args[1].const.get("val") == "true")
                        cb_ = prog.bodies.get(pv.closure_of_operand(b, t_.args[-1]) or "")
                        okc = False
                        if cb_ is not None and not cb_.natural_loops():
                            pvb = Prov(prog, inline=False, mutflow=False, bind_closures=False)
                            for cbi_, ct_ in cb_.calls():
                                if ct_.dest is not None and ct_.dest.is_local() and ct_.dest.local == 0:
                                    r_ = strict_below(cb_, ct_, lambda o: params_of(pvb.of_operand(cb_, o), cb_.id) == {2}, lambda o: params_of(pv.of_operand(cb_, o), b.id) == x_src and 2 not in params_of(pvb.of_operand(cb_, o), cb_.id))
                                    okc = bool(r_)
                        out.append(dflt_ok and okc)
                    elif t_.callee.method == "is_empty" and t_.args and is_ids_place_atoms(pvc.of_operand(b, t_.args[0])):
                        out.append(True)
                    else:
                        out.append(None)
            return out
        for sb in sorted(b.reach):
            x_ = b.blocks[sb].term
            if x_.k != "switch" or x_.discr.place is None or not x_.discr.place.is_local():
                continue
            tt = [tg for v, tg in x_.targets if v != 0] or ([x_.otherwise] if [v for v, _ in x_.targets] == [0] else [])
            if x_.discr_ty == "bool" and tt and b.edge_dominates((sb, tt[0]), bi):
                js = judge_bool_local(x_.discr.place.local)
                if js and any(j is not None for j in js):
                    verdicts.append(all(j is True for j in js))
            # directly under the None arm of `last()`
            for k2, p2, d2 in pvc.defs(b).get(x_.discr.place.local, []):
                if k2 == "assign" and d2.rv["k"] == "discr" and is_last(d2.rv["place"].local):
                    none_t = dict(x_.targets).get(0)
                    if none_t is not None and b.edge_dominates((sb, none_t), bi):
                        verdicts.append(True)
        if not verdicts:
            return None
        return all(verdicts)

    # a private helper whose only unchecked push is a complete insertion-at-the-searched-position (`with_id`) checks order and uniqueness itself:
    # its callers are not sinks, the helper is judged as a sink of its own
    safe_wrappers = {wid for wid in wrappers if all(split_insert(prog.bodies[wid], bi_) is True for bi_, t_, vi_ in direct_sinks(prog.bodies[wid]))}
    if safe_wrappers:
        sinks = [x for x in sinks if not (x[2].callee.res in safe_wrappers)]
        for wid in sorted(safe_wrappers):
            for bi_, t_, vi_ in direct_sinks(prog.bodies[wid]):
                sinks.append((prog.bodies[wid], bi_, t_, vi_))
    cnt = {}
    for b, bi, t, vi in sorted(sinks, key=lambda x: (x[0].id, x[1])):
        si = split_insert(b, bi)
        if si is not None:
            base = b.short
            i = cnt.get(base, 0)
            cnt[base] = i + 1
            if si == "order":
                ck.ob("TAINT", "append/%s/%d" % (base, i), False, "%s copies the two halves around the searched position and the new id in another order than (below, id, above): the result is not sorted" % b.short, where=b.where(t.line))
            elif si:
                ck.ob("TAINT", "append/%s/%d" % (base, i), True, "%s copies the ids below the searched position, then the new id, then the ids above it (position = the not-found result of a binary search for that id)" % b.short, where=b.where(t.line))
            else:
                ck.undecided("TAINT", "append/%s/%d" % (base, i), "%s appends an id under the not-found arm of a binary search, in a shape that is not recognised" % b.short, where=b.where(t.line))
            continue
        sg = sorted_append_guard(b, bi, t.args[vi]) if t.callee.method == "push" else None
        if sg is not None:
            base = b.short
            i = cnt.get(base, 0)
            cnt[base] = i + 1
            ck.ob("TAINT", "append/%s/%d" % (base, i), sg, "%s appends an id at the end %s" % (b.short, "only when the vector is empty or its last id is strictly smaller (sorted-input fast path)" if sg else "under a test of the last id that is NOT `last < id`: an id equal to (or below) the last one is stored out of order / twice"), where=b.where(t.line))
            continue
        val = pvn.of_operand(b, t.args[vi])
        iterated = [a for a in val if a[0] == "call" and a[1].endswith("::next") and ("group::Iter" in a[2] or "slice::Iter<'_, term::hpotermid::HpoTermId>" in a[2])]
        bad_params = []
        for a in val:
            if a[0] == "param" and a[1] == b.id:
                ty = b.locals[a[2]]["s"]
                if not re.search(r"HpoGroup|SmallVec", ty):
                    bad_params.append(b.local_name(a[2]))
        base = b.short
        i = cnt.get(base, 0)
        cnt[base] = i + 1
        indexed = "ids" in field_names(val, IDS_OWNER) and not any(a[0] == "call" and a[1].endswith("::next") for a in val)
        ok = (bool(iterated) or indexed) and not bad_params
        own_iter = [a for a in val if a[0] == "call" and a[1].endswith("::next") and any(("<" + ap + " ") in a[2] or ("<" + ap + "<") in a[2] for ap in prog.adts if ap.startswith("term::") and not ap.endswith("group::Iter"))]
        if not ok and not bad_params and own_iter:
            ck.undecided("TAINT", "append/%s/%d" % (base, i), "%s appends unchecked the ids a private iterator of the crate yields (%s): whether they come sorted and without repetition is that iterator's business, which this rule does not analyse" % (b.short, re.sub(r" as .*$", "", own_iter[0][2]).lstrip("<")), where=b.where(t.line))
            continue
        msg = ("%s appends unchecked an id %s" % (b.short, ("taken from iterating a group" if iterated else "taken from a group's id vector by index") if ok else ("that is the caller-supplied `%s` (order/uniqueness not checked)" % bad_params[0] if bad_params else "that does not come from iterating a group")))
        ck.ob("TAINT", "append/%s/%d" % (base, i), ok, msg, where=b.where(t.line))
    ck.floor("TAINT", "unchecked append sites", len(sinks), 2, soft=True)
    # ---- a conversion INTO a group that walks its source in a loop stores what it walks: each such loop contains an insertion
    # (`for id in s { group.insert(id); }` with the insert gone builds an empty group out of any input)
    from engines import for_loops as _fl12c
    for cb12 in sorted(prog.production(), key=lambda z: z.id):
        if cb12.kind == "AssocFn" and cb12.impl_trait and re.match(r"std::(convert::From|iter::FromIterator|iter::Extend)", cb12.impl_trait) and (cb12.impl_self or {}).get("adt") == G and not cb12.test:
            for li_, lp_ in enumerate(_fl12c(cb12)):
                puts_ = [t_ for bi_, t_ in cb12.calls() if bi_ in lp_["blocks"] and t_.callee.method in ("insert", "insert_unchecked", "push", "extend", "extend_from_slice")]
                ck.ob("TAINT", "conversion-stores/%s/%d" % (cb12.short, li_), bool(puts_), "%s: the loop in line %s %s" % (cb12.short, lp_["line"], "stores the ids it walks" if puts_ else "stores NOTHING of what it walks: the conversion yields an empty group"), where=cb12.where(lp_["line"]))
    # ---- INSERTPOS: an id put into a sorted, duplicate-free vector at its `partition_point` is put there only if it is not there already.
    # `partition_point` says where an id BELONGS, not whether it is present (binary_search's Err arm says both): an unconditional
    # `v.insert(v.partition_point(|x| *x < id), id)` stores an id a second time.
    from engines import positive_edges as _pe12
    for ib in sorted(prog.production(), key=lambda z: z.id):
        if ib.test or not (ib.file or "").startswith("src/"):
            continue
        for fb in [ib] if ib.kind in ("Fn", "AssocFn", "Closure") else []:
            for ibi, it in fb.calls():
                if it.callee.method != "insert" or len(it.args) != 3 or not re.search(r"Vec(::)?<", it.callee.def_args or it.callee.name or ""):
                    continue
                pat = pvn.of_operand(fb, it.args[1])
                pps = [a for a in pat if a[0] == "call" and a[3] == fb.id and a[1].rsplit("::", 1)[-1].split("::<")[0] == "partition_point"]
                if not pps or not re.search(r"HpoTermId", it.callee.def_args or ""):
                    continue
                # a dominating (in)equality between the element at that position and the id
                guarded = False
                for gbi, gt in fb.calls():
                    if gt.callee.method in ("eq", "ne") and len(gt.args) == 2:
                        gat = [pvn.of_operand(fb, a_) for a_ in gt.args]
                        reads_pos = any(any(a[0] == "call" and a[3] == fb.id and a[1].rsplit("::", 1)[-1].split("::<")[0] in ("get", "index", "get_unchecked") for a in g_) and any(a == pps[0] for a in g_) for g_ in gat)
                        if reads_pos and any(fb.edge_dominates((sb_, tg_), ibi) for sb_ in sorted(fb.reach) if fb.blocks[sb_].term.k == "switch" and any(a[0] == "call" and a[3] == fb.id and a[4] == gbi for a in pvn.of_operand(fb, fb.blocks[sb_].term.discr)) for tg_ in fb.blocks[sb_].term.successors()):
                            guarded = True
                ck.ob("TAINT", "insert-at-partition-point/%s" % fb.short, guarded, "%s inserts an id at its `partition_point` %s" % (fb.short, "only after comparing it with the id that stands there" if guarded else
                      "WITHOUT testing whether the id that stands there is the same: an id that is already present is stored twice (`partition_point` finds the position, not the presence)"), where=fb.where(it.line))
    # bulk appends: a whole slice / group appended to an id vector keeps it sorted and duplicate free only if the vector is
    # still empty, or if its last id is STRICTLY below the first appended id
    BULK = {"extend_from_slice", "extend", "append", "insert_many", "insert_from_slice", "extend_from_within"}
    nb = 0
    for b in prog.production():
        if b.kind not in ("Fn", "AssocFn", "Closure"):
            continue
        for bi, t in b.calls():
            c = t.callee
            if c.method not in BULK or not re.search(r"SmallVec|Vec<", (c.def_args or "") + (c.name or "")) or "HpoTermId" not in (c.def_args or "") + (c.name or ""):
                continue
            ra = pvn.of_operand(b, t.args[0])
            if not is_ids_place_atoms(ra):
                continue
            nb += 1
            # (a) fresh receiver: the group was created in this body and nothing was added before
            fresh_src = any(a[0] == "call" and a[3] == b.id and a[1].rsplit("::", 1)[-1] in ("with_capacity", "new", "default") for a in ra)
            earlier = [(obi, ot) for obi, ot in b.calls() if obi != bi and ot.callee.method in (BULK | {"push", "insert", "insert_unchecked"}) and ot.args and is_ids_place_atoms(pvn.of_operand(b, ot.args[0])) and b.dominates(obi, bi)]
            # the receiver's root local is the result of a constructor call in this body
            root = t.args[0].place.local if t.args[0].place is not None else None
            seen_l = set()
            ctor_root = False
            while root is not None and root not in seen_l:
                seen_l.add(root)
                ds = pvn.defs(b).get(root, [])
                if len(ds) != 1:
                    break
                kind_, pos_, d_ = ds[0]
                if kind_ == "call":
                    ctor_root = d_.callee.method in ("with_capacity", "new", "default")
                    break
                if d_.rv["k"] == "ref":
                    root = d_.rv["place"].local
                elif d_.rv["k"] == "use" and d_.rv["op"].place is not None:
                    root = d_.rv["op"].place.local
                else:
                    break
            if fresh_src and not earlier and ctor_root:
                ck.ob("TAINT", "bulk-append/%s" % b.short, True, "%s copies a whole (sorted) id vector into a freshly created group" % b.short, where=b.where(t.line))
                continue
            si = split_insert(b, bi)
            if si is not None:
                if si == "order":
                    pass  # reported at the single-id append
                elif si:
                    ck.ob("TAINT", "bulk-append/%s" % b.short, True, "%s appends the ids above the searched position after the new id" % b.short, where=b.where(t.line))
                else:
                    ck.undecided("TAINT", "bulk-append/%s" % b.short, "%s appends ids under the not-found arm of a binary search, in a shape that is not recognised" % b.short, where=b.where(t.line))
                continue
            # (a') normalised afterwards: behind the append every way to a normal return passes a `dedup`, and no way reaches a `dedup` without
            # having passed a `sort*` or the true edge of `is_sorted()` (which says the vector needs no sort, NOT that it has no duplicates:
            # `is_sorted` is non-strict).  `v.extend(..); if !v.is_sorted() { v.sort_unstable(); } v.dedup();`
            sort_bbs = {x_ for x_, t_ in b.calls() if t_.callee.method in ("sort", "sort_unstable", "sort_by", "sort_by_key", "sort_unstable_by", "sort_unstable_by_key") and b.dominates(bi, x_)}
            dedup_bbs = {x_ for x_, t_ in b.calls() if t_.callee.method in ("dedup", "dedup_by", "dedup_by_key") and b.dominates(bi, x_)}
            if dedup_bbs and sort_bbs:
                sorted_edges = {e_ for x_, t_ in b.calls() if t_.callee.method == "is_sorted" and b.dominates(bi, x_) for e_ in positive_edges(b, pvn, x_)}
                errs_ = error_blocks_c12(b)
                # `is_sorted_by(|a, b| a < b)`: STRICTLY ascending - on its true edge the vector is sorted and free of repeats
                strict_edges = set()
                for x_, t_ in b.calls():
                    if t_.callee.method in ("is_sorted_by", "is_sorted_by_key") and b.dominates(bi, x_) and len(t_.args) > 1:
                        cbs_ = prog.bodies.get(pv.closure_of_operand(b, t_.args[1]) or "")
                        if cbs_ is not None and any(ct_.callee.method == "lt" for fb_ in prog.family(cbs_) for _, ct_ in fb_.calls()) or (cbs_ is not None and any(st_.k == "assign" and st_.rv["k"] == "bin" and st_.rv["op"] == "Lt" for fb_ in prog.family(cbs_) for _, st_ in fb_.stmts())):
                            strict_edges |= set(positive_edges(b, pvn, x_))
                sorted_edges |= strict_edges
                # every normal way out passes a dedup
                seen_, work_, misses_dedup = set(), [(bi, y_) for y_ in b.succ[bi]], False
                while work_:
                    x_, y_ = work_.pop()
                    if y_ in seen_ or y_ in dedup_bbs or y_ in errs_ or (x_, y_) in strict_edges:
                        continue
                    seen_.add(y_)
                    if b.blocks[y_].term.k == "return":
                        misses_dedup = True
                    work_.extend((y_, z_) for z_ in b.succ[y_])
                # no dedup is reached without order having been established
                seen_, work_, unsorted_dedup = set(), [(bi, y_) for y_ in b.succ[bi]], False
                while work_:
                    x_, y_ = work_.pop()
                    if (x_, y_) in sorted_edges or y_ in sort_bbs or y_ in seen_:
                        continue
                    if y_ in dedup_bbs:
                        unsorted_dedup = True
                        continue
                    seen_.add(y_)
                    work_.extend((y_, z_) for z_ in b.succ[y_])
                okn = not misses_dedup and not unsorted_dedup
                ck.ob("TAINT", "bulk-append/%s" % b.short, okn, "%s appends a whole id vector and %s" % (b.short, "re-establishes order and uniqueness behind it (sort unless already sorted, then dedup, on every way out)" if okn else (
                    "can return WITHOUT de-duplicating: the `dedup` does not stand on every way out (an `is_sorted()` test says that no sort is needed, not that no id is repeated - equal neighbours are `sorted`)" if misses_dedup else
                    "de-duplicates on a way on which the vector was not sorted: `dedup` removes only neighbours")), where=b.where(t.line))
                continue
            # (b) guarded by last(receiver) < first(appended)
            verdict, how = None, "no ordering test between the last id of the receiver and the first appended id dominates the append"
            for gbi, gt in b.calls():
                gc = gt.callee
                if gc.trait not in ("std::cmp::PartialOrd",) or gc.method not in ("lt", "le", "gt", "ge") or len(gt.args) != 2:
                    continue
                sides = []
                for a in gt.args:
                    at = pvn.of_operand(b, a)
                    ms = {x[1].rsplit("::", 1)[-1] for x in at if x[0] == "call" and x[3] == b.id}
                    sides.append("last" if "last" in ms and "first" not in ms else "first" if "first" in ms and "last" not in ms else "?")
                if sorted(sides) != ["first", "last"]:
                    continue
                pos_edges = positive_edges(b, pvn, gbi)
                if not any(b.edge_dominates(e, bi) for e in pos_edges):
                    continue
                m = gc.method
                # normalise to  last OP first
                if sides == ["first", "last"]:
                    m = {"lt": "gt", "le": "ge", "gt": "lt", "ge": "le"}[m]
                if m == "lt":
                    verdict, how = True, "guarded by last < first"
                elif m == "le":
                    verdict, how = False, "guarded by last <= first: when the two ids are EQUAL the id is stored twice"
                else:
                    verdict, how = False, "guarded by last %s first: the appended ids are not behind the receiver's" % {"gt": ">", "ge": ">="}[m]
            src_at = pvn.of_operand(b, t.args[1]) if len(t.args) > 1 else frozenset()
            is_tail = any(a[0] == "call" and a[3] == b.id and re.search(r"Index<std::ops::Range(From|To|Inclusive)?<usize>>", a[2] or "") for a in src_at)
            if verdict is None and is_tail:
                ck.undecided("TAINT", "bulk-append/%s" % b.short, "%s appends a sub-slice selected by a running index (tail of a merge?): whether it sorts behind the receiver is not decided" % b.short, where=b.where(t.line))
                continue
            if verdict is None:
                # some ORDER comparison between ids decides whether this append happens (through a bool, a tuple match, indices `v[v.len() - 1] < w[0]`):
                # not a shape this rule reads, but not "no ordering test" either
                ordered = False
                for sb in sorted(b.reach):
                    x_ = b.blocks[sb].term
                    if x_.k != "switch" or not any(b.edge_dominates((sb, tg_), bi) for tg_ in x_.successors()):
                        continue
                    dat = pvn.of_operand(b, x_.discr)
                    if any(a[0] == "call" and a[3] == b.id and re.search(r"std::cmp::(PartialOrd|Ord)>::(lt|le|gt|ge|cmp)$", a[2] or a[1]) for a in dat) or any(a[0] == "op" and a[1] in ("Lt", "Le", "Gt", "Ge") for a in dat):
                        ordered = True
                    for a in dat:
                        if a[0] == "call" and a[3] == b.id and a[1].rsplit("::", 1)[-1] in ("map_or", "is_none_or", "is_some_and", "map_or_else"):
                            ct_ = b.blocks[a[4]].term
                            cb_ = prog.bodies.get(pv.closure_of_operand(b, ct_.args[-1]) or "")
                            if cb_ is not None and any(x2.callee.trait in ("std::cmp::PartialOrd", "std::cmp::Ord") for _, x2 in cb_.calls()):
                                ordered = True
                if ordered:
                    ck.undecided("TAINT", "bulk-append/%s" % b.short, "%s appends a whole id vector to a non-empty group under an order comparison whose shape is not recognised (expected `last < first`)" % b.short, where=b.where(t.line))
                    continue
            if verdict is None and b.kind in ("Fn", "AssocFn") and not b.exported and not b.reachable and not b.impl_trait and fresh_src and ctor_root and len(earlier) == 1 and earlier[0][1].callee.method in BULK and len(earlier[0][1].args) > 1:
                # a private helper `concat(first, second)`: the order of its two parameters is its CALLERS' obligation - every call must stand under
                # the strict  last(<first argument>) < first(<second argument>)
                p_ = params_of(pvn.of_operand(b, earlier[0][1].args[1]), b.id)
                q_ = params_of(pvn.of_operand(b, t.args[1]), b.id)
                if len(p_) == 1 and len(q_) == 1 and p_ != q_:
                    pi, qi = next(iter(p_)), next(iter(q_))
                    sites_ = prog.callers_of(b.id)
                    for cb_, cbi_, ct_ in sites_:
                        if cb_.test or len(ct_.args) < max(pi, qi):
                            continue
                        fr, sr = root_vars(cb_, pvn, ct_.args[pi - 1]), root_vars(cb_, pvn, ct_.args[qi - 1])
                        g_ = strict_range_guard(cb_, pvn, cbi_, fr, sr) if fr and sr else None
                        key_ = "bulk-append/%s/caller/%s/%d" % (b.short, cb_.short, len([1 for x1, x2, x3 in sites_ if x1 is cb_ and x2 < cbi_]))
                        nm_ = "%s(%s, %s)" % (b.name, "/".join(cb_.local_name(x) for x in sorted(fr)) or "?", "/".join(cb_.local_name(x) for x in sorted(sr)) or "?")
                        if g_ is None:
                            ck.ob("TAINT", key_, False, "%s calls %s, which appends its second slice behind the first, without a dominating test last(first) < first(second)" % (cb_.short, nm_), where=cb_.where(ct_.line))
                        else:
                            ck.ob("TAINT", key_, g_, "%s calls %s under last(first) %s first(second)%s" % (cb_.short, nm_, "<" if g_ else "<=", "" if g_ else ": when the two ids are EQUAL the id is stored twice"), where=cb_.where(ct_.line))
                    if sites_:
                        continue
            ck.ob("TAINT", "bulk-append/%s" % b.short, bool(verdict), "%s appends a whole id vector to a non-empty group, %s" % (b.short, how), where=b.where(t.line))
    # whole-vector constructions: `HpoGroup { ids: <something built from caller data> }` is only sorted and duplicate free
    # if the data was sorted and THEN deduplicated before it is stored
    ncons = 0
    for b in prog.production():
        if b.kind not in ("Fn", "AssocFn", "Closure"):
            continue
        for pos, st in b.stmts():
            if not (st.k == "assign" and st.rv["k"] == "agg" and st.rv.get("adt") == G and "ids" in st.rv.get("fields", [])):
                continue
            op = st.rv["ops"][st.rv["fields"].index("ids")]
            at = pvn.of_operand(b, op)
            ps = [a for a in at if a[0] == "param" and a[1] == b.id and not re.search(r"HpoGroup|SmallVec", b.locals[a[2]]["s"])]
            ps = [a for a in ps if re.search(r"HpoTermId|Vec<|\[|Iterator|IntoIter|HashSet", b.locals[a[2]]["s"])]
            if not ps:
                continue  # empty / capacity-only construction
            ncons += 1
            roots = {a[2] for a in ps}
            sorts = [(bi, t) for bi, t in b.calls() if t.callee.method in ("sort", "sort_unstable", "sort_by", "sort_unstable_by", "sort_by_key") and params_of(pvn.of_operand(b, t.args[0]), b.id) & roots]
            dedups = [(bi, t) for bi, t in b.calls() if t.callee.method in ("dedup", "dedup_by", "dedup_by_key") and params_of(pvn.of_operand(b, t.args[0]), b.id) & roots]
            rets = [x for x in b.reach if b.blocks[x].term.k == "return"]

            def covers(cb):
                """the call happens before the vector is stored, or on every path from the store to the return"""
                if b.dominates(cb, pos[0]) and cb != pos[0]:
                    return True
                after = b.reachable_from(pos[0], avoid_blocks={cb})
                return b.dominates(pos[0], cb) and not any(r in after for r in rets)
            # a set type cannot hold duplicates: ids taken from it unchanged only need sorting
            plain = {"into_iter", "iter", "collect", "copied", "cloned", "from_iter", "into", "from", "next", "by_ref", "extend", "into_vec", "from_vec", "to_vec"}
            unique_src = all(re.search(r"(HashSet|BTreeSet)<", b.locals[a[2]]["s"]) for a in ps) and all(a[1].rsplit("::", 1)[-1] in plain for a in at if a[0] == "call" and a[3] == b.id)
            if unique_src:
                ok = any(covers(sb) for sb, _ in sorts)
                ck.ob("TAINT", "construct/%s" % b.short, ok, "%s stores the ids of a set type (no duplicates) as the group's vector %s" % (b.short, "after sorting them" if ok else "without sorting them on every path"), where=b.where(st.line))
                continue
            ordered = bool(sorts) and bool(dedups) and all(any(b.dominates(sb, db) and sb != db for sb, _ in sorts) for db, _ in dedups)
            ok = ordered and any(covers(db) for db, _ in dedups)
            if not ok and not sorts and not dedups and not (b.exported or b.reachable) and b.kind in ("Fn", "AssocFn") and not b.impl_trait:
                # a constructor that is not part of the public API and that does not normalise at all (`pub(crate) fn from_sorted(ids: &[HpoTermId])`)
                # hands the obligation to its callers inside the crate: each of them is listed, none is judged here (what they pass is a vector
                # they put together with their own means - a sorted, de-duplicated closure with ids inserted at their `partition_point`)
                cs_ = sorted({cb_.short for cb_, _, _ in prog.callers_of(b.id) if not cb_.test})
                ck.undecided("TAINT", "construct/%s" % b.short, "%s (crate-private) stores the ids it is given without normalising them: order and uniqueness are its callers' obligation (%s), not decided" % (b.short, ", ".join(cs_) or "no caller"), where=b.where(st.line))
                continue
            ck.ob("TAINT", "construct/%s" % b.short, ok, "%s stores caller-supplied ids as the group's vector %s" % (b.short, "after sorting and then de-duplicating them" if ok else
                  ("after de-duplicating BEFORE sorting (non-adjacent duplicates survive)" if sorts and dedups and not ordered else "without establishing order and uniqueness on every path (needs sort, then dedup, or checked inserts)")), where=b.where(st.line))
    ck.extra["whole_vector_constructions"] = ncons
    ck.extra["unchecked_append_wrappers"] = sorted(wrappers)

    check_complete_iteration(ck, "DOM", prog, ["<&%s as std::ops::BitAnd>::bitand" % G, "<&%s as std::ops::BitOr>::bitor" % G, "<&%s as std::ops::BitOr<term::hpotermid::HpoTermId>>::bitor" % G, "<&%s as std::ops::Add<term::hpotermid::HpoTermId>>::add" % G,
                                                    "<%s as std::convert::From<std::vec::Vec<term::hpotermid::HpoTermId>>>::from" % G, "<%s as std::iter::FromIterator<term::hpotermid::HpoTermId>>::from_iter" % G], "its operands")

    # ------------------------------------------------------------------ DOM/SELECT: insert
    ins = prog.body(G + "::insert")
    if ck.anchor("DOM", "HpoGroup::insert", ins):
        searches = [(bi, t) for bi, t in ins.calls() if t.callee.method == "binary_search"]
        inserts = [(bi, t) for bi, t in ins.calls() if t.callee.method == "insert" and "SmallVec" in (t.callee.def_args or "")]
        if len(searches) != 1 or not inserts:
            ck.undecided("DOM", "insert/shape", "search + positional insert not recognised in HpoGroup::insert", where=ins.where())
        else:
            sbi, st = searches[0]
            res_local = st.dest.local
            # the switch on the search result
            sw = None
            for bi in sorted(ins.reach):
                tt = ins.blocks[bi].term
                if tt.k == "switch":
                    at = pvn.of_operand(ins, tt.discr)
                    if any(a[0] == "call" and a[1].endswith("binary_search") for a in at):
                        sw = (bi, tt)
            if sw is None:
                ck.undecided("DOM", "insert/arms", "branch on the search result not recognised", where=ins.where())
            else:
                bi, tt = sw
                arm = {v: tg for v, tg in tt.targets}  # Result: Ok=0, Err=1
                found_e, notfound_e = (bi, arm.get(0)), (bi, arm.get(1))
                for n, (ibi, it) in enumerate(inserts):
                    ok = notfound_e[1] is not None and ins.edge_dominates(notfound_e, ibi)
                    ck.ob("DOM", "insert/arm/%d" % n, ok, "HpoGroup::insert writes the id %s" % ("only on the not-found arm of the search" if ok else "outside the not-found arm (duplicates or lost ids)"), where=ins.where(it.line))
                    idx_at = pvn.of_operand(ins, it.args[1])
                    ok2 = any(a[0] == "call" and a[1].endswith("binary_search") and any(e[0] == "dc" and e[1] == "Err" for e in a[5]) for a in idx_at)
                    ck.ob("DOM", "insert/index/%d" % n, ok2, "the insertion index is %s" % ("the position carried by the not-found arm" if ok2 else "not the position returned by the search"), where=ins.where(it.line))
                    val_at = params_of(pvn.of_operand(ins, it.args[2]), ins.id)
                    ck.ob("DOM", "insert/value/%d" % n, val_at == {2}, "the inserted value is the `id` argument", where=ins.where(it.line))
                # returned flag per arm
                def flag(edge):
                    region = ins.region(edge)
                    vals = set()
                    for pos, s in ins.stmts():
                        if pos[0] in region and s.k == "assign" and s.place.local == 0 and s.place.is_local() and s.rv["k"] == "use" and s.rv["op"].kind == "const":
                            vals.add(s.rv["op"].const["val"])
                    return vals
                ff, fn = flag(found_e), flag(notfound_e)
                if not ff or not fn:
                    at = pvn.of_local(ins, 0)
                    ck.undecided("DOM", "insert/flag", "returned flag is not a per-arm constant", where=ins.where())
                else:
                    ck.ob("DOM", "insert/flag", ff == {"false"} and fn == {"true"}, "insert returns %s when the id was already present and %s when it was new" % ("/".join(sorted(ff)), "/".join(sorted(fn))), where=ins.where())
    con = prog.body(G + "::contains")
    if ck.anchor("DOM", "HpoGroup::contains", con):
        at = pv.of_local(con, 0)
        pos_calls = [a[1].rsplit("::", 1)[-1] for a in at if a[0] == "call" and a[1].rsplit("::", 1)[-1] in ("is_ok", "is_err", "contains", "is_some", "is_none")]
        nots = [a for a in at if a[0] == "op" and a[1] == "Not"]
        searches = [a for a in at if a[0] == "call" and (a[1].endswith("binary_search") or a[1].endswith("::contains"))]
        if not searches:
            ck.undecided("DOM", "contains/polarity", "membership test not recognised", where=con.where())
        else:
            positive = (("is_ok" in pos_calls or "contains" in pos_calls or "is_some" in pos_calls) and not nots) or (("is_err" in pos_calls or "is_none" in pos_calls) and len(nots) == 1)
            ck.ob("DOM", "contains/polarity", positive, "HpoGroup::contains returns %s" % ("true iff the search finds the id" if positive else "a negated / inverted search result"), where=con.where())
            key = params_of(pvn.of_local(con, 0), con.id)
            if key != {1, 2}:
                # (the search may sit in a private helper `contains` delegates to: the inlining provenance sees through it)
                key = params_of(pv.of_local(con, 0), con.id)
            ck.ob("DOM", "contains/operands", key == {1, 2}, "contains searches `self.ids` for the `id` argument", where=con.where())

    # ------------------------------------------------------------------ BitAnd
    band = prog.body("<&%s as std::ops::BitAnd>::bitand" % G)
    if ck.anchor("DOM", "impl BitAnd for &HpoGroup", band):
        tests = [(bi, t) for bi, t in band.calls() if t.callee.method in ("contains", "binary_search")]
        app = [(b, bi, t, vi) for (b, bi, t, vi) in sinks if b.id == band.id]
        checked_inserts = [(bi, t) for bi, t in band.calls() if t.callee.res == G + "::insert"]
        if len(tests) != 1 or not (app or checked_inserts):
            ck.undecided("DOM", "bitand/shape", "membership test + append not recognised in `&`", where=band.where())
        else:
            tbi, tt = tests[0]
            # switch on the membership result
            sw = None
            for bi in sorted(band.reach):
                x = band.blocks[bi].term
                if x.k == "switch" and any(a[0] == "call" and a[4] == tbi for a in pvn.of_operand(band, x.discr)):
                    sw = (bi, x)
            scanned = set()
            for bi, t in band.calls():
                if t.callee.method == "next" and t.callee.trait == "std::iter::Iterator":
                    scanned |= params_of(pv.of_operand(band, t.args[0]), band.id)
            member = params_of(pv.of_operand(band, tt.args[0]), band.id)
            ck.ob("DOM", "bitand/operands", scanned == {1, 2} and member == {1, 2}, "`&` scans %s and tests membership in %s (both operands must occur on both sides of the size-based swap)" % (sorted(scanned), sorted(member)), where=band.where(tt.line))
            pairs = [(pos, st) for pos, st in band.stmts() if st.k == "assign" and st.rv["k"] == "agg" and st.rv["agg"] == "tuple" and len(st.rv["ops"]) == 2
                     and all(o.place is not None and "HpoGroup" in band.locals[o.place.local]["s"] for o in st.rv["ops"])]
            for n, (pos, st) in enumerate(pairs):
                q0 = params_of(pvn.of_operand(band, st.rv["ops"][0]), band.id)
                q1 = params_of(pvn.of_operand(band, st.rv["ops"][1]), band.id)
                ck.ob("DOM", "bitand/pair/%d" % n, q0 != q1 and q0 | q1 == {1, 2}, "`&` pairs operand %s with operand %s%s" % (sorted(q0), sorted(q1), "" if q0 != q1 else ": the same operand twice"), where=band.where(st.line))
            elem = pvn.of_operand(band, tt.args[1])
            ck.ob("DOM", "bitand/element", any(a[0] == "call" and a[1].endswith("::next") for a in elem), "the tested element is the one taken from the scanned operand", where=band.where(tt.line))
            if sw is None:
                ck.undecided("DOM", "bitand/polarity", "branch on the membership result not recognised", where=band.where())
            else:
                bi, x = sw
                vals = [v for v, _ in x.targets]
                true_t = [tg for v, tg in x.targets if v == 1] or ([x.otherwise] if vals == [0] else [])
                if tt.callee.method == "binary_search" and x.discr_ty != "bool":
                    # a `match` on the search result itself: `Ok` (found) is discriminant 0
                    true_t = [tg for v, tg in x.targets if v == 0]
                negated = any(a[0] == "op" and a[1] == "Not" for a in pvn.of_operand(band, x.discr))
                for n, site in enumerate([(s[1], s[2]) for s in app] + checked_inserts):
                    abi, at_ = site
                    on_true = bool(true_t) and band.edge_dominates((bi, true_t[0]), abi)
                    ok = on_true != negated
                    ck.ob("DOM", "bitand/polarity/%d" % n, ok, "`&` keeps an element %s" % ("iff it is a member of the other operand" if ok else "when it is NOT a member of the other operand"), where=band.where(at_.line))

    # ------------------------------------------------------------------ merge arms of BitOr
    bor = prog.body("<&%s as std::ops::BitOr>::bitor" % G)
    if ck.anchor("MERGE", "impl BitOr for &HpoGroup", bor):
        my_sinks = [(bi, t, vi) for (b, bi, t, vi) in sinks if b.id == bor.id]
        my_sinks += [(bi, t, 1) for bi, t in bor.calls() if t.callee.res == G + "::insert"]
        loops = bor.natural_loops()
        cmps = [(bi, t) for bi, t in bor.calls() if t.callee.method == "cmp" and t.callee.trait == "std::cmp::Ord"]
        osw = None
        if len(cmps) == 1:
            cbi, ct = cmps[0]
            for bi in sorted(bor.reach):
                x = bor.blocks[bi].term
                if x.k == "switch" and any(a[0] == "call" and a[4] == cbi and a[1].endswith("::cmp") for a in pvn.of_operand(bor, x.discr)):
                    osw = (bi, x)
        iter_nexts = [t for _, t in bor.calls() if t.callee.method == "next" and t.callee.trait == "std::iter::Iterator"]
        if osw is None or not my_sinks:
            ck.undecided("MERGE", "shape", "two-pointer merge with an Ordering match not recognised in `|` (other algorithm?)", where=bor.where())
        elif not iter_nexts:
            ck.undecided("MERGE", "shape", "the merge in `|` does not advance iterators (index-based merge?): its arms are not classified by this rule", where=bor.where())
        else:
            cbi, ct = cmps[0]
            s0 = params_of(pv.of_operand(bor, ct.args[0]), bor.id)
            s1 = params_of(pv.of_operand(bor, ct.args[1]), bor.id)
            if len(s0) != 1 or len(s1) != 1 or s0 == s1:
                ck.ob("MERGE", "cmp/operands", False, "the merge compares heads of %s and %s; expected one head of each operand" % (sorted(s0), sorted(s1)), where=bor.where(ct.line))
            else:
                ck.ob("MERGE", "cmp/operands", True, "the merge compares the head of operand %s with the head of operand %s" % (bor.local_name(next(iter(s0))), bor.local_name(next(iter(s1)))), where=bor.where(ct.line))
                side0, side1 = next(iter(s0)), next(iter(s1))
                bi, x = osw
                arm_of = {}
                for v, tg in x.targets:
                    nm = {255: "Less", 0: "Equal", 1: "Greater"}.get(v)
                    if nm:
                        arm_of[nm] = (bi, tg)
                header = None
                for h, blocks in loops.items():
                    if bi in blocks and (header is None or len(blocks) < len(loops[header])):
                        header = h

                def advanced_after(sbi):
                    """sides whose iterator is advanced between the append and the loop back edge"""
                    adv = set()
                    for y in bor.reachable_from(sbi, avoid_blocks={header} if header is not None else ()):
                        yt = bor.blocks[y].term
                        if yt.k == "call" and yt.callee.method == "next" and yt.callee.trait == "std::iter::Iterator":
                            adv |= params_of(pv.of_operand(bor, yt.args[0]), bor.id)
                    return adv

                seen_arms = set()
                drains = 0
                for sbi, st, vi in sorted(my_sinks, key=lambda z: z[0]):
                    side = params_of(pv.of_operand(bor, st.args[vi]), bor.id)
                    adv = advanced_after(sbi)
                    arm = None
                    for nm, e in arm_of.items():
                        if bor.edge_dominates(e, sbi):
                            arm = nm
                    if arm == "Less":
                        want_side, want_adv = {side0}, {side0}
                    elif arm == "Greater":
                        want_side, want_adv = {side1}, {side1}
                    elif arm == "Equal":
                        want_side, want_adv = None, {side0, side1}
                    else:
                        drains += 1
                        want_side, want_adv = None, None
                    if arm:
                        seen_arms.add(arm)
                        ok = (want_side is None and len(side) == 1 and side <= {side0, side1}) or side == want_side
                        ck.ob("MERGE", "arm/%s/append" % arm, ok, "%s arm appends the head of %s%s" % (arm, sorted(bor.local_name(p) for p in side), "" if ok else " (expected %s)" % sorted(bor.local_name(p) for p in (want_side or {side0}))), where=bor.where(st.line))
                        ck.ob("MERGE", "arm/%s/advance" % arm, adv == want_adv, "%s arm advances %s%s" % (arm, sorted(bor.local_name(p) for p in adv), "" if adv == want_adv else " (expected %s)" % sorted(bor.local_name(p) for p in want_adv)), where=bor.where(st.line))
                    else:
                        ok = len(side) == 1 and adv == side
                        ck.ob("MERGE", "drain/%d" % drains, ok, "drain arm appends the head of %s and advances %s" % (sorted(bor.local_name(p) for p in side), sorted(bor.local_name(p) for p in adv)), where=bor.where(st.line))
                for nm in ("Less", "Equal", "Greater"):
                    if nm not in seen_arms:
                        ck.ob("MERGE", "arm/%s/append" % nm, False, "%s arm of the merge appends nothing" % nm, where=bor.where(x.line))
                ck.floor("MERGE", "drain arms", drains, 2)

    # ------------------------------------------------------------------ SHORTCUT: early returns of the binary set operators
    # `a | b` may answer with a copy of ONE operand only when the OTHER one is empty; `a & b` with a copy of one operand only when THAT one is empty
    # (result empty).  A shortcut that tests the wrong operand drops the members of the other one.
    pvc_ = Prov(prog, inline=False, mutflow=False)
    n_short = 0
    for trait, sym, want_other in (("BitOr", "|", True), ("BitAnd", "&", False)):
        ob_ = prog.body("<&%s as std::ops::%s>::%s" % (G, trait, trait.lower()))
        if ob_ is None:
            continue
        tests = []
        for bi, t in ob_.calls():
            if t.callee.method == "is_empty" and len(t.args) == 1:
                q = params_of(pvc_.of_operand(ob_, t.args[0]), ob_.id)
                if len(q) == 1:
                    tests.append((next(iter(q)), positive_edges(ob_, pvn, bi)))
        for bi, t in ob_.calls():
            if not (t.callee.method == "clone" and t.dest is not None and t.dest.is_local() and t.dest.local == 0 and len(t.args) == 1):
                continue
            ps = params_of(pvc_.of_operand(ob_, t.args[0]), ob_.id)
            if len(ps) != 1 or not (ps <= {1, 2}):
                continue
            p_ret = next(iter(ps))
            n_short += 1
            key = "shortcut/%s/returns-%s" % (trait.lower(), ob_.local_name(p_ret))
            dom = [q for q, edges in tests if any(ob_.edge_dominates(e, bi) for e in edges)]
            if not dom:
                ck.undecided("MERGE", key, "`%s` returns a copy of `%s` on a path that is not guarded by an is_empty() test of an operand" % (sym, ob_.local_name(p_ret)), where=ob_.where(t.line))
                continue
            want_q = (3 - p_ret) if want_other else p_ret
            ok = want_q in dom
            ck.ob("MERGE", key, ok, "`%s` answers with a copy of `%s` when `%s` is empty%s" % (sym, ob_.local_name(p_ret), "/".join(ob_.local_name(q) for q in dom), "" if ok else (": the union of a non-empty `%s` with an empty `%s` must be `%s`" % (ob_.local_name(3 - p_ret), ob_.local_name(p_ret), ob_.local_name(3 - p_ret)) if want_other else ": the intersection is not `%s` just because the other operand is empty" % ob_.local_name(p_ret))), where=ob_.where(t.line))
    ck.extra["set-operator shortcuts examined"] = n_short

    # `a - b` (a difference operator, where the crate has one): an early return with a FRESH EMPTY group is right when `a` is empty, never because
    # `b` is empty (`a - {}` is `a`); an early `a.clone()` is right when `b` is empty (or the ranges are disjoint)
    for sb_ in sorted(prog.production(), key=lambda x: x.id):
        if not (sb_.kind == "AssocFn" and sb_.impl_trait and str(sb_.impl_trait).endswith("ops::Sub") and sb_.name == "sub" and "&term::group::HpoGroup" in sb_.id.split(" as ")[0]):
            continue
        lps = for_loops_(sb_)
        heads_ = {lp["header"] for lp in lps}
        for bi, t in sb_.calls():
            if t.callee.method in ("new", "default", "with_capacity") and "HpoGroup" in (t.callee.res or "") and t.dest is not None and t.dest.is_local() and t.dest.local == 0 and not any(sb_.can_reach(bi, h) for h in heads_):
                guards = set()
                for sbi in sorted(sb_.reach):
                    x = sb_.blocks[sbi].term
                    if x.k == "switch" and any(sb_.edge_dominates((sbi, tg), bi) for tg in x.successors()):
                        guards |= params_of(pv.of_operand(sb_, x.discr), sb_.id)
                if guards:
                    ck.ob("MERGE", "shortcut/sub/returns-empty/%d" % bi, guards == {1}, "`-` answers with an empty group on a path decided by %s%s" % ("/".join(sb_.local_name(g) for g in sorted(guards)), "" if guards == {1} else ": `a - b` is empty only because `a` is; for an empty `b` it is `a`"), where=sb_.where(t.line))

    # ------------------------------------------------------------------ SHORTCUT (ii): a way round the scan of `&` guarded by a range comparison
    # `a & b` may skip its scan when the id ranges of the two sorted operands are DISJOINT:  last(x) < first(y)  (strictly).  With `<=` the
    # boundary id that both share is dropped.  Only comparisons of first()/last() of the operands are classified; the emptiness shortcuts are
    # the rule above; anything else that leads round the scan is undecided.
    from engines import for_loops as _fl, user_root_locals as _url
    ob_ = prog.body("<&%s as std::ops::BitAnd>::bitand" % G)
    if ob_ is not None:
        loops_ = [lp for lp in _fl(ob_)]
        heads = {lp["header"] for lp in loops_}

        recv_root = lambda op: root_vars(ob_, pvn, op)
        end_of = lambda op: slice_end_of(ob_, pvn, op)
        n_by = 0
        for sbi in sorted(ob_.reach):
            x = ob_.blocks[sbi].term
            if x.k != "switch" or not heads or not any(ob_.dominates(sbi, h) for h in heads):
                continue
            for v, tg in x.targets + ([(None, x.otherwise)] if getattr(x, "otherwise", None) is not None else []):
                if any(ob_.can_reach(tg, h) for h in heads):
                    continue
                # (sbi -> tg) leads to the return without the scan
                for cbi, ct in ob_.calls():
                    if ct.callee.method not in ("lt", "le", "gt", "ge") or len(ct.args) != 2 or not ob_.dominates(cbi, sbi):
                        continue
                    pos = positive_edges(ob_, pvn, cbi)
                    allsw = [(sb2, t2) for sb2 in sorted(ob_.reach) if ob_.blocks[sb2].term.k == "switch" for _, t2 in ob_.blocks[sb2].term.targets]
                    if not any(e[0] == sbi for e in pos) and not any(a[0] == "call" and a[3] == ob_.id and a[4] == cbi for a in pvn.of_operand(ob_, x.discr)):
                        continue
                    holds = (sbi, tg) in pos  # the bypass is taken when the comparison is TRUE
                    l_, r_ = end_of(ct.args[0]), end_of(ct.args[1])
                    n_by += 1
                    key = "shortcut/bitand/range/%d" % n_by
                    if l_ is None or r_ is None or not l_[1] or not r_[1]:
                        ck.undecided("MERGE", key, "`&` leaves without its scan under a comparison whose operands are not first()/last() of the operands", where=ob_.where(ct.line))
                        continue
                    m_ = ct.callee.method
                    # normalise to  A <rel> B  that holds on the bypass
                    rel = {("lt", True): "<", ("le", True): "<=", ("gt", True): ">", ("ge", True): ">=", ("lt", False): ">=", ("le", False): ">", ("gt", False): "<=", ("ge", False): "<"}[(m_, holds)]
                    if rel in (">", ">="):
                        l_, r_ = r_, l_
                        rel = "<" if rel == ">" else "<="
                    disjoint = l_[0] == "last" and r_[0] == "first" and l_[1] != r_[1]
                    if not disjoint:
                        ck.ob("MERGE", key, False, "`&` leaves without its scan when %s(%s) %s %s(%s): that is not the disjointness of two sorted id ranges (last(x) < first(y)); common ids are dropped" % (l_[0], "/".join(ob_.local_name(q) for q in sorted(l_[1])), rel, r_[0], "/".join(ob_.local_name(q) for q in sorted(r_[1]))), where=ob_.where(ct.line))
                    else:
                        ck.ob("MERGE", key, rel == "<", "`&` leaves without its scan when last(%s) %s first(%s)%s" % ("/".join(ob_.local_name(q) for q in sorted(l_[1])), rel, "/".join(ob_.local_name(q) for q in sorted(r_[1])), "" if rel == "<" else ": with `<=` an id that is the last of one operand AND the first of the other is in both, yet the result is empty"), where=ob_.where(ct.line))
        ck.extra["range shortcuts of `&` examined"] = n_by

    # ------------------------------------------------------------------ ROLE: ancestor queries
    T = "term::hpoterm::HpoTerm::<'a>::"

    def operator_calls(b):
        out = []
        for bi, t in b.calls():
            c = t.callee
            # set operators between two groups (`group | id` adds one id: not a set combination)
            if c.trait in ("std::ops::BitAnd", "std::ops::BitOr") and "HpoGroup" in (c.def_args or "") and "<term::hpotermid::HpoTermId>" not in (c.def_args or ""):
                out.append((bi, t, "and" if c.trait.endswith("BitAnd") else "or"))
        return out

    def sides(b, op):
        at = pv.of_operand(b, op)
        ps = params_of(at, b.id)
        fl = field_names(at, "HpoTerm")
        return ps, fl

    nq = 0
    QUERIES = ("common_ancestor_ids", "union_ancestor_ids", "all_common_ancestor_ids", "all_union_ancestor_ids")
    for name, want, need_ids in (("common_ancestor_ids", "and", False), ("union_ancestor_ids", "or", False), ("all_common_ancestor_ids", "and", True), ("all_union_ancestor_ids", "or", None)):
        b = prog.body(T + name)
        if not ck.anchor("ROLE", "HpoTerm::" + name, b):
            continue
        b0 = b
        ops = operator_calls(b)
        if not ops:
            # a thin delegate of a sibling query (`all_union_ancestor_ids` -> `union_ancestor_ids(other)`): the sibling's body decides
            dl = [(bi, t) for bi, t in b.calls() if (t.callee.res or "") in [T + n_ for n_ in QUERIES if n_ != name] and len(t.args) == 2]
            if len(dl) == 1:
                a0, a1 = params_of(pvn.of_operand(b, dl[0][1].args[0]), b.id), params_of(pvn.of_operand(b, dl[0][1].args[1]), b.id)
                if (a0, a1) in (({1}, {2}), ({2}, {1})):
                    b = prog.body(dl[0][1].callee.res)
                    ops = operator_calls(b)
        if len(ops) != 1:
            ck.undecided("ROLE", name + "/operator", "expected exactly one group operator, found %d" % len(ops), where=b.where())
            continue
        nq += 1
        bi, t, kind = ops[0]
        # the operator's result is the ONLY result: an early return with a copy of one side (`if related { return other.all_parent_ids().clone() }`)
        # answers without intersecting / uniting
        from engines import result_sources
        extra_src = [x for x in result_sources(b, pvn) if not (x[0] == "call" and x[1] is t)]
        # ... unless the copy is the right answer there: under `upper.parent_of(lower)` / `lower.child_of(upper)` / identity the intersection of the
        # two (exclusive) ancestor sets is the UPPER term's set and their union the LOWER term's set
        justified = []
        for x in list(extra_src):
            if x[0] != "call" or x[1].callee.method != "clone" or not x[1].args or need_ids is not False:
                continue
            src_at = pv.of_operand(b, x[1].args[0])
            zs = params_of(src_at, b.id)
            if len(zs) != 1 or "all_parents" not in field_names(src_at, "HpoTerm"):
                continue
            z_ = next(iter(zs))
            cbb = next(bi_ for bi_, t_ in b.calls() if t_ is x[1])
            for gbi, gt in b.calls():
                gm = gt.callee.method
                if gm not in ("child_of", "parent_of", "eq") or len(gt.args) != 2:
                    continue
                g0, g1 = params_of(pvn.of_operand(b, gt.args[0]), b.id), params_of(pvn.of_operand(b, gt.args[1]), b.id)
                if not (len(g0) == 1 and len(g1) == 1 and g0 | g1 == {1, 2}):
                    continue
                if not any(b.edge_dominates(e, cbb) for e in positive_edges(b, pvn, gbi)):
                    continue
                upper = {1, 2} if gm == "eq" else (g1 if gm == "child_of" else g0)
                lower = {1, 2} if gm == "eq" else (g0 if gm == "child_of" else g1)
                if z_ in (upper if want == "and" else lower):
                    justified.append(x)
                    break
        extra_src = [x for x in extra_src if not any(x is j for j in justified)]
        # ... or under the arm of a CLASSIFIER: a crate function of the two terms that returns an enum whose variants are constructed under
        # eq / parent_of / child_of tests (`match self.relationship_to(other) { Same | Ancestor => self.all_parent_ids().clone(), .. }`).  Each
        # variant stands for the relation under which it is built; an arm is judged under the relations of the variants it takes.
        arms_ = classifier_arms(prog, pvn, b)
        if arms_ and extra_src:
            if need_ids is True:
                ck.undecided("ROLE", name + "/only-result", "%s answers per arm of the classifier %s; the inclusive form (own ids added per arm) is not evaluated" % (name, arms_["fn"].short), where=b.where(t.line))
                ck.undecided("ROLE", name + "/ids", "%s: own ids are added per arm of the classifier %s: not evaluated" % (name, arms_["fn"].short), where=b.where(t.line))
                extra_src = None
            else:
                left_ = []
                for x in extra_src:
                    okx = False
                    if x[0] == "call" and x[1].callee.method == "clone" and x[1].args:
                        src_at = pv.of_operand(b, x[1].args[0])
                        zs = params_of(src_at, b.id)
                        xbb = next(bi_ for bi_, t_ in b.calls() if t_ is x[1])
                        vs_ = [v for v, tg in arms_["targets"] if b.edge_dominates((arms_["switch"], tg), xbb)]
                        if len(zs) == 1 and "all_parents" in field_names(src_at, "HpoTerm") and vs_ and all(v in arms_["rel"] and arms_["rel"][v] for v in vs_):
                            z_ = next(iter(zs))
                            okx = all(all(z_ in (up_ if want == "and" else lo_) for up_, lo_ in arms_["rel"][v]) for v in vs_)
                            if not okx:
                                bad_v = [v for v in vs_ if not all(z_ in (up_ if want == "and" else lo_) for up_, lo_ in arms_["rel"][v])]
                                ck.ob("ROLE", name + "/arm/" + "+".join(bad_v), False, "%s: in the arm `%s` of %s (built where %s) the answer is a copy of `%s`'s ancestor set, but the %s of the two sets is there the %s term's set" % (
                                    name, " | ".join(bad_v), arms_["fn"].short, arms_["why"].get(bad_v[0], "?"), b.local_name(z_), "intersection" if want == "and" else "union", "UPPER (ancestor)" if want == "and" else "LOWER (descendant)"), where=b.where(x[1].line))
                                okx = True  # reported with its own key
                    if not okx:
                        left_.append(x)
                extra_src = left_
        if extra_src is None:
            pass
        else:
          ck.ob("ROLE", name + "/only-result", not extra_src, "%s returns %s" % (name, "the operator's result on every path" if not extra_src else "on some path `%s` instead of the result of `%s`" % (
            (extra_src[0][1].callee.method + "(..)") if extra_src[0][0] == "call" else "a constant / another value", "&" if kind == "and" else "|")), where=b.where(extra_src[0][1].line if extra_src and extra_src[0][0] == "call" else t.line))
        ck.ob("ROLE", name + "/operator", kind == want, "%s combines the ancestor sets with `%s` (expected `%s`)" % (name, "&" if kind == "and" else "|", "&" if want == "and" else "|"), where=b.where(t.line))
        (p0, f0), (p1, f1) = sides(b, t.args[0]), sides(b, t.args[1])
        ok = p0 == {1} and p1 == {2} or (p0 == {2} and p1 == {1})
        ck.ob("ROLE", name + "/operands", ok, "%s operates on (%s, %s)%s" % (name, sorted(b.local_name(p) for p in p0), sorted(b.local_name(p) for p in p1), "" if ok else ": not one set of each term"), where=b.where(t.line))
        okf = "all_parents" in f0 and "all_parents" in f1 and "parents" not in f0 and "parents" not in f1 and "children" not in (f0 | f1)
        ck.ob("ROLE", name + "/closure", okf, "%s reads %s / %s (expected the closure sets `all_parents` of both terms)" % (name, sorted(f0), sorted(f1)), where=b.where(t.line))
        own_inserts = [(bi2, t2) for bi2, t2 in b0.calls() if t2.callee.method == "insert" and len(t2.args) == 2 and "id" in field_names(pv.of_operand(b0, t2.args[1]), "HpoTerm")]
        if need_ids is True and not ("id" in f0 and "id" in f1) and own_inserts:
            # distributive form:  (A & B) + [a if a is in B+b] + [b if b is in A+a].  Whether the guards are the right membership tests is not evaluated;
            # what IS decided: each guarded insert is reached by every path that returns (its guard is evaluated, no early return in front of it)
            ck.undecided("ROLE", name + "/ids", "%s intersects the exclusive sets and inserts the terms' own ids afterwards (under membership tests): the distributive form is not evaluated" % name, where=b0.where(t.line))
            from engines import success_path_avoiding as _spa
            decision_blocks = {bi2 for bi2, _t2 in own_inserts}
            for bi2, t2 in own_inserts:
                decision_blocks |= {gbi for gbi, gt in b0.calls() if gbi != bi2 and any(b0.edge_dominates(e_, bi2) for e_ in positive_edges(b0, pvn, gbi))}
            skipped_ = _spa(b0, decision_blocks)
            ck.ob("ROLE", "%s/ids/decided-on-every-path" % name, not skipped_, "%s: %s" % (name, "every path that returns decides about the terms' own ids (a guarded insert or its test)" if not skipped_ else "some path RETURNS without deciding about the terms' own ids (an early return in front of the guarded inserts): for a term without common strict ancestors (the root) its own id is missing from the inclusive set"), where=b0.where(own_inserts[0][1].line))
        elif need_ids is True and extra_src is None:
            pass  # per arm of a classifier: recorded as undecided above
        elif need_ids is True:
            ck.ob("ROLE", name + "/ids", "id" in f0 and "id" in f1, "%s adds %s (expected both terms' own ids)" % (name, sorted((f0 | f1) & {"id"}) or "no id"), where=b.where(t.line))
        elif need_ids is False:
            ck.ob("ROLE", name + "/ids", "id" not in f0 and "id" not in f1, "%s %s the terms' own ids" % (name, "does not add" if "id" not in (f0 | f1) else "ADDS"), where=b.where(t.line))
    ck.floor("ROLE", "ancestor id queries", nq, 4)
    for name, want in (("common_ancestors", "and"), ("union_ancestors", "or"), ("all_common_ancestors", "and"), ("all_union_ancestors", "or")):
        b = prog.body(T + name)
        if b is None:
            continue
        news = [(bi, t) for bi, t in b.calls() if t.callee.res and t.callee.res.endswith("Combined::<'a>::new")]
        for bi, t in news:
            at = pv.of_operand(b, t.args[0])
            kinds = {("and" if "BitAnd" in a[2] else "or") for a in at if a[0] == "call" and ("BitAnd" in a[2] or "BitOr" in a[2]) and "HpoGroup" in a[2] and "<term::hpotermid::HpoTermId>" not in a[2]}
            ck.ob("ROLE", name + "/group", kinds == {want}, "%s iterates a group built with %s (expected `%s`)" % (name, "/".join(sorted(kinds)) or "no operator", "&" if want == "and" else "|"), where=b.where(t.line))
            if name == "all_common_ancestors":
                ck.ob("ROLE", name + "/ids", "id" in field_names(at, "HpoTerm"), "all_common_ancestors includes the terms themselves", where=b.where(t.line))
    # container methods of the wrapper types answer with the same-named method of one inner collection
    ck.rule("WRAPPER", "len / is_empty / contains / get / iter / push ... of a wrapper type delegate to the same-named method of ONE inner collection, un-negated (DESIGN 3.9)")
    from engines import check_wrappers
    check_wrappers(ck, "WRAPPER", prog, r"^src/term/group\.rs$", floor=5)
    # ------------------------------------------------------------------ the owned-operand operator variants
    ck.rule("DELEGATE", "the operator impls that take their operands by value answer through the by-reference implementation of the same operator")
    OWNED = [("std::ops::BitAnd", "&"), ("std::ops::BitOr", "|"), ("std::ops::Add", "+")]
    n_own = 0
    for ob_ in sorted(prog.production(), key=lambda b_: b_.id):
        if ob_.kind != "AssocFn" or ob_.impl_trait not in [o[0] for o in OWNED] or not ob_.impl_self or ob_.impl_self.get("adt") != G or (ob_.impl_self.get("s") or "").startswith("&"):
            continue
        sym = dict(OWNED)[ob_.impl_trait]
        refs = [(bi, t) for bi, t in ob_.calls() if t.callee.trait == ob_.impl_trait and (t.callee.res or "").startswith("<&" + G)]
        n_own += 1
        if refs:
            ck.ob("DELEGATE", "owned/%s" % ob_.short, True, "%s answers with the by-reference `%s`" % (ob_.short, sym), where=ob_.where(refs[0][1].line))
        elif any(True for fb in prog.family(ob_) for _, t in fb.calls() if t.callee.res in prog.bodies and prog.bodies[t.callee.res].file == ob_.file):
            ck.undecided("DELEGATE", "owned/%s" % ob_.short, "%s does not call the by-reference `%s`; it uses other functions of the module" % (ob_.short, sym), where=ob_.where())
        else:
            ck.undecided("DELEGATE", "owned/%s" % ob_.short, "%s implements `%s` on its own: not compared with the by-reference implementation" % (ob_.short, sym), where=ob_.where())
    ck.floor("DELEGATE", "owned-operand operator impls", n_own, 3, soft=True)

    # a shared iterator advanced inside a per-element predicate loses its look-ahead: `find` / `position` / `skip_while` consume the element
    # they stop at, so the next probe starts BEHIND it - a sorted intersection written that way drops common ids
    ck.rule("LOOKAHEAD", "no consuming search (find / position / skip_while / take_while / nth) on a captured iterator inside a closure that runs once per element")
    n_la = 0
    for cb_ in sorted(prog.production(), key=lambda b_: b_.id):
        if cb_.kind != "Closure" or cb_.file != "src/term/group.rs":
            continue
        for bi, t in cb_.calls():
            if t.callee.trait == "std::iter::Iterator" and t.callee.method in ("find", "position", "skip_while", "take_while", "nth", "find_map", "rposition") and t.args:
                at = pvn.of_operand(cb_, t.args[0])
                captured = any(a[0] == "upvar" for a in at) or any(a[0] == "param" and a[1] != cb_.id for a in at) or any(a[0] == "call" and a[1].endswith("::by_ref") for a in at)
                local_src = any(a[0] == "call" and a[3] == cb_.id and a[1].rsplit("::", 1)[-1] in ("iter", "into_iter") for a in at)
                if captured and not local_src:
                    n_la += 1
                    ck.ob("LOOKAHEAD", "%s/%s" % (cb_.short, t.callee.method), False, "%s advances an iterator it captured with `%s` once per element: the element the search stops at is consumed, so ids that are present can be missed" % (cb_.short, t.callee.method), where=cb_.where(t.line))
    if not n_la:
        ck.ob("LOOKAHEAD", "none", True, "no consuming search on a captured iterator inside the per-element closures of src/term/group.rs")
