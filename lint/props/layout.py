"""LAYOUT: byte offsets of the binary record codecs as affine expressions (DESIGN 3.17, built late).

Reader side: every access to the input bytes of a record decoder - `bytes[i]`, `bytes[a..b]`, `bytes[a..]` - with its index
expression extracted from the MIR and normalised to an affine form  c0 + c1*NAME_LEN (+ ...), where NAME_LEN is the decoded
length field itself (`bytes[8] as usize` / `u32_from_bytes(&bytes[8..])`).
Writer side: the sequence of `push` / `append` / `extend` calls on the output vector, each with a width expression.
"""
import re
from fractions import Fraction

from engines import error_blocks
from expr import Extract, S, C, F, affine, show, add as e_add, mul as e_mul
from prov import Prov, params_of


def is_bytes_index(t):
    c = t.callee
    return c.trait == "std::ops::Index" and c.method == "index" and re.search(r"Bytes<|\[u8\]|Vec<u8>", (c.name or "") + (c.def_args or ""))


def index_kind(t):
    nm = (t.callee.name or "") + (t.callee.def_args or "")
    if re.search(r"Index<std::ops::RangeFrom<usize>>", nm):
        return "from"
    if re.search(r"Index<std::ops::Range<usize>>", nm):
        return "range"
    if re.search(r"Index<usize>", nm):
        return "one"
    return None


class Reader:
    """byte accesses of one decoder body.  Accesses inside loops are flagged (their offsets are running indices)."""

    def __init__(self, prog, body, input_param=1):
        self.prog = prog
        self.body = body
        self.pv = Prov(prog, inline=False, mutflow=False)
        self.input_param = input_param
        self.ex = Extract(prog, self.pv, self._leaf)
        self.sym_bytes = {}  # symbol name -> list of affine byte offsets it stands for
        self.accesses = {}  # key (bb, idx) -> dict(kind, lo, hi (affine dicts | 'end' | None), line, loop)
        self.by_call_bb = {}
        self.in_loop = set()
        for h, bl in body.natural_loops().items():
            self.in_loop |= bl
        sites = []
        for bi, t in body.calls():
            if is_bytes_index(t) and index_kind(t) and params_of(self.pv.of_operand(body, t.args[0]), body.id) == {input_param}:
                sites.append(((bi, len(body.blocks[bi].stmts)), "call", t))
        for pos, st in body.stmts():
            if st.k != "assign":
                continue
            pl = None
            if st.rv["k"] == "use" and st.rv["op"].place is not None:
                pl = st.rv["op"].place
            elif st.rv["k"] == "ref":
                pl = st.rv["place"]
            if pl is not None and any(e != "*" and e[0] in ("idx", "cidx") for e in pl.fields()) and self._is_input(pl.local):
                sites.append((pos, "place", (st, pl)))
        for pos, kind, obj in sorted(sites, key=lambda x: x[0]):
            acc = {"line": obj.line if kind == "call" else obj[0].line, "bb": pos[0], "loop": pos[0] in self.in_loop, "pos": pos}
            if kind == "place":
                st, pl = obj
                e = [x for x in pl.fields() if x != "*" and x[0] in ("idx", "cidx")][0]
                lo = self.ex.local(body, e[1], 0, pos) if e[0] == "idx" else C(e[1] if isinstance(e[1], int) else e[1].get("offset", 0))
                acc["kind"] = "one"
                acc["lo"] = affine(lo)
                acc["lo_e"] = lo
                acc["hi"] = None if acc["lo"] is None else self._shift(acc["lo"], 1)
                acc["lo_s"] = show(lo)
                acc["dest"] = st.place.local if st.place.is_local() else None
            else:
                t = obj
                k = index_kind(t)
                acc["kind"] = k
                acc["dest"] = t.dest.local if t.dest is not None and t.dest.is_local() else None
                if k == "one":
                    lo = self.ex.operand(body, t.args[1], 0, pos)
                    acc["lo"] = affine(lo)
                    acc["lo_e"] = lo
                    acc["hi"] = None if acc["lo"] is None else self._shift(acc["lo"], 1)
                    acc["lo_s"] = show(lo)
                else:
                    rng = self._range_ops(t.args[1])
                    if rng is None:
                        acc["lo"] = acc["hi"] = None
                        acc["lo_s"] = "?"
                    else:
                        lo = self.ex.operand(body, rng[0], 0, rng[2])
                        acc["lo"] = affine(lo)
                        acc["lo_s"] = show(lo)
                        acc["hi"] = affine(self.ex.operand(body, rng[1], 0, rng[2])) if rng[1] is not None else "end"
                self.by_call_bb[pos[0]] = acc
            self.accesses[pos] = acc

    def _is_input(self, local):
        if local == self.input_param:
            return True
        return params_of(self.pv.of_local(self.body, local), self.body.id) == {self.input_param} and not any(a[0] == "call" for a in self.pv.of_local(self.body, local))

    @staticmethod
    def _shift(a, k):
        out = dict(a)
        out[()] = out.get((), 0) + k
        return out

    def _range_ops(self, op):
        """operands (start, end|None, position) of the Range / RangeFrom aggregate feeding an index call"""
        if op.place is None:
            return None
        for kind, pos, d in self.pv.defs(self.body).get(op.place.local, []):
            if kind == "assign" and d.rv["k"] == "agg" and re.search(r"::Range(From)?$", d.rv.get("adt", "")):
                ops = d.rv["ops"]
                return (ops[0], ops[1] if len(ops) > 1 else None, pos)
        return None

    def _sym(self, kind, lo, width):
        name = "%s[%s]" % (kind, self.fmt(lo))
        self.sym_bytes[name] = [self._shift(lo, i) for i in range(width)]
        return S(name)

    @staticmethod
    def key(a):
        return tuple(sorted(a.items(), key=str))

    def _direct_access(self, op):
        """the slice access whose result (through reborrows / copies only) IS the operand"""
        if op.place is None:
            return None
        cur = op.place.local
        seen = set()
        dests = {acc["dest"]: acc for acc in self.accesses.values() if acc.get("dest") is not None}
        while cur is not None and cur not in seen:
            seen.add(cur)
            if cur in dests:
                return dests[cur]
            ds = self.pv.defs(self.body).get(cur, [])
            if len(ds) != 1 or ds[0][0] != "assign":
                return None
            rv = ds[0][2].rv
            if rv["k"] == "use" and rv["op"].place is not None:
                cur = rv["op"].place.local
            elif rv["k"] == "ref":
                cur = rv["place"].local
            elif rv["k"] == "cast" and rv["op"].place is not None:
                cur = rv["op"].place.local
            else:
                return None
        return None

    def _consecutive(self, ops, pos):
        offs = [affine(self._index_expr(o, pos)) for o in ops]
        if any(o is None for o in offs):
            return False
        nz = lambda d: {k: v for k, v in d.items() if v != 0}
        return all(nz(offs[i]) == nz(self._shift(offs[0], i)) for i in range(len(offs)))

    def _index_expr(self, op, pos):
        """index expression of the byte access that defines operand `op` (a copy of bytes[i])"""
        if op.place is None:
            return ("u", "const")
        for key, acc in self.accesses.items():
            if acc.get("dest") is not None and acc["kind"] == "one":
                # the operand is (a copy / deref of) the access result
                src = op.place.local
                seen = set()
                while src is not None and src not in seen:
                    seen.add(src)
                    if src == acc["dest"]:
                        return acc["lo_e"]
                    ds = self.pv.defs(self.body).get(src, [])
                    nxt = None
                    if len(ds) == 1 and ds[0][0] == "assign" and ds[0][2].rv["k"] in ("use",) and ds[0][2].rv["op"].place is not None:
                        nxt = ds[0][2].rv["op"].place.local
                    src = nxt
        return ("u", "not a byte access")

    def _const_off(self, a):
        return a is not None and a != "end" and set(a) <= {()}

    def _leaf(self, ex, body, kind, obj):
        if body is not self.body:
            return None
        if kind == "phi":
            # a running index: a local re-assigned inside a loop, used inside that loop
            at = getattr(ex, "_at", None)
            if at is not None:
                # innermost loop that contains the use AND a definition of the local
                best = None
                for h, bl in body.natural_loops().items():
                    if at[0] in bl and any(d[1][0] in bl for d in self.pv.defs(body).get(obj, [])):
                        if best is None or len(bl) < len(best[1]):
                            best = (h, bl)
                if best is not None:
                    return S("idx#%d@%d" % (obj, best[0]))
            return None
        if kind == "place":
            pl = obj
            idx = [x for x in pl.fields() if x != "*" and x[0] in ("idx", "cidx")]
            if len(idx) == 1 and self._is_input(pl.local) and idx[0][0] == "idx":
                a = affine(ex.local(body, idx[0][1], 0, getattr(ex, "_at", None)))
                if a is not None:
                    return self._sym("byte", a, 1)
            return None
        if kind == "call":
            t = obj
            if is_bytes_index(t) and index_kind(t) == "one":
                a = affine(ex.operand(body, t.args[1], 0, getattr(ex, "_at", None)))
                if a is not None:
                    return self._sym("byte", a, 1)
                return None
            r = t.callee.res or t.callee.name or ""
            if r.endswith("u32_from_bytes") and len(t.args) == 1:
                acc = self._direct_access(t.args[0])
                if acc is not None and acc["lo"] is not None:
                    return self._sym("u32", acc["lo"], 4)
                return None
            if t.callee.method == "from_be_bytes" and len(t.args) == 1 and t.args[0].place is not None:
                for kind2, pos, d in self.pv.defs(body).get(t.args[0].place.local, []):
                    if kind2 == "assign" and d.rv["k"] == "agg" and d.rv.get("agg") == "array":
                        es = [ex.operand(body, o, 0, pos) for o in d.rv["ops"]]
                        if all(e[0] == "s" and e[1].startswith("byte[") for e in es):
                            offs0 = self.sym_bytes[es[0][1]][0]
                            return self._sym("u%d" % (8 * len(es)), offs0, len(es)) if self._consecutive(d.rv["ops"], pos) else None
                return None
            if t.callee.method == "len" and len(t.args) == 1 and params_of(self.pv.of_operand(body, t.args[0]), body.id) == {self.input_param}:
                return S("LEN")
            # a private, loop-free read helper (`u32_at(&bytes, offset)`): its own return value is read with a Reader of its own (offsets over
            # its parameters) and the actual arguments are substituted
            hb = self.prog.bodies.get(t.callee.res) if t.callee.res else None
            if hb is not None and hb.kind in ("Fn", "AssocFn") and not (hb.exported or hb.reachable) and not hb.natural_loops() and not getattr(self, "param_syms", False):
                ins = [i for i, a in enumerate(t.args) if a.place is not None and params_of(self.pv.of_operand(body, a), body.id) == {self.input_param}
                       and re.search(r"\[u8\]|Bytes<", hb.locals[i + 1]["s"] if i + 1 < len(hb.locals) else "")]
                if len(ins) == 1:
                    sub = Reader.__new__(Reader)
                    sub.param_syms = True
                    sub.__init__(self.prog, hb, ins[0] + 1)
                    rets = []
                    for kind2, pos2, d2 in sub.pv.defs(hb).get(0, []):
                        rets.append(sub.ex.rvalue(hb, d2, 0, pos2) if kind2 == "assign" else sub.ex.call(hb, d2, 0, pos2))
                    if len(rets) == 1 and rets[0][0] == "s" and rets[0][1] in sub.sym_bytes:
                        offs = []
                        for off in sub.sym_bytes[rets[0][1]]:
                            new = {}
                            for k, c in off.items():
                                if k == ():
                                    new[()] = new.get((), 0) + c
                                elif isinstance(k, str) and k.startswith("arg#"):
                                    ai = int(k[4:]) - 1
                                    av = affine(ex.operand(body, t.args[ai], 0, getattr(ex, "_at", None))) if 0 <= ai < len(t.args) else None
                                    if av is None:
                                        return None
                                    for k2, c2 in av.items():
                                        new[k2] = new.get(k2, 0) + c * c2
                                else:
                                    return None
                            offs.append({k: v for k, v in new.items() if v != 0 or k == ()})
                        nz = lambda d: {k: v for k, v in d.items() if v != 0}
                        if offs and all(nz(offs[i]) == nz(self._shift(offs[0], i)) for i in range(len(offs))):
                            return self._sym(rets[0][1].split("[", 1)[0], offs[0], len(offs))
        if kind == "param" and getattr(self, "param_syms", False):
            return S("arg#%d" % obj[0])
        return None

    def fmt(self, a):
        if a is None:
            return "?"
        if a == "end":
            return "end"
        parts = []
        for k in sorted(a, key=str):
            c = a[k]
            if k == ():
                parts.append(str(c))
            else:
                parts.append(("%s*%s" % (c, k)) if c != 1 else str(k))
        return " + ".join(parts) if parts else "0"

    def value_accesses(self, atoms):
        """accesses whose result feeds a value (by its provenance atoms: index calls; slice reads are matched by their destination local)"""
        out = set()
        for a in atoms:
            if a[0] == "call" and a[3] == self.body.id and a[4] in self.by_call_bb:
                out.add(self.by_call_bb[a[4]]["pos"])
        return out

    def _decoded_ranges(self):
        """range accesses whose slice is handed directly to the fixed-width integer decoder: the value IS those bytes"""
        if getattr(self, "_dr", None) is None:
            self._dr = set()
            for bi, t in self.body.calls():
                r = t.callee.res or t.callee.name or ""
                if r.endswith("u32_from_bytes") and len(t.args) == 1:
                    acc = self._direct_access(t.args[0])
                    if acc is not None:
                        self._dr.add(acc["pos"])
        return self._dr

    def guard_edges(self, bb):
        """non-validation branch edges that dominate block bb: (switch_bb, target) where another successor can still return normally"""
        b = self.body
        errs = error_blocks(b)
        out = []
        for sb in sorted(b.reach):
            x = b.blocks[sb].term
            if x.k != "switch":
                continue
            for tg in set(b.succ[sb]):
                if not b.edge_dominates((sb, tg), bb):
                    continue
                others = [y for y in b.succ[sb] if y != tg]
                normal = False
                for y in others:
                    if y in errs or b.blocks[y].term.k == "unreachable":
                        continue
                    reach = b.reachable_from(y, avoid_blocks=errs)
                    if any(e in reach for e in b.exits):
                        normal = True
                if normal:
                    out.append((sb, tg))
        return out

    def bytes_of_operand(self, op, at=None, include_ranges=False):
        """byte offsets (canonical affine keys -> printable) of the input bytes the VALUE of an operand is computed from: through
        the expression where it is arithmetic, through the provenance engine where it passes constructors / conversions.
        Bytes that only determine an OFFSET (decoded length fields inside an index expression) are not part of the value."""
        from expr import symbols
        e = self.ex.operand(self.body, op, 0, at)
        out = {}
        for x in symbols(e):
            for a in self.sym_bytes.get(x, []):
                out[self.key(a)] = "byte[%s]" % self.fmt(a)
        pvi = Prov(self.prog, inline=False)
        for pos in self.value_accesses(pvi.of_operand(self.body, op)):
            acc = self.accesses[pos]
            if acc["lo"] is not None and (acc["kind"] == "one" or include_ranges or pos in self._decoded_ranges()):
                out[self.key(acc["lo"])] = "byte[%s%s]" % (self.fmt(acc["lo"]), "" if acc["kind"] == "one" else "..")
        # drop the length fields: constant-offset bytes that occur inside the offset of another byte of the set
        inner = set()
        for k in out:
            for sym, c in k:
                if sym != () and sym in self.sym_bytes:
                    for a in self.sym_bytes[sym]:
                        inner.add(self.key(a))
        if any(k not in inner for k in out):
            out = {k: v for k, v in out.items() if k not in inner}
        return out, e


def ctor_param_fields(prog, ctor, owner_rx):
    """parameter index -> fields of the constructed record that are initialised from it"""
    pv = Prov(prog)
    out = {}
    for pos, st in ctor.stmts():
        if st.k == "assign" and st.rv["k"] == "agg" and st.rv.get("agg") == "adt" and re.search(owner_rx, st.rv.get("adt", "")):
            for f, o in zip(st.rv["fields"], st.rv["ops"]):
                for p in params_of(pv.of_operand(ctor, o), ctor.id):
                    out.setdefault(p, set()).add(f)
    # delegating constructors (try_new -> new)
    if not out:
        for bi, t in ctor.calls():
            tg = prog.bodies.get(t.callee.res) if t.callee.res else None
            if tg is not None and tg.name == "new" and tg.id != ctor.id:
                inner = ctor_param_fields(prog, tg, owner_rx)
                for i, a in enumerate(t.args):
                    for p in params_of(pv.of_operand(ctor, a), ctor.id):
                        out.setdefault(p, set()).update(inner.get(i + 1, set()))
    return out


def field_stores(prog, body, owner_rx):
    """stores through `<field>_mut()` accessors of the record: list of (field, store_bb, stmt)"""
    pv = Prov(prog)
    out = []
    acc = {}
    for bi, t in body.calls():
        tg = prog.bodies.get(t.callee.res) if t.callee.res else None
        if tg is not None and tg.name and tg.name.endswith("_mut") and re.search(owner_rx, (tg.impl_self or {}).get("s", "")) and t.dest is not None and t.dest.is_local():
            fields = {a[2] for a in pv.of_return(tg) if a[0] == "field" and re.search(owner_rx, a[1])}
            if len(fields) == 1:
                acc[t.dest.local] = next(iter(fields))
    for (bi, si), s in body.stmts():
        if s.k == "assign" and "*" in s.place.fields() and s.place.local in acc:
            out.append((acc[s.place.local], bi, s))
    return out


def check_field_independence(ck, rule, prog, body, owner_rx, label):
    """every optional store of a decoded field is guarded only by tests on that field's OWN bytes (or by validation guards):
    a field whose decoding depends on another field's value is silently dropped for some encodings the writer produces"""
    R = Reader(prog, body)
    stores = field_stores(prog, body, owner_rx)
    if not stores:
        ck.undecided(rule, "%s/field-guards" % label, "no store through a *_mut accessor recognised in %s" % body.short, where=body.where())
        return 0
    n = 0
    for fld, bb, st in stores:
        own, _ = R.bytes_of_operand(st.ops[0], (bb, 0)) if st.ops else ({}, None)
        guards = R.guard_edges(bb)
        gsyms = {}
        per_guard = []
        for sb, tg in guards:
            x = body.blocks[sb].term
            syms, e = R.bytes_of_operand(x.discr, (sb, len(body.blocks[sb].stmts)))
            gsyms.update(syms)
            per_guard.append(syms)
        if not own:
            # a constant is stored (a flag): the tested byte IS the field - one byte position only
            ok = len(gsyms) <= 1
            ck.ob(rule, "%s/field-guards/%s" % (label, fld), ok, "%s: `%s` is set under a test of %s" % (body.short, fld, sorted(gsyms.values()) or "no input byte"), where=body.where(st.line))
            # ... and a flag that is stored under a test of its byte is stored as TRUE (the record is created with the flag clear)
            if st.ops and st.ops[0].kind == "const" and (st.ops[0].const or {}).get("ty") == "bool" and guards:
                ck.ob(rule, "%s/field-value/%s" % (label, fld), st.ops[0].const.get("val") == "true", "%s stores `%s = %s` under the test of its flag byte%s" % (body.short, fld, st.ops[0].const.get("val"), "" if st.ops[0].const.get("val") == "true" else ": the flag is never set, whatever the input says"), where=body.where(st.line))
        else:
            foreign = sorted(v for k, v in gsyms.items() if k not in own)
            ck.ob(rule, "%s/field-guards/%s" % (label, fld), not foreign,
                  "%s: `%s` is decoded from %s%s" % (body.short, fld, sorted(own.values()), "" if not foreign else " but ONLY when a test on %s (another field) succeeds: the writer emits the field unconditionally, so a record with this field set and the other clear loses it" % foreign),
                  where=body.where(st.line))
        n += 1
    return n


# ------------------------------------------------------------------------------------------------ writer side

INT_WIDTH = {"u8": 1, "i8": 1, "u16": 2, "i16": 2, "u32": 4, "i32": 4, "u64": 8, "i64": 8, "usize": 8}


class Writer:
    """the byte segments a record encoder appends to its output vector, in order:
    list of dict(width (expr), value (expr | None), fields (record fields the value derives from), line, cond)"""

    def __init__(self, prog, body, owner_rx):
        self.prog = prog
        self.body = body
        self.owner_rx = owner_rx
        self.pv = Prov(prog, inline=False, mutflow=False)
        self.pvf = Prov(prog, inline=False)
        self.len_local = None  # the local holding the (possibly truncated) name length
        self.ex = Extract(prog, self.pv, self._leaf)
        self.problems = []
        self.out = self._out_local()
        self.segments = []
        if self.out is None:
            self.problems.append("output vector not recognised")
            return
        self._collect()

    # -- helpers
    def _out_local(self):
        for kind, pos, d in self.pv.defs(self.body).get(0, []):
            if kind == "assign" and d.rv["k"] == "use" and d.rv["op"].place is not None and d.rv["op"].place.is_local():
                return d.rv["op"].place.local
        return None

    def _is_out_ref(self, op):
        if op.place is None or not op.place.is_local():
            return False
        for kind, pos, d in self.pv.defs(self.body).get(op.place.local, []):
            if kind == "assign" and d.rv["k"] == "ref" and d.rv["place"].local == self.out and not [e for e in d.rv["place"].fields() if e != "*"]:
                return True
        return False

    def _leaf(self, ex, body, kind, obj):
        if body is not self.body:
            return None
        if kind == "phi" and obj == self.len_local:
            return S("N")
        if kind == "call":
            t = obj
            r = t.callee.res or t.callee.name or ""
            if t.callee.method == "len" and len(t.args) == 1:
                fl = self._fields(self.pvf.of_operand(body, t.args[0]))
                if fl:
                    return S("|%s|" % "/".join(sorted(fl)))
                return None
        if kind == "param":
            return None
        return None

    def _fields(self, atoms):
        out = set()
        for a in atoms:
            if a[0] == "field" and re.search(self.owner_rx, a[1]):
                out.add(a[2])
            if a[0] == "param" and a[2] == 1:
                for e in a[-1]:
                    if e[0] == "f" and re.search(self.owner_rx, e[2] or ""):
                        out.add(e[1])
            if a[0] == "call" and a[3] == self.body.id:
                m = re.search(r"annotations::disease::Disease::(\w+)$", a[1])
                if m and m.group(1) in ("name", "id", "hpo_terms"):
                    out.add({"hpo_terms": "hpos"}.get(m.group(1), m.group(1)))
                tg = self.prog.bodies.get(a[1])
                # accessor of the record: which field does it return
                if tg is not None and tg.impl_self and re.search(self.owner_rx, tg.impl_self.get("s", "")) and tg.nargs == 1:
                    for x in Prov(self.prog).of_return(tg):
                        if x[0] == "field" and re.search(self.owner_rx, x[1]):
                            out.add(x[2])
        return out

    def _width_of_appended(self, op):
        """width expression of a Vec<u8> / slice operand appended to the output"""
        at = self.pv.of_operand(self.body, op)
        for a in at:
            if a[0] != "call" or a[3] != self.body.id:
                continue
            t = self.body.blocks[a[4]].term
            nm = t.callee.name or ""
            m = re.search(r"core::num::<impl (\w+)>::to_(be|le|ne)_bytes$", nm)
            if m:
                return C(INT_WIDTH.get(m.group(1), 0)), t.args[0]
            tg = self.prog.bodies.get(t.callee.res) if t.callee.res else self.prog.bodies.get(getattr(t.callee, "deff", None) or "")
            if tg is not None:
                ret = tg.locals[0]["s"]
                m = re.match(r"^\[u8; (\d+)(_usize)?\]$", ret)
                if m:
                    return C(int(m.group(1))), t.args[0]
                if tg.name == "as_bytes" and re.search(r"HpoGroup", (tg.impl_self or {}).get("s", "")):
                    fl = self._fields(self.pvf.of_operand(self.body, t.args[0]))
                    return e_mul(C(4), S("|%s|" % "/".join(sorted(fl)) if fl else "|?|")), t.args[0]
        return None, None

    def _collect(self):
        b = self.body
        from engines import for_loops, adaptor_chain
        loops = for_loops(b)
        sites = []
        for bi, t in b.calls():
            if t.callee.method in ("push", "append", "extend", "extend_from_slice") and len(t.args) == 2 and self._is_out_ref(t.args[0]):
                sites.append((bi, t))
        order = sorted(sites, key=lambda x: x[0])
        # dominance order == block order is not guaranteed: sort by dominance, fall back to block index
        def before(a, c):
            return b.dominates(a[0], c[0])
        ret_bb = b.exits[0] if b.exits else None
        # first pass: find the name-length local: the value of a 1-byte push that is a cast of a local with several definitions, or a take() count
        for bi, t in order:
            lp = [l for l in loops if bi in l["blocks"]]
            if lp:
                for cb, ct in b.calls():
                    if ct.callee.method == "take" and ct.callee.trait == "std::iter::Iterator" and len(ct.args) == 2 and ct.args[1].place is not None:
                        from engines import source_local
                        self.len_local = source_local(b, ct.args[1], self.pv)
        for bi, t in order:
            seg = {"line": t.line, "bb": bi, "cond": ret_bb is not None and not b.dominates(bi, ret_bb)}
            lp = [l for l in loops if bi in l["blocks"]]
            if t.callee.method == "push":
                w = C(1)
                val = t.args[1]
            else:
                w, val = self._width_of_appended(t.args[1])
                if w is None:
                    self.problems.append("width of the bytes appended at line %s not recognised" % t.line)
                    w = ("u", "appended width")
            if lp:
                cnt = None
                for cb, ct in b.calls():
                    if ct.callee.method == "take" and ct.callee.trait == "std::iter::Iterator" and len(ct.args) == 2:
                        # the take() whose result reaches this loop's iterator
                        if any(a[0] == "call" and a[3] == b.id and a[4] == cb for a in self.pv.of_operand(b, lp[0]["iter"])):
                            cnt = self.ex.operand(b, ct.args[1], 0, (cb, len(b.blocks[cb].stmts)))
                if cnt is None:
                    fl = self._fields(self.pvf.of_operand(b, lp[0]["iter"]))
                    chain = adaptor_chain(b, self.pv, lp[0]["iter"])
                    if fl and not [m for m in chain if m in ("skip", "step_by", "filter", "take_while", "skip_while", "filter_map", "chunks", "windows")]:
                        cnt = S("|%s|" % "/".join(sorted(fl)))
                    else:
                        cnt = ("u", "loop count")
                w = e_mul(w, cnt)
                seg["cond"] = False
                seg["loop"] = True
            seg["width"] = w
            seg["value"] = self.ex.operand(b, val, 0, (bi, len(b.blocks[bi].stmts))) if val is not None and not lp else None
            seg["fields"] = self._fields(self.pvf.of_operand(b, val)) if val is not None else set()
            self.segments.append(seg)
        # conditional pushes of equal width in sibling branches count once (if / else)
        merged = []
        i = 0
        while i < len(self.segments):
            sgm = self.segments[i]
            if sgm["cond"] and i + 1 < len(self.segments) and self.segments[i + 1]["cond"] and affine(sgm["width"]) == affine(self.segments[i + 1]["width"]) \
                    and not b.dominates(sgm["bb"], self.segments[i + 1]["bb"]) and not b.dominates(self.segments[i + 1]["bb"], sgm["bb"]):
                m = dict(sgm)
                m["cond"] = False
                m["fields"] = sgm["fields"] | self.segments[i + 1]["fields"] | self._branch_fields(sgm["bb"])
                m["value"] = None
                merged.append(m)
                i += 2
            else:
                if sgm["cond"]:
                    self.problems.append("conditional append at line %s" % sgm["line"])
                merged.append(sgm)
                i += 1
        self.segments = merged
        # offsets
        off = C(0)
        for sgm in self.segments:
            sgm["lo"] = affine(off)
            off = e_add(off, sgm["width"])
            sgm["hi"] = affine(off)
        self.total = affine(off)

    def _branch_fields(self, bb):
        """record fields tested by the switch that selects between two sibling pushes"""
        b = self.body
        out = set()
        for sb in sorted(b.reach):
            x = b.blocks[sb].term
            if x.k == "switch" and bb in b.succ[sb]:
                out |= self._fields(self.pvf.of_operand(b, x.discr))
        return out


# ------------------------------------------------------------------------------------------------ writer vs reader

def _afmt(a):
    if a is None:
        return "?"
    if a == "end":
        return "end"
    parts = []
    for k in sorted(a, key=str):
        c = a[k]
        if k == ():
            parts.append(str(c))
        else:
            parts.append(("%s*%s" % (c, k)) if c != 1 else str(k))
    return " + ".join(parts) if parts else "0"


def _rename(a, m):
    """rename the symbols of an affine form; None if a symbol has no image"""
    if a is None or a == "end":
        return a
    out = {}
    for k, c in a.items():
        if k == ():
            out[()] = out.get((), 0) + c
        elif k in m:
            out[m[k]] = out.get(m[k], 0) + c
        else:
            return None
    return {k: v for k, v in out.items() if v != 0 or k == ()}


def _norm(a):
    if a is None or a == "end":
        return a
    return {k: v for k, v in a.items() if v != 0}


def check_record_layout(ck, rule, prog, wbody, rbody, owner_rx, label, reader_input=1, running_base=False, size_field=True):
    """the byte offsets the decoder reads are field boundaries of the layout the encoder writes; the declared lengths agree with
    what is emitted; the decoder's length validations are the encoder's total size"""
    W = Writer(prog, wbody, owner_rx)
    R = Reader(prog, rbody, reader_input)
    if running_base:
        # the decoder walks a sequence of records with one running index: offsets are taken relative to the index value at
        # the top of the outermost loop (the start of the current record)
        loops = rbody.natural_loops()
        if loops:
            h0 = max(loops, key=lambda h: len(loops[h]))
            for pos, acc in R.accesses.items():
                for fld_ in ("lo", "hi"):
                    a = acc.get(fld_)
                    if isinstance(a, dict):
                        bs = [k for k in a if k != () and str(k).startswith("idx#") and str(k).endswith("@%d" % h0) and a[k] == 1]
                        if bs:
                            acc[fld_] = {k: v for k, v in a.items() if k not in bs}
                            acc["based"] = True
                if acc.get("based") and not any(str(k).startswith("idx#") for k in (acc["lo"] or {}) if k != ()):
                    acc["loop"] = False
            R.base_syms = {"@%d" % h0}
    if W.problems or not W.segments or any(s["lo"] is None or s["hi"] is None for s in W.segments):
        ck.undecided(rule, "%s/writer" % label, "layout written by %s not recognised (%s)" % (wbody.short, "; ".join(W.problems) or "a segment width is not affine"), where=wbody.where())
        return 0
    n = 0
    segs = W.segments
    # a name is cut short only where its length field forces that: a 1-byte length field caps the name at 255 bytes, a 4-byte field
    # holds any name - there the declared length must be the full length (a cap would silently shorten long names on reload)
    for sg in segs:
        if sg["fields"] == {"name"} and sg["value"] is not None and not sg.get("loop"):
            w = affine(sg["width"])
            if w is not None and set(w) <= {()} and int(w.get((), 0)) == 4 and show(sg["value"]) == "N":
                ck.ob(rule, "%s/name-length-full" % label, False, "%s declares the name length in a 4-byte field but writes a TRUNCATED length (the name is capped although the field can hold its full length): names beyond the cap change on reload" % wbody.short, where=wbody.where(sg["line"]))
                n += 1
            elif w is not None and set(w) <= {()} and int(w.get((), 0)) == 4:
                ck.ob(rule, "%s/name-length-full" % label, True, "%s writes the full name length into its 4-byte field" % wbody.short, where=wbody.where(sg["line"]))
                n += 1
    # ---- writer: declared total size == bytes emitted
    s0 = segs[0]
    if not size_field:
        pass
    elif s0["value"] is not None and affine(s0["value"]) is not None:
        ok = _norm(affine(s0["value"])) == _norm(W.total)
        ck.ob(rule, "%s/declared-size" % label, ok, "%s declares a record size of %s and emits %s bytes" % (wbody.short, _afmt(_norm(affine(s0["value"]))), _afmt(_norm(W.total))), where=wbody.where(s0["line"]))
        n += 1
    else:
        ck.undecided(rule, "%s/declared-size" % label, "the value written as record size is not an affine expression of the field lengths", where=wbody.where(s0["line"]))
    # ---- writer: a declared length field is followed by exactly that many bytes
    for i, sg in enumerate(segs[:-1]):
        v = affine(sg["value"]) if sg["value"] is not None else None
        if v is not None and len([k for k in v if k != ()]) == 1 and v.get((), 0) == 0:
            sym = [k for k in v if k != ()][0]
            later = [x for x in segs[i + 1:] if sym in (_norm(affine(x["width"])) or {})]
            nxt = later[0] if later else segs[i + 1]
            w = _norm(affine(nxt["width"]))
            if w is not None and set(w) == {sym}:
                per = w[sym] / v[sym]
                ck.ob(rule, "%s/declared-length/%s" % (label, "/".join(sorted(sg["fields"])) or str(i)), per in (1, 4), "%s writes the length %s and then %s bytes (%s per element)" % (wbody.short, _afmt(v), _afmt(w), per), where=wbody.where(nxt["line"]))
                n += 1
            elif w is not None and nxt.get("loop"):
                ck.ob(rule, "%s/declared-length/%s" % (label, "/".join(sorted(sg["fields"])) or str(i)), False, "%s writes the length %s but then emits %s bytes: the declared length and the bytes that follow disagree" % (wbody.short, _afmt(v), _afmt(w)), where=wbody.where(nxt["line"]))
                n += 1
    # evaluate the length validations first: doing so registers the symbols of the decoded length fields they mention
    guards_pre = []
    for sb in sorted(rbody.reach):
        x = rbody.blocks[sb].term
        if x.k != "switch" or x.discr.place is None:
            continue
        for kind, dpos, d in R.pv.defs(rbody).get(x.discr.place.local, []):
            if kind == "assign" and d.rv["k"] == "bin" and d.rv["op"] in ("Lt", "Le", "Gt", "Ge", "Eq", "Ne"):
                guards_pre.append((d, R.ex.operand(rbody, d.rv["l"], 0, dpos), R.ex.operand(rbody, d.rv["r"], 0, dpos)))
    # ---- reader symbols -> writer symbols, by the offset they are read at
    rename = {}
    for name, offs in sorted(R.sym_bytes.items(), key=lambda kv: (len([k for k in kv[1][0] if k != ()]), str(kv[1][0].get((), 0)))):
        lo = _rename(offs[0], rename)
        if lo is None:
            continue
        for sg in segs:
            if _norm(sg["lo"]) == _norm(lo) and sg["value"] is not None:
                v = affine(sg["value"])
                if v is not None and len(v) == 1 and () not in v and list(v.values())[0] == 1 and _norm(affine(sg["width"])) == {(): len(offs)}:
                    rename[name] = list(v.keys())[0]
    bounds_lo = [_norm(s["lo"]) for s in segs]
    bounds_hi = [_norm(s["hi"]) for s in segs]
    # ---- every access outside loops starts and ends on a field boundary
    for pos, acc in sorted(R.accesses.items()):
        if acc["loop"]:
            continue
        lo = _norm(_rename(acc["lo"], rename))
        hi = acc["hi"] if acc["hi"] == "end" else _norm(_rename(acc["hi"], rename))
        if lo is None or hi is None:
            ck.undecided(rule, "%s/read@%s" % (label, acc["line"]), "offset %s of a read in %s is not affine in the decoded length fields" % (acc.get("lo_s", "?"), rbody.short), where=rbody.where(acc["line"]))
            continue
        n += 1
        ok_lo = lo in bounds_lo
        ok_hi = hi == "end" or hi in bounds_hi or (acc["kind"] == "one" and any(_inside(lo, bl, bh) for bl, bh in zip(bounds_lo, bounds_hi)))
        if acc["kind"] == "one":
            ok_lo = any(_inside(lo, bl, bh) for bl, bh in zip(bounds_lo, bounds_hi))
        key = "%s/read/%s" % (label, _afmt(_norm(acc["lo"])).replace(" ", ""))
        ck.ob(rule, key, ok_lo and ok_hi, "%s reads [%s, %s) - %s" % (rbody.short, _afmt(lo), _afmt(hi), "a field of the layout %s writes" % wbody.short if ok_lo and ok_hi else "NOT aligned with the fields %s writes (%s)" % (wbody.short, ", ".join("[%s,%s)" % (_afmt(a), _afmt(b)) for a, b in zip(bounds_lo, bounds_hi)))), where=rbody.where(acc["line"]))
    # ---- element loops: the running index starts where the encoder's element block starts, the elements are read as
    #      consecutive bytes from it, and it advances by the element width
    groups = {}
    for pos, acc in sorted(R.accesses.items()):
        if acc["loop"] and acc["lo"] is not None:
            idxs = [k for k in acc["lo"] if k != () and str(k).startswith("idx#")]
            if len(idxs) == 1 and len([k for k in acc["lo"] if k != ()]) == 1 and acc["lo"][idxs[0]] == 1:
                groups.setdefault(idxs[0], []).append((acc["lo"].get((), 0), acc))
    for isym, accs in sorted(groups.items()):
        L = int(isym[4:].split("@")[0])
        offs = sorted(int(o) for o, _ in accs)
        width = len(offs)
        consecutive = offs == list(range(width))
        if len(accs) == 1 and accs[0][1]["kind"] != "one" and accs[0][1]["pos"] in R._decoded_ranges() and offs == [0]:
            # `u32_from_bytes(&bytes[idx..])`: one sub-slice per element, decoded as a big-endian u32
            width, consecutive = 4, True
        lp = rbody.loop_of(accs[0][1]["bb"])
        steps = []
        for kind, dpos, d in R.pv.defs(rbody).get(L, []):
            if lp is not None and dpos[0] in lp[1]:
                e = R.ex.rvalue(rbody, d, 0, dpos) if kind == "assign" else ("u", "call")
                a = affine(e)
                steps.append(a.get((), None) if a is not None and a.get(isym) == 1 and set(a) <= {isym, ()} else None)
        entry = None
        if lp is not None:
            pre = [p_ for p_ in rbody.pred[lp[0]] if p_ not in lp[1]]
            if len(pre) == 1:
                R.ex._memo.clear()
                ea = affine(R.ex.local(rbody, L, 0, (pre[0], 10 ** 6)))
                if ea is not None and getattr(R, "base_syms", None):
                    ea = {k: v for k, v in ea.items() if not (k != () and any(str(k).endswith(b_) for b_ in R.base_syms) and v == 1)}
                entry = _norm(_rename(ea, rename))
        seg = [sg for sg in segs if entry is not None and _norm(sg["lo"]) == entry]
        n += 1
        per = None
        if seg:
            w = _norm(affine(seg[0]["width"]))
            syms = [k for k in (w or {}) if k != ()]
            if w is not None and len(syms) == 1 and w.get((), 0) == 0:
                per = w[syms[0]]
        ok = consecutive and bool(seg) and steps == [width] and per == width
        ck.ob(rule, "%s/element-loop" % label, ok, "%s reads elements of %d consecutive byte(s) starting at %s and advancing by %s per element; %s writes the element block at %s with %s byte(s) per element" % (
            rbody.short, width, _afmt(entry), steps, wbody.short, _afmt(_norm(seg[0]["lo"])) if seg else "no matching offset", per), where=rbody.where(accs[0][1]["line"]))
    # ---- each decoded field is filled from the bytes where the encoder put THAT field
    def seg_fields_at(off):
        o = _norm(_rename(dict(off), rename))
        if o is None:
            return None
        for sg in segs:
            if _inside(o, _norm(sg["lo"]), _norm(sg["hi"])) or o == _norm(sg["lo"]):
                return sg["fields"]
        return set()
    assoc = []
    for fld, bb, st in field_stores(prog, rbody, owner_rx):
        own, _e = R.bytes_of_operand(st.ops[0], (bb, 0)) if st.ops else ({}, None)
        used = dict(own)
        for sb, tg in R.guard_edges(bb):
            x = rbody.blocks[sb].term
            syms, _e2 = R.bytes_of_operand(x.discr, (sb, len(rbody.blocks[sb].stmts)))
            used.update(syms)
        assoc.append((fld, st.line, used))
    pvi = Prov(prog, inline=False)
    for bi, t in rbody.calls():
        tg = prog.bodies.get(t.callee.res) if t.callee.res else None
        if tg is None or tg.name not in ("new", "try_new") or not re.search(owner_rx, (tg.impl_self or {}).get("s", "") + tg.locals[0]["s"]):
            continue
        pf = ctor_param_fields(prog, tg, owner_rx)
        for i, a in enumerate(t.args):
            flds = pf.get(i + 1)
            if not flds:
                continue
            used, _e = R.bytes_of_operand(a, (bi, len(rbody.blocks[bi].stmts)), include_ranges=True)
            for f in sorted(flds):
                assoc.append((f, t.line, used))
    # a value read through a SUB-SLICE of the input (`let tail = &bytes[n..n + 5]; tail[0]`) sits at base + index: the reader model does not
    # rebase such reads, so the association of those fields is not decided (the bytes it would name are those of the base expression)
    sub_calls = set()
    for sbi_, st_ in rbody.calls():
        if re.search(r"Index<std::ops::Range(Inclusive)?<usize>>", st_.callee.def_args or "") and st_.dest is not None and st_.dest.is_local():
            alias = {st_.dest.local}
            grow = True
            while grow:
                grow = False
                for _, s2 in rbody.stmts():
                    if s2.k == "assign" and s2.place.is_local() and s2.place.local not in alias:
                        src_ = s2.rv["op"].place if s2.rv["k"] == "use" else s2.rv["place"] if s2.rv["k"] == "ref" else None
                        if src_ is not None and src_.local in alias and not [e for e in src_.fields() if e != "*"]:
                            alias.add(s2.place.local)
                            grow = True
            indexed = False
            for _, s2 in rbody.stmts():
                for o_ in (s2.ops or []):
                    if o_.place is not None and o_.place.local in alias and any(e != "*" and e[0] in ("idx", "cidx") for e in o_.place.fields()):
                        indexed = True
            if indexed:
                sub_calls.add(sbi_)

    def via_subslice(op):
        if op is None or op.place is None or not sub_calls:
            return False
        return any(a[0] == "call" and a[3] == rbody.id and a[4] in sub_calls for a in pvi.of_operand(rbody, op))
    rebased = set()
    for fld, bb, st in field_stores(prog, rbody, owner_rx):
        ops_ = list(st.ops[:1]) + [rbody.blocks[sb].term.discr for sb, tg in R.guard_edges(bb)]
        if any(via_subslice(o) for o in ops_):
            rebased.add(fld)
    for fld, line, used in assoc:
        if not used:
            continue
        if fld in rebased:
            ck.undecided(rule, "%s/field/%s" % (label, fld), "%s fills `%s` from a sub-slice of the input taken at a computed offset: the bytes behind it are not rebased by this rule" % (rbody.short, fld), where=rbody.where(line))
            continue
        wrong = []
        for k, name in sorted(used.items(), key=lambda kv: kv[1]):
            sf = seg_fields_at(dict(k))
            if sf is None:
                continue
            if fld not in sf:
                wrong.append("%s (the encoder stores %s there)" % (name, "/".join(sorted(sf)) or "nothing"))
        n += 1
        ck.ob(rule, "%s/field/%s" % (label, fld), not wrong, "%s fills `%s` from %s%s" % (rbody.short, fld, ", ".join(sorted(used.values())[:6]), "" if not wrong else ": " + "; ".join(wrong[:3])), where=rbody.where(line))
    # ---- length validations
    total = _norm(W.total)
    for d, l, r in guards_pre:
        if True:
            other = None
            if l == S("LEN"):
                other = r
            elif r == S("LEN"):
                other = l
            if other is None:
                continue
            a = _norm(_rename(affine(other), rename)) if affine(other) is not None else None
            if a is None:
                continue
            if any(k not in total and k != () for k in a):
                continue  # compared with a decoded total-length field: not a layout constant
            n += 1
            cands = _zeroings(total)
            ck.ob(rule, "%s/length-check/%s" % (label, _afmt(a).replace(" ", "")), a in cands, "%s validates the input length against %s; the record %s writes has %s bytes%s" % (rbody.short, _afmt(a), wbody.short, _afmt(total), "" if a in cands else " (no choice of empty variable parts gives that bound)"), where=rbody.where(d.line))
            # ... and a record of EXACTLY that many bytes is one the encoder can emit (the variable parts left out of the bound are empty):
            # the branch taken for `len == bound` must not be the rejecting one
            if a in cands:
                from engines import compare_switches, relation_cases
                for cs in compare_switches(rbody, R.pv):
                    if cs["line"] != d.line or cs["op"] != d.rv["op"]:
                        continue
                    cases = relation_cases(cs, swap=(r == S("LEN")))
                    eq_tg = cases.get("eq")
                    if eq_tg is None:
                        continue
                    rejects_eq = fails_from(rbody, eq_tg)
                    ck.ob(rule, "%s/length-check/%s/accepts-exact" % (label, _afmt(a).replace(" ", "")), not rejects_eq, "%s %s an input of exactly %s bytes%s" % (rbody.short, "accepts" if not rejects_eq else "REJECTS", _afmt(a), "" if not rejects_eq else ": the encoder emits records of that size (empty variable parts), so the library's own output is refused"), where=rbody.where(d.line))
                    break
    return n


def _inside(x, lo, hi):
    """x in [lo, hi) for affine forms that differ from lo by a constant"""
    if x is None or lo is None or hi is None:
        return False
    d = {k: x.get(k, 0) - lo.get(k, 0) for k in set(x) | set(lo)}
    d = {k: v for k, v in d.items() if v != 0}
    if any(k != () for k in d):
        return False
    off = d.get((), 0)
    w = {k: hi.get(k, 0) - lo.get(k, 0) for k in set(hi) | set(lo)}
    w = {k: v for k, v in w.items() if v != 0}
    if any(k != () for k in w):
        return off == 0 or (off >= 0 and all(v > 0 for v in w.values()) and False)
    return 0 <= off < w.get((), 0)


def _zeroings(total):
    syms = [k for k in total if k != ()]
    out = []
    for mask in range(1 << len(syms)):
        a = {(): total.get((), 0)}
        for i, sname in enumerate(syms):
            if not (mask >> i) & 1:
                a[sname] = total[sname]
        out.append({k: v for k, v in a.items() if v != 0})
    return out


def check_fixed_part_validation(ck, rule, prog, rbody, label, reader_input=1):
    """reader-only (for layouts the crate does not write, e.g. binary v1): a CONSTANT bound of a length validation equals the end
    of the fixed-offset part the decoder reads - a larger constant rejects valid short records, a smaller one lets a read run past
    the input"""
    R = Reader(prog, rbody, reader_input)
    fixed_end = 0
    for pos, acc in R.accesses.items():
        if acc["loop"] or acc["lo"] is None:
            continue
        if set(acc["lo"]) <= {()}:
            hi = acc["hi"] if isinstance(acc["hi"], dict) and set(acc["hi"]) <= {()} else None
            end = hi.get((), 0) if hi is not None else acc["lo"].get((), 0) + (4 if acc["kind"] == "from" else 0)
            fixed_end = max(fixed_end, int(end))
    n = 0
    for sb in sorted(rbody.reach):
        x = rbody.blocks[sb].term
        if x.k != "switch" or x.discr.place is None:
            continue
        for kind, dpos, d in R.pv.defs(rbody).get(x.discr.place.local, []):
            if kind != "assign" or d.rv["k"] != "bin" or d.rv["op"] not in ("Lt", "Le", "Gt", "Ge"):
                continue
            l = R.ex.operand(rbody, d.rv["l"], 0, dpos)
            r = R.ex.operand(rbody, d.rv["r"], 0, dpos)
            other = r if l == S("LEN") else l if r == S("LEN") else None
            a = affine(other) if other is not None else None
            if a is None or not set(a) <= {()}:
                continue
            c = int(a.get((), 0))
            need = fixed_end if d.rv["op"] in ("Lt", "Ge") and l == S("LEN") or d.rv["op"] in ("Gt", "Le") and r == S("LEN") else fixed_end - 1
            n += 1
            ck.ob(rule, "%s/fixed-part/%d" % (label, c), c == need, "%s rejects input shorter than %d byte(s); the fixed-offset part it reads ends at byte %d%s" % (rbody.short, c, fixed_end, "" if c == need else (": valid records of %d..%d bytes are rejected" % (fixed_end, c - 1) if c > need else ": reads beyond the validated length")), where=rbody.where(d.line))
    if not n:
        ck.undecided(rule, "%s/fixed-part" % label, "no constant length validation recognised in %s" % rbody.short, where=rbody.where())
    return n


# ------------------------------------------------------------------------------------------------ how much input a reader demands
def fails_from(body, tg):
    """every path from block tg ends in a panic (a diverging call / unreachable) or in an error result"""
    errs = error_blocks(body)
    seen, work = set(), [tg]
    while work:
        b = work.pop()
        if b in seen:
            continue
        seen.add(b)
        if b in errs:
            continue
        x = body.blocks[b].term
        if x.k == "return":
            return False
        if x.k == "unreachable":
            continue
        if x.k == "call" and x.target is None:
            continue
        work.extend(x.successors())
    return True


def length_demand(prog, body, param=1):
    """(bytes demanded by explicit length guards, end of the constant-offset part that is read) of a function that decodes a
    prefix of its input: the smallest input length on which no guard of the form `len OP constant` fails, and 1 + the
    largest constant offset it reads.  None for a component that is not recognised."""
    from engines import compare_switches, relation_cases
    R = Reader(prog, body, param)
    fixed_end = None
    for pos, acc in R.accesses.items():
        if acc["loop"] or acc["lo"] is None or not set(acc["lo"]) <= {()}:
            continue
        hi = acc["hi"] if isinstance(acc["hi"], dict) and set(acc["hi"]) <= {()} else None
        end = hi.get((), 0) if hi is not None else acc["lo"].get((), 0) + (4 if acc["kind"] == "from" else 0)
        fixed_end = max(fixed_end or 0, int(end))
    demand = 0
    for cs in compare_switches(body, R.pv):
        l = R.ex.operand(body, cs["l"], 0, (cs["bb"], 0))
        r = R.ex.operand(body, cs["r"], 0, (cs["bb"], 0))
        if l == S("LEN"):
            other, swap = r, False
        elif r == S("LEN"):
            other, swap = l, True
        else:
            continue
        a = affine(other)
        if a is None or not set(a) <= {()}:
            continue
        c = int(a.get((), 0))
        cases = relation_cases(cs, swap=swap)  # LEN against c
        bad = {k for k, tg in cases.items() if tg is not None and fails_from(body, tg)}
        if bad == {"lt"}:
            demand = max(demand, c)
        elif bad == {"lt", "eq"}:
            demand = max(demand, c + 1)
    # bounds-check asserts of constant indices are implied by fixed_end
    return demand, fixed_end


def check_end_guards(ck, rule, label, prog, body, input_param=1):
    """a reader of consecutive records may stop only when NOTHING is left: every branch that ends the iteration (leaves the record
    loop normally / returns `None` from `next`) on a comparison of the input length with the consumed offset must be equivalent to
    `remaining == 0`.  A constant slack (`remaining < 14`) silently drops trailing records that are shorter than the slack."""
    from engines import compare_switches, relation_cases
    R = Reader(prog, body, input_param)
    loops = body.natural_loops()
    is_next = body.name == "next"
    n = 0

    def is_stop(sw, tg):
        if tg is None or fails_from(body, tg):
            return False
        inner = [bl for h, bl in loops.items() if sw in bl]
        if inner:
            return tg not in min(inner, key=len)
        if is_next:
            reg = body.region((sw, tg))
            return any(st.k == "assign" and st.place.local == 0 and st.rv["k"] == "agg" and st.rv.get("variant") == "None" for r_ in reg for st in body.blocks[r_].stmts)
        return False

    for cs in compare_switches(body, R.pv):
        at = (cs["bb"], len(body.blocks[cs["bb"]].stmts))
        l = R.ex.operand(body, cs["l"], 0, at)
        r = R.ex.operand(body, cs["r"], 0, at)
        if l == S("LEN") and r != S("LEN"):
            other, swap = r, False
        elif r == S("LEN") and l != S("LEN"):
            other, swap = l, True
        else:
            continue
        cases = relation_cases(cs, swap=swap)  # LEN against `other`
        stop = {k for k, tg in cases.items() if is_stop(cs["bb"], tg)}
        if not stop or stop == {"lt", "eq", "gt"}:
            continue
        a = affine(other)
        syms = [k for k in (a or {}) if k != ()]
        # `offset` may be the running index itself or the index already advanced by decoded lengths (test at the bottom of the loop)
        idx_syms = [k for k in syms if str(k).startswith("idx#")]
        len_syms = [k for k in syms if re.match(r"^(u32|u16|u8|byte)\[", str(k))]
        if a is None or len(idx_syms) > 1 or (syms and (len(idx_syms) != 1 or a[idx_syms[0]] != 1 or len(idx_syms) + len(len_syms) != len(syms))):
            ck.undecided(rule, "%s/end-guard@%s" % (label, cs["line"]), "%s ends its iteration on a comparison of the input length with %s, which is not `consumed offset + constant`" % (body.short, show(other)), where=body.where(cs["line"]))
            n += 1
            continue
        c0 = int(a.get((), 0))
        # the loop may stop with a remainder when that remainder is REJECTED right after it: every normal return behind the stop edge is dominated by
        # the true edge of an `is_empty()` of the remaining input (`assert!(rest.is_empty())`, `if !rest.is_empty() { return Err }`).  Then
        # `remaining < c` is fine for the record size c the loop demands - but `remaining <= c` leaves a complete record of exactly c bytes unread
        # (and the emptiness test rejects a valid input)
        rejected_after = False
        stop_tgs = [tg for k, tg in cases.items() if k in stop and tg is not None]
        from engines import positive_edges as _pe_l
        for ebi, et in body.calls():
            if et.callee.method == "is_empty" and et.args:
                pe_ = _pe_l(body, R.pv, ebi)
                for tg in stop_tgs:
                    reach_ = body.reachable_from(tg)
                    exits_ = [e_ for e_ in body.exits if e_ in reach_ and not fails_from(body, e_)]
                    if ebi in reach_ and exits_ and all(any(body.edge_dominates(e2, x_) for e2 in pe_) for x_ in exits_):
                        rejected_after = True
        if rejected_after and c0 > 0 and stop in ({"lt"}, {"lt", "eq"}):
            ok = stop == {"lt"}
            n += 1
            ck.ob(rule, "%s/end-guard@%s" % (label, "len" if not syms else "offset"), ok, "%s stops reading records when remaining %s %d and rejects whatever is left then%s" % (body.short, "<" if ok else "<=", c0, "" if ok else ": a last record of exactly %d bytes (a header without payload) is complete, yet it is left unread and the input rejected" % c0), where=body.where(cs["line"]))
            continue
        # stop iff remaining (= LEN - offset) OP c0
        if stop == {"lt"}:
            ok, cond = c0 == 1, "remaining < %d" % c0
        elif stop == {"lt", "eq"}:
            ok, cond = c0 == 0, "remaining <= %d" % c0
        elif stop == {"eq"}:
            ok, cond = c0 == 0, "remaining == %d" % c0
        else:
            ok, cond = False, "remaining %s %d" % ("/".join(sorted(stop)), c0)
        n += 1
        ck.ob(rule, "%s/end-guard@%s" % (label, "len" if not syms else "offset"), ok, "%s stops reading records when %s%s" % (body.short, cond, " (nothing is left)" if ok else ": a trailing record shorter than that is dropped without an error"), where=body.where(cs["line"]))
        # the test stands BEFORE the first read of every iteration (an empty section is valid: with the test at the bottom of the loop
        # the first record is read from nothing)
        inner = [bl for h, bl in loops.items() if cs["bb"] in bl]
        if inner and ok:
            lp = min(inner, key=len)
            cont = [tg for k, tg in cases.items() if k not in stop and tg is not None and tg in lp]
            reads = sorted({pos[0] for pos, acc in R.accesses.items() if pos[0] in lp})
            if cont and reads:
                unguarded = [rb_ for rb_ in reads if not any(body.edge_dominates((cs["bb"], tg), rb_) for tg in cont)]
                ck.ob(rule, "%s/end-guard-first" % label, not unguarded, "%s %s" % (body.short, "tests for the end of the section before every read of a record" if not unguarded else
                      "reads a record (line %s) before the end-of-section test has run: an empty section (no record at all) is read out of bounds" % body.blocks[unguarded[0]].term.line), where=body.where(body.blocks[unguarded[0]].term.line if unguarded else cs["line"]))
    # emptiness tests through is_empty()
    for bi, t in body.calls():
        if t.callee.method == "is_empty" and t.args and params_of(R.pv.of_operand(body, t.args[0]), body.id) == {input_param}:
            n += 1
            ck.ob(rule, "%s/end-guard@is_empty" % label, True, "%s tests the remaining input with is_empty()" % body.short, where=body.where(t.line))
    return n


def check_byte_assembly(ck, rule, prog, body, label):
    """every `from_be_bytes([..])` / `from_le_bytes([..])` whose array is put together from single bytes of the decoder's input takes CONSECUTIVE bytes
    in ascending order (element i is the byte at base + i): a byte used twice, or one left out, decodes another number"""
    R = Reader(prog, body)
    n = 0
    for bi, t in body.calls():
        if t.callee.method not in ("from_be_bytes", "from_le_bytes") or len(t.args) != 1 or t.args[0].place is None:
            continue
        for kind2, pos, d in R.pv.defs(body).get(t.args[0].place.local, []):
            if kind2 == "assign" and d.rv["k"] == "agg" and d.rv.get("agg") == "array" and len(d.rv["ops"]) > 1:
                offs = [affine(R._index_expr(o, pos)) for o in d.rv["ops"]]
                if any(o is None for o in offs):
                    continue
                n += 1
                nz = lambda x: {k: v for k, v in x.items() if v != 0}
                ok = all(nz(offs[i]) == nz(R._shift(offs[0], i)) for i in range(len(offs)))
                ck.ob(rule, "%s/byte-assembly/%d" % (label, n), ok, "%s assembles a %d-byte number from the bytes at %s%s" % (body.short, len(offs), ", ".join(R.fmt(o) for o in offs), "" if ok else ": NOT consecutive ascending offsets (a byte is used twice or skipped)"), where=body.where(t.line))
    return n


def check_length_validation_direction(ck, rule, prog, body, label, input_param=1):
    """an ordering test between the LENGTH of the decoder's input and a needed size that guards an error exit fails when the input is too SHORT
    (`len < need`): a test that fails for `len > need` instead lets the short input through to the indexing behind it"""
    from engines import compare_switches, relation_cases
    pv = Prov(prog, inline=False)
    n = 0
    for c in compare_switches(body, pv):
        if c["op"] not in ("Lt", "Le", "Gt", "Ge"):
            continue
        def is_len(op):
            at = pv.of_operand(body, op)
            return any(a[0] == "call" and re.search(r"::len$", a[1]) and a[3] == body.id for a in at) and params_of(at, body.id) == {input_param} and not any(a[0] == "op" for a in at)
        ll, lr = is_len(c["l"]), is_len(c["r"])
        if ll == lr:
            continue
        cases = relation_cases(c, swap=lr)  # len against need
        fail = {k for k, tg in cases.items() if tg is not None and fails_from(body, tg)}
        if not fail or fail == {"lt", "eq", "gt"}:
            continue
        n += 1
        ok = "lt" in fail and "gt" not in fail
        ck.ob(rule, "%s/length-test/%d" % (label, n), ok, "%s fails when the input length is %s the size it needs%s" % (body.short, "/".join(sorted(fail)), "" if ok else
              ": the test points the wrong way - an input that is too SHORT passes and is indexed beyond its end, a longer one is refused"), where=body.where(c["line"]))
    return n
