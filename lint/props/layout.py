"""LAYOUT: byte offsets of the binary record codecs as affine expressions (DESIGN 3.17, built late).

Reader side: every access to the input bytes of a record decoder - `bytes[i]`, `bytes[a..b]`, `bytes[a..]` - with its index
expression extracted from the MIR and normalised to an affine form  c0 + c1*NAME_LEN (+ ...), where NAME_LEN is the decoded
length field itself (`bytes[8] as usize` / `u32_from_bytes(&bytes[8..])`).
Writer side: the sequence of `push` / `append` / `extend` calls on the output vector, each with a width expression.
"""
import re
from fractions import Fraction

from engines import error_blocks
from expr import Extract, S, C, F, affine, show, add as e_add, mul as e_mul
from prov import Prov, params_of


def is_bytes_index(t):
    c = t.callee
    return c.trait == "std::ops::Index" and c.method == "index" and re.search(r"Bytes<|\[u8\]|Vec<u8>", (c.name or "") + (c.def_args or ""))


def index_kind(t):
    nm = (t.callee.name or "") + (t.callee.def_args or "")
    if re.search(r"Index<std::ops::RangeFrom<usize>>", nm):
        return "from"
    if re.search(r"Index<std::ops::Range<usize>>", nm):
        return "range"
    if re.search(r"Index<usize>", nm):
        return "one"
    return None


class Reader:
    """byte accesses of one decoder body.  Accesses inside loops are flagged (their offsets are running indices)."""

    def __init__(self, prog, body, input_param=1):
        self.prog = prog
        self.body = body
        self.pv = Prov(prog, inline=False, mutflow=False)
        self.input_param = input_param
        self.ex = Extract(prog, self.pv, self._leaf)
        self.sym_bytes = {}  # symbol name -> list of affine byte offsets it stands for
        self.accesses = {}  # key (bb, idx) -> dict(kind, lo, hi (affine dicts | 'end' | None), line, loop)
        self.by_call_bb = {}
        self.in_loop = set()
        for h, bl in body.natural_loops().items():
            self.in_loop |= bl
        sites = []
        for bi, t in body.calls():
            if is_bytes_index(t) and index_kind(t) and params_of(self.pv.of_operand(body, t.args[0]), body.id) == {input_param}:
                sites.append(((bi, len(body.blocks[bi].stmts)), "call", t))
        for pos, st in body.stmts():
            if st.k != "assign":
                continue
            pl = None
            if st.rv["k"] == "use" and st.rv["op"].place is not None:
                pl = st.rv["op"].place
            elif st.rv["k"] == "ref":
                pl = st.rv["place"]
            if pl is not None and any(e != "*" and e[0] in ("idx", "cidx") for e in pl.fields()) and self._is_input(pl.local):
                sites.append((pos, "place", (st, pl)))
        for pos, kind, obj in sorted(sites, key=lambda x: x[0]):
            acc = {"line": obj.line if kind == "call" else obj[0].line, "bb": pos[0], "loop": pos[0] in self.in_loop, "pos": pos}
            if kind == "place":
                st, pl = obj
                e = [x for x in pl.fields() if x != "*" and x[0] in ("idx", "cidx")][0]
                lo = self.ex.local(body, e[1], 0, pos) if e[0] == "idx" else C(e[1] if isinstance(e[1], int) else e[1].get("offset", 0))
                acc["kind"] = "one"
                acc["lo"] = affine(lo)
                acc["lo_e"] = lo
                acc["hi"] = None if acc["lo"] is None else self._shift(acc["lo"], 1)
                acc["lo_s"] = show(lo)
                acc["dest"] = st.place.local if st.place.is_local() else None
            else:
                t = obj
                k = index_kind(t)
                acc["kind"] = k
                acc["dest"] = t.dest.local if t.dest is not None and t.dest.is_local() else None
                if k == "one":
                    lo = self.ex.operand(body, t.args[1], 0, pos)
                    acc["lo"] = affine(lo)
                    acc["lo_e"] = lo
                    acc["hi"] = None if acc["lo"] is None else self._shift(acc["lo"], 1)
                    acc["lo_s"] = show(lo)
                else:
                    rng = self._range_ops(t.args[1])
                    if rng is None:
                        acc["lo"] = acc["hi"] = None
                        acc["lo_s"] = "?"
                    else:
                        lo = self.ex.operand(body, rng[0], 0, rng[2])
                        acc["lo"] = affine(lo)
                        acc["lo_s"] = show(lo)
                        acc["hi"] = affine(self.ex.operand(body, rng[1], 0, rng[2])) if rng[1] is not None else "end"
                self.by_call_bb[pos[0]] = acc
            self.accesses[pos] = acc

    def _is_input(self, local):
        if local == self.input_param:
            return True
        return params_of(self.pv.of_local(self.body, local), self.body.id) == {self.input_param} and not any(a[0] == "call" for a in self.pv.of_local(self.body, local))

    @staticmethod
    def _shift(a, k):
        out = dict(a)
        out[()] = out.get((), 0) + k
        return out

    def _range_ops(self, op):
        """operands (start, end|None, position) of the Range / RangeFrom aggregate feeding an index call"""
        if op.place is None:
            return None
        for kind, pos, d in self.pv.defs(self.body).get(op.place.local, []):
            if kind == "assign" and d.rv["k"] == "agg" and re.search(r"::Range(From)?$", d.rv.get("adt", "")):
                ops = d.rv["ops"]
                return (ops[0], ops[1] if len(ops) > 1 else None, pos)
        return None

    def _sym(self, kind, lo, width):
        name = "%s[%s]" % (kind, self.fmt(lo))
        self.sym_bytes[name] = [self._shift(lo, i) for i in range(width)]
        return S(name)

    @staticmethod
    def key(a):
        return tuple(sorted(a.items(), key=str))

    def _consecutive(self, ops, pos):
        offs = [affine(self._index_expr(o, pos)) for o in ops]
        if any(o is None for o in offs):
            return False
        return all(offs[i] == self._shift(offs[0], i) for i in range(len(offs)))

    def _index_expr(self, op, pos):
        """index expression of the byte access that defines operand `op` (a copy of bytes[i])"""
        if op.place is None:
            return ("u", "const")
        for key, acc in self.accesses.items():
            if acc.get("dest") is not None and acc["kind"] == "one":
                # the operand is (a copy / deref of) the access result
                src = op.place.local
                seen = set()
                while src is not None and src not in seen:
                    seen.add(src)
                    if src == acc["dest"]:
                        return acc["lo_e"]
                    ds = self.pv.defs(self.body).get(src, [])
                    nxt = None
                    if len(ds) == 1 and ds[0][0] == "assign" and ds[0][2].rv["k"] in ("use",) and ds[0][2].rv["op"].place is not None:
                        nxt = ds[0][2].rv["op"].place.local
                    src = nxt
        return ("u", "not a byte access")

    def _const_off(self, a):
        return a is not None and a != "end" and set(a) <= {()}

    def _leaf(self, ex, body, kind, obj):
        if body is not self.body:
            return None
        if kind == "place":
            pl = obj
            idx = [x for x in pl.fields() if x != "*" and x[0] in ("idx", "cidx")]
            if len(idx) == 1 and self._is_input(pl.local) and idx[0][0] == "idx":
                a = affine(ex.local(body, idx[0][1], 0, getattr(ex, "_at", None)))
                if a is not None:
                    return self._sym("byte", a, 1)
            return None
        if kind == "call":
            t = obj
            if is_bytes_index(t) and index_kind(t) == "one":
                a = affine(ex.operand(body, t.args[1], 0, getattr(ex, "_at", None)))
                if a is not None:
                    return self._sym("byte", a, 1)
                return None
            r = t.callee.res or t.callee.name or ""
            if r.endswith("u32_from_bytes") and len(t.args) == 1:
                for a in self.pv.of_operand(body, t.args[0]):
                    if a[0] == "call" and a[3] == body.id and a[4] in self.by_call_bb:
                        acc = self.by_call_bb[a[4]]
                        if acc["lo"] is not None:
                            return self._sym("u32", acc["lo"], 4)
                return None
            if t.callee.method == "from_be_bytes" and len(t.args) == 1 and t.args[0].place is not None:
                for kind2, pos, d in self.pv.defs(body).get(t.args[0].place.local, []):
                    if kind2 == "assign" and d.rv["k"] == "agg" and d.rv.get("agg") == "array":
                        es = [ex.operand(body, o, 0, pos) for o in d.rv["ops"]]
                        if all(e[0] == "s" and e[1].startswith("byte[") for e in es):
                            offs0 = self.sym_bytes[es[0][1]][0]
                            return self._sym("u%d" % (8 * len(es)), offs0, len(es)) if self._consecutive(d.rv["ops"], pos) else None
                return None
            if t.callee.method == "len" and len(t.args) == 1 and params_of(self.pv.of_operand(body, t.args[0]), body.id) == {self.input_param}:
                return S("LEN")
        return None

    def fmt(self, a):
        if a is None:
            return "?"
        if a == "end":
            return "end"
        parts = []
        for k in sorted(a, key=str):
            c = a[k]
            if k == ():
                parts.append(str(c))
            else:
                parts.append(("%s*%s" % (c, k)) if c != 1 else str(k))
        return " + ".join(parts) if parts else "0"

    def value_accesses(self, atoms):
        """accesses whose result feeds a value (by its provenance atoms: index calls; slice reads are matched by their destination local)"""
        out = set()
        for a in atoms:
            if a[0] == "call" and a[3] == self.body.id and a[4] in self.by_call_bb:
                out.add(self.by_call_bb[a[4]]["pos"])
        return out

    def guard_edges(self, bb):
        """non-validation branch edges that dominate block bb: (switch_bb, target) where another successor can still return normally"""
        b = self.body
        errs = error_blocks(b)
        out = []
        for sb in sorted(b.reach):
            x = b.blocks[sb].term
            if x.k != "switch":
                continue
            for tg in set(b.succ[sb]):
                if not b.edge_dominates((sb, tg), bb):
                    continue
                others = [y for y in b.succ[sb] if y != tg]
                normal = False
                for y in others:
                    if y in errs or b.blocks[y].term.k == "unreachable":
                        continue
                    reach = b.reachable_from(y, avoid_blocks=errs)
                    if any(e in reach for e in b.exits):
                        normal = True
                if normal:
                    out.append((sb, tg))
        return out

    def bytes_of_operand(self, op, at=None):
        """byte offsets (canonical affine keys -> printable) of the input bytes the VALUE of an operand is computed from: through
        the expression where it is arithmetic, through the provenance engine where it passes constructors / conversions.
        Bytes that only determine an OFFSET (decoded length fields inside an index expression) are not part of the value."""
        from expr import symbols
        e = self.ex.operand(self.body, op, 0, at)
        out = {}
        for x in symbols(e):
            for a in self.sym_bytes.get(x, []):
                out[self.key(a)] = "byte[%s]" % self.fmt(a)
        pvi = Prov(self.prog, inline=False)
        for pos in self.value_accesses(pvi.of_operand(self.body, op)):
            acc = self.accesses[pos]
            if acc["lo"] is not None and acc["kind"] == "one":
                out[self.key(acc["lo"])] = "byte[%s]" % self.fmt(acc["lo"])
        # drop the length fields: constant-offset bytes that occur inside the offset of another byte of the set
        inner = set()
        for k in out:
            for sym, c in k:
                if sym != () and sym in self.sym_bytes:
                    for a in self.sym_bytes[sym]:
                        inner.add(self.key(a))
        if any(k not in inner for k in out):
            out = {k: v for k, v in out.items() if k not in inner}
        return out, e


def field_stores(prog, body, owner_rx):
    """stores through `<field>_mut()` accessors of the record: list of (field, store_bb, stmt)"""
    pv = Prov(prog)
    out = []
    acc = {}
    for bi, t in body.calls():
        tg = prog.bodies.get(t.callee.res) if t.callee.res else None
        if tg is not None and tg.name and tg.name.endswith("_mut") and re.search(owner_rx, (tg.impl_self or {}).get("s", "")) and t.dest is not None and t.dest.is_local():
            fields = {a[2] for a in pv.of_return(tg) if a[0] == "field" and re.search(owner_rx, a[1])}
            if len(fields) == 1:
                acc[t.dest.local] = next(iter(fields))
    for (bi, si), s in body.stmts():
        if s.k == "assign" and "*" in s.place.fields() and s.place.local in acc:
            out.append((acc[s.place.local], bi, s))
    return out


def check_field_independence(ck, rule, prog, body, owner_rx, label):
    """every optional store of a decoded field is guarded only by tests on that field's OWN bytes (or by validation guards):
    a field whose decoding depends on another field's value is silently dropped for some encodings the writer produces"""
    R = Reader(prog, body)
    stores = field_stores(prog, body, owner_rx)
    if not stores:
        ck.undecided(rule, "%s/field-guards" % label, "no store through a *_mut accessor recognised in %s" % body.short, where=body.where())
        return 0
    n = 0
    for fld, bb, st in stores:
        own, _ = R.bytes_of_operand(st.ops[0], (bb, 0)) if st.ops else ({}, None)
        guards = R.guard_edges(bb)
        gsyms = {}
        per_guard = []
        for sb, tg in guards:
            x = body.blocks[sb].term
            syms, e = R.bytes_of_operand(x.discr, (sb, len(body.blocks[sb].stmts)))
            gsyms.update(syms)
            per_guard.append(syms)
        if not own:
            # a constant is stored (a flag): the tested byte IS the field - one byte position only
            ok = len(gsyms) <= 1
            ck.ob(rule, "%s/field-guards/%s" % (label, fld), ok, "%s: `%s` is set under a test of %s" % (body.short, fld, sorted(gsyms.values()) or "no input byte"), where=body.where(st.line))
        else:
            foreign = sorted(v for k, v in gsyms.items() if k not in own)
            ck.ob(rule, "%s/field-guards/%s" % (label, fld), not foreign,
                  "%s: `%s` is decoded from %s%s" % (body.short, fld, sorted(own.values()), "" if not foreign else " but ONLY when a test on %s (another field) succeeds: the writer emits the field unconditionally, so a record with this field set and the other clear loses it" % foreign),
                  where=body.where(st.line))
        n += 1
    return n
