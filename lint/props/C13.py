"""C13 - HpoSet filters, replacements and aggregates (clauses: SIBLING pairs, FIELD+SELECT filters, KIND aggregates)"""
import re
from engines import bool_polarity, kernel, kind_elements, adaptor_chain, TRUNCATING_ADAPTORS
from engines import check_complete_iteration
from prov import Prov, params_of, field_names

CLAIM = ("(SIBLING) each in-place operation and its copying sibling (remove_modifier/without_modifier, remove_obsolete/without_obsolete, "
         "replace_obsolete/with_replaced_obsolete) delegate to one another or have equal kernels (same crate callees, adaptors, negation parity, constants); "
         "(FIELD+SELECT) child_nodes tests membership of the candidate in the CLOSURE set (all_parents) of the other member with negative polarity under `all`; "
         "modifier filters keep iff !is_modifier, obsolete filters keep iff !obsolete, the replacement maps to `replacement` else the member itself; "
         "(KIND) gene_ids / omim_disease_ids / orpha_disease_ids fold only their own annotation kind.")
NOT_DECIDED = "exactness of each filter over all subsets of every ontology and the category counts (values computed by loops over runtime sets)."

S = "set::HpoSet::<'a>::"
PAIRS = [("remove_modifier", "without_modifier"), ("remove_obsolete", "without_obsolete"), ("replace_obsolete", "with_replaced_obsolete")]


def run(ck, prog, ctx):
    ck.rule("SIBLING", "two implementations of one operation delegate or have equal kernels (DESIGN 3.15)")
    # the annotations of a SET are the union of its members' annotations: the accumulating operator of gene_ids / omim_disease_ids / orpha_disease_ids is `|`
    for nm13 in ("gene_ids", "omim_disease_ids", "orpha_disease_ids"):
        ab13 = prog.body(S + nm13)
        if ab13 is None:
            continue
        ops13 = sorted({("or" if "BitOr" in (t_.callee.trait or "") else "and") for fb_ in prog.family(ab13) for _, t_ in fb_.calls() if (t_.callee.trait or "") in ("std::ops::BitOr", "std::ops::BitAnd")})
        if ops13:
            ck.ob("SELECT", "%s/accumulates-with-union" % nm13, ops13 == ["or"], "HpoSet::%s accumulates its members' annotations with %s" % (nm13, "`|` (union)" if ops13 == ["or"] else "`&`: the result is the INTERSECTION (empty for most sets), not the union"), where=ab13.where())
    # no truncating adaptor (skip / take / step_by ..) in the iterator pipelines of these functions: every element takes part
    from engines import check_complete_iteration as _cci_all
    _cci_all(ck, "SELECT", prog, [b_ for b_ in sorted(prog.production(), key=lambda z: z.id) if re.search(r"^src/set\.rs$", b_.file or "") and b_.kind in ("Fn", "AssocFn") and not b_.test
                               and any(t_.callee.trait == "std::iter::Iterator" for fb_ in prog.family(b_) for _, t_ in fb_.calls())], "the members it iterates")
    ck.rule("ERR", "every call of a crate function returning Result<_, HpoError> in src/set.rs propagates the error, panics on it, or is a listed documented exception; none replaces it by a default")
    from engines import check_error_discipline
    check_error_discipline(ck, "ERR", prog, r"^src/set\.rs$", allowed=[], floor=0)
    ck.rule("SELECT", "polarity of a filter predicate (DESIGN 3.10)")
    ck.rule("FIELD", "which field is consulted (DESIGN 3.9)")
    ck.rule("KIND", "single-kind bodies (DESIGN 3.3 K1)")
    ck.rule("ROLE", "the source a union / count iterates (DESIGN 3.4)")
    pv = Prov(prog)
    pvn = Prov(prog, inline=False, bind_closures=False)
    npairs = 0
    for a, b in PAIRS:
        ba, bb = prog.body(S + a), prog.body(S + b)
        if not (ck.anchor("SIBLING", "HpoSet::" + a, ba) and ck.anchor("SIBLING", "HpoSet::" + b, bb)):
            continue
        npairs += 1
        cg = prog.callgraph
        if bb.id in cg.get(ba.id, ()) or ba.id in cg.get(bb.id, ()):
            ck.ob("SIBLING", "%s~%s" % (a, b), True, "%s and %s delegate to one another" % (a, b), where=ba.where())
            continue
        ka, kb = kernel(prog, ba), kernel(prog, bb)
        diffs = []
        for f in ("callees", "adaptors", "not_parity", "consts"):
            if ka[f] != kb[f]:
                if f == "callees":
                    d = sorted(x.rsplit("::", 1)[-1] for x in (ka[f] ^ kb[f]))
                    diffs.append("crate callees differ: %s" % d)
                else:
                    diffs.append("%s differ: %s vs %s" % (f, ka[f] if not isinstance(ka[f], frozenset) else sorted(ka[f]), kb[f] if not isinstance(kb[f], frozenset) else sorted(kb[f])))
        ck.ob("SIBLING", "%s~%s" % (a, b), not diffs, "%s and %s %s" % (a, b, "have equal kernels" if not diffs else "disagree: " + "; ".join(diffs)), where=ba.where())
    ck.floor("SIBLING", "in-place/copying pairs", npairs, 2)

    # ---------------------------------------------------------------- polarity of the filters
    def filter_closures(b):
        """closures passed to Iterator::filter / map in body b (direct children)"""
        out = []
        for bi, t in b.calls():
            if t.callee.trait == "std::iter::Iterator" and t.callee.method in ("filter", "map", "filter_map") and len(t.args) > 1:
                cid = pv.closure_of_operand(b, t.args[1])
                if cid in prog.bodies:
                    out.append((t.callee.method, prog.bodies[cid], t))
        return out

    for name, prx, what in (("remove_modifier", r"HpoTerm::<'.*>::is_modifier$", "is_modifier"), ("without_modifier", r"HpoTerm::<'.*>::is_modifier$", "is_modifier"),
                            ("remove_obsolete", r"HpoTermInternal::obsolete$|HpoTerm::<'.*>::is_obsolete$", "obsolete"), ("without_obsolete", r"HpoTermInternal::obsolete$|HpoTerm::<'.*>::is_obsolete$", "obsolete")):
        b = prog.body(S + name)
        if b is None:
            continue
        if any(x.id in prog.callgraph.get(b.id, ()) for x in [prog.body(S + o) for pr in PAIRS for o in pr if o != name and name in pr] if x is not None):
            ck.ob("SELECT", name + "/polarity", True, "%s delegates to its sibling" % name, where=b.where())
            continue
        fcs = [(m, cb, t) for m, cb, t in filter_closures(b) if m == "filter"]
        if not fcs:
            ck.undecided("SELECT", name + "/polarity", "no Iterator::filter with a closure in %s (loop form?)" % name, where=b.where())
            continue
        for m, cb, t in fcs:
            pol, ct = bool_polarity(cb, pvn, lambda c: bool(re.search(prx, c.name)))
            if pol is None:
                # the predicate may ask a private helper (`!self.is_outdated(id)`): the term-state accessors that helper consults are the basis of
                # the decision.  "Keep iff not obsolete" reads the obsolete flag and nothing else of the term; a helper that also looks at the
                # replacement (or any other state of the term) removes members that are not obsolete.
                extra_ = None
                if what == "obsolete":
                    from engines import private_scope as _ps13
                    for hb_ in [y for y in _ps13(prog, cb) if y.kind in ("Fn", "AssocFn") and not (y.exported or y.reachable) and y.locals[0]["s"] == "bool"]:
                        accs_ = set()
                        for fb_ in prog.family(hb_):
                            for _, t_ in fb_.calls():
                                r_ = t_.callee.res or ""
                                if re.search(r"^term::internal::HpoTermInternal::\w+$|^term::hpoterm::HpoTerm::<'.*>::\w+$", r_) and len(t_.args) == 1:
                                    accs_.add(r_.rsplit("::", 1)[-1])
                        if accs_ & {"obsolete", "is_obsolete"} and accs_ - {"obsolete", "is_obsolete", "id"}:
                            extra_ = (hb_, sorted(accs_ - {"obsolete", "is_obsolete", "id"}))
                if extra_ is not None:
                    ck.ob("SELECT", name + "/polarity", False, "%s decides through %s, which consults `%s` of the term besides its obsolete flag: members that are not flagged obsolete are removed as well" % (name, extra_[0].short, "`, `".join(extra_[1])), where=extra_[0].where())
                    continue
                ck.undecided("SELECT", name + "/polarity", "filter predicate of %s is not a plain (negated) call of %s" % (name, what), where=cb.where())
            else:
                ck.ob("SELECT", name + "/polarity", pol == -1, "%s keeps a member iff %s%s" % (name, "!" if pol == -1 else "", what), where=cb.where())
    for name in ("replace_obsolete", "with_replaced_obsolete"):
        b = prog.body(S + name)
        if b is None:
            continue
        if any(x.id in prog.callgraph.get(b.id, ()) for x in [prog.body(S + o) for pr in PAIRS for o in pr if o != name and name in pr] if x is not None):
            ck.ob("SELECT", name + "/mapping", True, "%s delegates to its sibling" % name, where=b.where())
            continue
        mcs = [(m, cb, t) for m, cb, t in filter_closures(b) if m == "map"]
        if not mcs:
            ck.undecided("SELECT", name + "/mapping", "no Iterator::map with a closure in %s" % name, where=b.where())
        for m, cb, t in mcs:
            uw = [(bi, x) for bi, x in cb.calls() if x.callee.method in ("unwrap_or", "unwrap_or_else", "map_or")]
            if len(uw) != 1:
                ck.undecided("SELECT", name + "/mapping", "mapping closure is not `replacement().unwrap_or(member)`", where=cb.where())
                continue
            bi, x = uw[0]
            recv = pvn.of_operand(cb, x.args[0])
            dflt = pvn.of_operand(cb, x.args[1])
            ok = any(a[0] == "call" and a[1].endswith("::replacement") for a in recv) and 2 in params_of(dflt, cb.id) and not any(a[0] == "call" and a[1].endswith("::replacement") for a in dflt)
            ck.ob("SELECT", name + "/mapping", ok, "%s maps a member to %s" % (name, "its replacement, else to itself" if ok else "something else than `replacement().unwrap_or(member)`"), where=cb.where(x.line))

    # ---------------------------------------------------------------- child_nodes
    cn = prog.body(S + "child_nodes")
    if ck.anchor("FIELD", "HpoSet::child_nodes", cn):
        fam = prog.family(cn)
        cons = [(fb, bi, t) for fb in fam for bi, t in fb.calls() if t.callee.res == "term::group::HpoGroup::contains"]
        if len(cons) != 1:
            ck.undecided("FIELD", "child_nodes/test", "membership test not recognised (%d contains calls)" % len(cons), where=cn.where())
        else:
            fb, bi, t = cons[0]
            recv = pv.of_operand(fb, t.args[0])
            fl = field_names(recv, "HpoTermInternal") | field_names(recv, "HpoTerm")
            ok = "all_parents" in fl and "parents" not in fl and "children" not in fl
            ck.ob("FIELD", "child_nodes/field", ok, "child_nodes tests membership in %s (expected the closure set all_parents)" % sorted(fl & {"all_parents", "parents", "children"}), where=fb.where(t.line))
            # receiver belongs to the inner (other) member, key is the candidate of the outer filter
            pol, _ = bool_polarity(fb, pvn, lambda c: c.res == "term::group::HpoGroup::contains")
            pol_line = t.line
            # quantifier: the predicate closure is consumed by `all` (or by !any)
            quant = None
            for ob in fam:
                for obi, ot in ob.calls():
                    if ot.callee.trait == "std::iter::Iterator" and ot.callee.method in ("all", "any") and len(ot.args) > 1 and pv.closure_of_operand(ob, ot.args[1]) == fb.id:
                        quant = (ob, ot)
            if quant is None:
                ck.undecided("SELECT", "child_nodes/quantifier", "quantifier over the other members not recognised", where=cn.where())
            else:
                ob, ot = quant
                # survive  <=>  for EVERY other member: NOT an ancestor.   all(|m| !anc)  and  !any(|m| anc)  are the same test
                outer, _o = bool_polarity(ob, pvn, lambda c: c.method in ("all", "any") and c.trait == "std::iter::Iterator")
                q = ot.callee.method
                if pol is None or outer is None:
                    ck.undecided("SELECT", "child_nodes/polarity", "polarity of the membership test / of the quantified result not recognised", where=fb.where(pol_line))
                else:
                    good = (q == "all" and pol == -1 and outer == 1) or (q == "any" and pol == 1 and outer == -1)
                    ck.ob("SELECT", "child_nodes/polarity", good, "a candidate survives iff %s%s(|member| %scandidate is an ancestor of member)%s" % ("!" if outer == -1 else "", q, "!" if pol == -1 else "", "" if good else " - expected `for every member: not an ancestor`"), where=fb.where(pol_line))
                ck.ob("SELECT", "child_nodes/quantifier", q in ("all", "any"), "the test is quantified with Iterator::%s over the members" % q, where=ob.where(ot.line))
                chain = adaptor_chain(ob, pvn, ot.args[0])
                cut = [m for m in chain if m in TRUNCATING_ADAPTORS]
                src = field_names(pv.of_operand(ob, ot.args[0]), "HpoSet")
                ck.ob("SELECT", "child_nodes/over-all-members", not cut and "group" in src, "the quantifier ranges over %s" % ("every member of the set" if not cut and "group" in src else "a TRUNCATED part of the members (%s): some ancestor/descendant pairs are never compared" % ", ".join(cut or ["not self.group"])), where=ob.where(ot.line))
                # key = outer candidate (upvar), receiver term looked up by the inner item (closure param)
                key_at = pvn.of_operand(fb, t.args[1])
                recv_at = pvn.of_operand(fb, t.args[0])
                key_is_upvar = any(a[0] == "param" and a[2] == 1 for a in key_at) or any(a[0] == "upvar" for a in key_at) or not params_of(key_at, fb.id) - {1}
                recv_from_item = 2 in params_of(recv_at, fb.id)
                ck.ob("FIELD", "child_nodes/roles", bool(key_is_upvar and recv_from_item and 2 not in params_of(key_at, fb.id)), "the closure set belongs to the OTHER member (inner item) and the searched id is the candidate", where=fb.where(t.line))

    check_complete_iteration(ck, "SELECT", prog, [S + n for pr in PAIRS for n in pr] + [S + "gene_ids", S + "omim_disease_ids", S + "orpha_disease_ids", S + "categories", S + "information_content"], "the members of the set")

    # ---------------------------------------------------------------- aggregated IC: a fast path for "nothing annotated" needs EVERY kind's union empty
    # (`if genes.is_empty() || diseases.is_empty() { return default }` leaves the non-empty kind at 0 as well)
    icb = prog.body(S + "information_content")
    if icb is not None:
        from engines import positive_edges as _pe13
        UN = {"gene_ids": "Gene", "omim_disease_ids": "Omim", "orpha_disease_ids": "Orpha"}
        tests_ = []
        for bi, t in icb.calls():
            if t.callee.method == "is_empty" and len(t.args) == 1:
                ks = {UN[a[1].rsplit("::", 1)[-1]] for a in pvn.of_operand(icb, t.args[0]) if a[0] == "call" and a[1].rsplit("::", 1)[-1] in UN}
                if len(ks) == 1:
                    tests_.append((bi, next(iter(ks)), set(_pe13(icb, pvn, bi))))
        kinds_used = {UN[t.callee.res.rsplit("::", 1)[-1]] for _, t in icb.calls() if (t.callee.res or "").rsplit("::", 1)[-1] in UN and (t.callee.res or "").startswith(S)}
        setters_ = {bi for bi, t in icb.calls() if re.search(r"InformationContent::set_\w+$", t.callee.res or "")}
        for h, bl in icb.natural_loops().items():
            if bl & setters_:
                setters_ |= {h}
        if tests_ and setters_ and len(kinds_used) >= 2:
            # enumerate the ways from the entry to a normal return that pass no setter; each must have taken the EMPTY edge of every kind's test
            from engines import error_blocks as _eb13
            errs = _eb13(icb)
            bad_path = None
            stack = [(0, frozenset(), (0,))]
            n_paths = 0
            while stack and n_paths < 4000:
                x, took, path = stack.pop()
                if x in setters_ or x in errs:
                    continue
                if x in icb.exits:
                    n_paths += 1
                    missing = kinds_used - set(took)
                    if missing and any(k for _b, k, _e in tests_):
                        bad_path = sorted(missing)
                        break
                    continue
                for y in icb.succ[x]:
                    if y in path:
                        continue
                    tk = set(took)
                    for tb, k, pe in tests_:
                        if (x, y) in pe:
                            tk.add(k)
                    stack.append((y, frozenset(tk), path + (y,)))
            ck.ob("KIND", "aggregate-ic/fast-path", bad_path is None, "HpoSet::information_content %s" % ("leaves without computing only when the union of EVERY kind it computes is empty" if bad_path is None else
                  "can return the all-zero default while the %s union was not tested to be empty (an `||` of the emptiness tests?): a set annotated with one kind only gets 0 for that kind too" % "/".join(bad_path)), where=icb.where())

    # ---------------------------------------------------------------- category counts
    cg = prog.body(S + "categories")
    if cg is not None:
        fam = prog.family(cg)
        incs, inits, src = [], [], set()
        for fb in fam:
            for pos, st in fb.stmts():
                if st.k == "assign" and st.rv["k"] == "bin" and st.rv["op"].startswith("Add") and st.rv["r"].kind == "const":
                    incs.append(st.rv["r"].int_value())
            for bi, t in fb.calls():
                if t.callee.method in ("or_insert", "or_insert_with", "insert") and len(t.args) >= 2 and t.args[-1].kind == "const":
                    inits.append(t.args[-1].int_value())
                if (t.callee.res or "").endswith("HpoTerm::<'a>::categories") or (t.callee.res or "").endswith("HpoTerm::<'_>::categories"):
                    src.add("HpoTerm::categories")
        # two idioms count one per occurrence:  entry(k).and_modify(|c| *c += 1).or_insert(1)   (first value 1, then +1)
        #                                     *entry(k).or_insert(0) += 1                      (first value 0 + 1, then +1)
        in_modify = any(t.callee.method == "and_modify" for fb in fam for _, t in fb.calls())
        if not incs or not inits:
            ck.undecided("SELECT", "categories/count", "counting idiom (entry().and_modify(+1).or_insert(1)  /  *entry().or_insert(0) += 1) not recognised", where=cg.where())
        else:
            first = {i + (0 if in_modify else 1) for i in inits} if set(incs) == {1} else set()
            inline_src = not src and any((t.callee.res or "").endswith("Ontology::categories") for fb in fam for _, t in fb.calls())
            if inline_src:
                # the per-member categories are computed in place from the ontology's category list (not through HpoTerm::categories)
                ck.undecided("SELECT", "categories/source", "the categories of a member are computed inline from Ontology::categories, not through HpoTerm::categories: the test applied per category is not compared", where=cg.where())
                src = {"HpoTerm::categories"}
            ck.ob("SELECT", "categories/count", set(incs) == {1} and first == {1} and src == {"HpoTerm::categories"}, "category counts start at %s%s and grow by %s per member category: the first occurrence counts %s (expected 1), every further one +1" % (sorted(set(inits)), "" if in_modify else " + the increment", sorted(set(incs)), sorted(first) or "?"), where=cg.where())

    # ---------------------------------------------------------------- ROLE: the annotation unions run over ALL members of the set
    # (not over a derived subset such as child_nodes(): an ancestor's own annotations would be lost)
    from engines import origins as _origins
    srcs = {}
    for name in ("gene_ids", "omim_disease_ids", "orpha_disease_ids"):
        b = prog.body(S + name)
        if b is None:
            continue
        its = [(bi, t) for bi, t in b.calls() if t.callee.method in ("iter", "into_iter") and t.args]
        if not its:
            ck.undecided("ROLE", "members/" + name, "iteration source not recognised", where=b.where())
            continue
        kinds = set()
        for bi, t in its:
            og = _origins(b, pvn, t.args[0])
            crate_calls = sorted(o[1].rsplit("::", 1)[-1] for o in og if o[0] == "call" and o[1] in prog.bodies)
            if crate_calls:
                kinds.add("the result of %s()" % crate_calls[0])
            elif any(o[0] == "field" and o[2] == "group" and "HpoSet" in o[1] for o in og) and ("param", 1) in og:
                kinds.add("self.group")
            else:
                kinds.add("?")
        srcs[name] = kinds
        if kinds == {"?"}:
            ck.undecided("ROLE", "members/" + name, "iteration source not recognised", where=b.where())
        else:
            ck.ob("ROLE", "members/" + name, kinds == {"self.group"}, "HpoSet::%s unions the annotations of %s" % (name, "every member of the set" if kinds == {"self.group"} else "/".join(sorted(kinds)) + " (expected: of every member, self.group)"), where=b.where(its[0][1].line))
    if len(srcs) == 3:
        ck.ob("SIBLING", "members/agree", len({frozenset(v) for v in srcs.values()}) == 1, "gene_ids / omim_disease_ids / orpha_disease_ids iterate %s" % ("the same source" if len({frozenset(v) for v in srcs.values()}) == 1 else "DIFFERENT sources: %s" % {k: sorted(v) for k, v in srcs.items()}))

    # ---------------------------------------------------------------- KIND K1
    for name, kind in (("gene_ids", "Gene"), ("omim_disease_ids", "Omim"), ("orpha_disease_ids", "Orpha")):
        b = prog.body(S + name)
        if not ck.anchor("KIND", "HpoSet::" + name, b):
            continue
        els = []
        for fb in prog.family(b):
            els += kind_elements(fb)
        foreign = [e for e in els if e[0] != kind]
        own = [e for e in els if e[0] == kind]
        if foreign:
            ck.violation("KIND", "K1/HpoSet::" + name, "HpoSet::%s (kind %s) uses a %s element: %s" % (name, kind, foreign[0][0], foreign[0][1]), where=b.where(foreign[0][2]))
        elif not own:
            ck.undecided("KIND", "K1/HpoSet::" + name, "no kind-labelled element", where=b.where())
        else:
            ck.ob("KIND", "K1/HpoSet::" + name, True, "HpoSet::%s folds %s annotations only (%d labelled elements)" % (name, kind, len(own)), where=b.where())
    # container methods of the wrapper types answer with the same-named method of one inner collection
    ck.rule("WRAPPER", "len / is_empty / contains / get / iter / push ... of a wrapper type delegate to the same-named method of ONE inner collection, un-negated (DESIGN 3.9)")
    from engines import check_wrappers
    check_wrappers(ck, "WRAPPER", prog, r"^src/set\.rs$", floor=3)
    # the gene / OMIM / ORPHA variants of one operation: none does something its siblings do not
    ck.rule("KSIB", "in a group of >= 3 kind variants of one operation, no member alone has an extra selecting / truncating / error-swallowing / text-changing step or calls a crate function no sibling calls")
    from engines import check_kind_siblings
    check_kind_siblings(ck, "KSIB", prog, r"^src/set\.rs$|^src/term/hpoterm\.rs$", floor=1)
    # ---------------------------------------------------------------- Extend / get
    ext = prog.body("<set::HpoSet<'_> as std::iter::Extend<term::hpoterm::HpoTerm<'b>>>::extend")
    if ext is not None:
        from engines import for_loops as _fl, check_every_element as _cee
        lps = _fl(ext)
        ins = {bi for bi, t in ext.calls() if t.callee.res == "term::group::HpoGroup::insert" or (t.callee.res or "").startswith("term::group::HpoGroup::insert::")}
        raw = [t for _, t in ext.calls() if (t.callee.res or "").endswith("insert_unchecked") or (t.callee.method == "push" and "SmallVec" in (t.callee.def_args or ""))]
        if len(lps) != 1:
            ck.undecided("SELECT", "extend/loop", "HpoSet::extend is not a single loop over its argument", where=ext.where())
        else:
            _cee(ck, "SELECT", "extend", ext, lps[0], ins, "insert the term's id with the checked insert", "the added terms")
        ck.ob("SELECT", "extend/checked", not raw, "HpoSet::extend %s" % ("adds ids through the sorted, duplicate-free insert" if not raw else "appends ids unchecked: the set loses its order / gains duplicates"), where=ext.where())
    gt = prog.body("set::HpoSet::<'a>::get")
    if gt is not None:
        gets = [(bi, t) for bi, t in gt.calls() if t.callee.res == "term::group::HpoGroup::get" and len(t.args) == 2]
        for bi, t in gets:
            at = pvn.of_operand(gt, t.args[1])
            ops = sorted({a[1] for a in at if a[0] == "op"})
            ck.ob("FIELD", "get/index", params_of(at, gt.id) == {2} and not ops, "HpoSet::get(i) reads member %s of the sorted id group" % ("i" if not ops else "i after `%s`" % ", ".join(ops)), where=gt.where(t.line))
