"""C17 - hierarchical clustering (clauses: SELECT on the merge step and the linkage update functions, GUARD on mean)"""
import re
from engines import receiver_calls
from engines import classify_selection, float_div_sites
from prov import Prov, params_of, field_names

CLAIM = ("(SELECT) the merge step (`closest_clusters`) selects the pair with the MINIMUM distance component; the update function handed to the "
         "arithmetic clustering by `Linkage::single` is a min selection, by `Linkage::complete` a max selection, and by `Linkage::average` the "
         "mean (a+b)/2 of its two arguments (GUARD: constant divisor 2); (ROLE) size bookkeeping and Cluster::new arguments; (PAIR) every distance update "
         "of the arithmetic clusterer combines one lookup for key.0 and one for key.1, each pairing the live index with the merged node in the "
         "(smaller, larger) order established by the dominating Ordering arm; both clusterers take both merged sets out of `sets`; (TABLE) the "
         "retain predicate of both clusterers keeps an entry iff neither index is a merged node (exact truth table by path enumeration); (FIELD) "
         "new distances are stored under (live index, new index) with the new index = Vec::len read before the push or len-1 after it.")
NOT_DECIDED = "dendrogram validity as a whole, the initial distance matrix, the union linkage's distance order and the number of distance-callback calls (loop invariants over runtime state)."

LINK = "stats::linkage::Linkage::<'a>::"


def field_names_of(atoms):
    return {a[2] for a in atoms if a[0] == "field"} | {e[1] for a in atoms if a[0] == "param" for e in a[-1] if e[0] == "f"}


def update_fn(prog, pv, body):
    """the fn item / closure passed to arithmetic_cluster by a Linkage constructor"""
    for bi, t in body.calls():
        if t.callee.res and t.callee.res.endswith("::arithmetic_cluster") and len(t.args) >= 2:
            cid = pv.closure_of_operand(body, t.args[1])
            if cid in prog.bodies:
                return prog.bodies[cid], t
    return None, None


def for_loops_any(body):
    """every natural loop of the body as {"blocks", "header", "switch_bb", "none", "line"} (for / while / loop alike)"""
    out = []
    for h, bl in sorted(body.natural_loops().items()):
        out.append({"blocks": bl, "header": h, "switch_bb": None, "none": None, "line": body.blocks[h].term.line})
    return out


def run(ck, prog, ctx):
    ck.rule("SELECT", "direction of a two-way selection from (comparison op, operand returned on the true edge) (DESIGN 3.10)")
    ck.rule("GUARD", "constant non-zero divisor")
    pv = Prov(prog, bind_closures=False, inline=False)
    n = 0
    # ---- merge step
    cc = prog.body(LINK + "closest_clusters")
    found = False
    hosts = [cc] if cc is not None else [b for b in prog.production() if b.id.startswith("stats::linkage::") and b.kind in ("Fn", "AssocFn")]
    for host in hosts:
        for bi, t in host.calls():
            if t.callee.method in ("reduce", "min_by", "max_by", "fold") and t.callee.trait == "std::iter::Iterator":
                cid = None
                for a in t.args[1:]:
                    cid = pv.closure_of_operand(host, a) or cid
                if cid not in prog.bodies:
                    continue
                cb = prog.bodies[cid]
                # only reductions over the distance matrix: receiver derives from the distance_matrix field
                recv = Prov(prog).of_operand(host, t.args[0])
                if not any(a[0] == "field" and a[2] == "distance_matrix" for a in recv):
                    continue
                sel = [s for s in classify_selection(cb, pv) if s["kind"]]
                if not sel and t.callee.method in ("min_by", "max_by"):
                    # comparator closure: |a, b| a.1.total_cmp(b.1) / partial_cmp(..)
                    cmpc = [c for _, c in cb.calls() if c.callee.method in ("total_cmp", "partial_cmp", "cmp") and len(c.args) == 2]
                    if len(cmpc) == 1:
                        pa = params_of(pv.of_operand(cb, cmpc[0].args[0]), cb.id)
                        pb = params_of(pv.of_operand(cb, cmpc[0].args[1]), cb.id)
                        comps = set()
                        for o in cmpc[0].args:
                            for a in pv.of_operand(cb, o):
                                if a[0] == "param":
                                    comps.add(tuple(e[1] for e in a[3] if e[0] == "f")[:1])
                        natural = pa == {2} and pb == {3}
                        rev = pa == {3} and pb == {2}
                        if natural or rev:
                            found = True
                            n += 1
                            is_min = (t.callee.method == "min_by") == natural
                            ck.ob("SELECT", "closest/reduce", is_min, "the merge step picks the pair with the %s distance (%s with %s(%s))" % ("smallest" if is_min else "LARGEST", t.callee.method, cmpc[0].callee.method, "a, b" if natural else "b, a"), where=cb.where(cmpc[0].line))
                            ck.ob("SELECT", "closest/component", comps == {("1",)}, "the comparison is made on %s" % ("the distance component (.1) of the matrix entries" if comps == {("1",)} else "components %s, not the distance (.1)" % sorted(comps)), where=cb.where())
                            continue
                if not sel:
                    ck.undecided("SELECT", "closest/reduce", "selection closure of the merge step not recognised", where=host.where(t.line))
                    continue
                found = True
                n += 1
                ck.ob("SELECT", "closest/reduce", sel[0]["kind"] == "min", "the merge step picks the pair with the %s distance (%s)" % ("smallest" if sel[0]["kind"] == "min" else "LARGEST", sel[0]["detail"]), where=cb.where(sel[0]["line"]))
                # compared component is the distance (.1), not the key (.0)
                comps = set()
                for pos, s in cb.stmts():
                    pass
                from engines import comparisons
                for l, (op, lo, ro, cpos) in comparisons(cb, pv).items():
                    for o in (lo, ro):
                        for a in pv.of_operand(cb, o):
                            if a[0] == "param":
                                comps.add(tuple(e[1] for e in a[3] if e[0] == "f"))
                ok = comps and all(c and c[0] == "1" for c in comps)
                ck.ob("SELECT", "closest/component", bool(ok), "the comparison is made on %s" % ("the distance component (.1) of the matrix entries" if ok else "components %s, not the distance (.1)" % sorted(comps)), where=cb.where())
            elif t.callee.method in ("min_by_key", "max_by_key", "min", "max") and t.callee.trait == "std::iter::Iterator":
                recv = Prov(prog).of_operand(host, t.args[0])
                if any(a[0] == "field" and a[2] == "distance_matrix" for a in recv):
                    found = True
                    n += 1
                    ck.ob("SELECT", "closest/reduce", t.callee.method.startswith("min"), "the merge step reduces with Iterator::%s" % t.callee.method, where=host.where(t.line))
                    # f32 is not Ord: a key function has to map the distance to something ordered.  Its bit pattern is NOT ordered like
                    # the number (negative values sort after all non-negative ones, and in reverse among themselves).
                    if t.callee.method.endswith("_by_key") and len(t.args) > 1:
                        kb = prog.bodies.get(pv.closure_of_operand(host, t.args[1]))
                        if kb is None:
                            ck.undecided("SELECT", "closest/key", "key function of the merge step is not a closure", where=host.where(t.line))
                        else:
                            kcalls = {c.callee.method for _, c in kb.calls()}
                            casts = [st for _, st in kb.stmts() if st.k == "assign" and st.rv["k"] == "cast" and "FloatToInt" in st.rv.get("kind", "")]
                            if "to_bits" in kcalls or "to_ne_bytes" in kcalls or "to_be_bytes" in kcalls or "to_le_bytes" in kcalls:
                                ck.ob("SELECT", "closest/key", False, "the merge step orders the distances by their BIT PATTERN (to_bits): for negative distances (e.g. 1 - similarity with a similarity above 1) that is not the numeric order, the closest pair is not selected", where=kb.where())
                            elif casts:
                                ck.ob("SELECT", "closest/key", False, "the merge step orders the distances after casting them to an integer: distances that differ by less than 1 are ties", where=kb.where())
                            else:
                                ck.undecided("SELECT", "closest/key", "key function of the merge step not recognised (calls %s)" % sorted(kcalls), where=kb.where())
    if not found:
        ck.undecided("SELECT", "closest/reduce", "no reduction over the distance matrix recognised")
    # ---- update functions
    for ctor, want in (("single", "min"), ("complete", "max")):
        b = prog.body(LINK + ctor)
        if not ck.anchor("SELECT", "Linkage::" + ctor, b):
            continue
        fb, t = update_fn(prog, pv, b)
        if fb is None:
            ck.undecided("SELECT", ctor + "/update", "update function passed by Linkage::%s not recognised" % ctor, where=b.where())
            continue
        sel = [s for s in classify_selection(fb, pv) if s["kind"]]
        if not sel:
            ck.undecided("SELECT", ctor + "/update", "update function %s is not a recognisable two-way selection" % fb.short, where=fb.where())
            continue
        n += 1
        kinds = {s["kind"] for s in sel}
        ck.ob("SELECT", ctor + "/update", kinds == {want}, "Linkage::%s updates distances with a %s selection (%s); expected %s" % (ctor, "/".join(sorted(kinds)), fb.short, want), where=fb.where(sel[0]["line"]))
    b = prog.body(LINK + "average")
    if ck.anchor("SELECT", "Linkage::average", b):
        fb, t = update_fn(prog, pv, b)
        if fb is None:
            ck.undecided("SELECT", "average/update", "update function passed by Linkage::average not recognised", where=b.where())
        else:
            divs = [s for s in float_div_sites(fb) if s["kind"] == "div"]
            if len(divs) != 1:
                ck.undecided("SELECT", "average/update", "mean function has %d divisions" % len(divs), where=fb.where())
            else:
                d = divs[0]
                n += 1
                fv = d["den"].float_value() if d["den"].kind == "const" else None
                ck.ob("GUARD", "average/divisor", fv == 2.0, "the mean divides by %s (expected the constant 2)" % (d["den"],), where=fb.where(d["line"]))
                at = pv.of_operand(fb, d["num"])
                ps = params_of(at, fb.id)
                adds = [a for a in at if a[0] == "op" and a[1] in ("Add",)] + [a for a in at if a[0] == "call" and a[1].endswith("::add")]
                others = [a for a in at if a[0] == "op" and a[1] in ("Sub", "Mul", "Div")]
                ok = ps == {1, 2} and adds and not others
                ck.ob("SELECT", "average/update", bool(ok), "the mean's numerator is %s" % ("the sum of both arguments" if ok else "not a plain sum of both arguments (params %s)" % sorted(ps)), where=fb.where(d["line"]))
    ck.floor("SELECT", "selection sites", n, 3, soft=True)

    # ---- CUTOFF: the clustering of the four constructors runs until one cluster is left.  A merge loop that can be left when the closest
    # distance compares against a BOUND is complete only if, for these constructors, the bound makes the comparison unsatisfiable:
    # `dist > bound` with bound = +inf.  The largest finite float is not that bound: a distance function that answers +inf (no similarity
    # at all: -ln 0, 1/0 - 1) ends the clustering early and `indicies()` is no longer a permutation.
    ck.rule("CUTOFF", "an exit of a merge loop in the code behind Linkage::{union, single, complete, average} that is guarded by a float comparison with a bound: the bound these constructors pass is a constant for which the exit condition cannot hold (+inf for `>`)")
    from engines import compare_switches as _cs17, loop_early_exits as _lee17
    pvc17 = Prov(prog, inline=False)
    ctors = [prog.body(LINK + m_) for m_ in ("union", "single", "complete", "average")]
    ctors = [c_ for c_ in ctors if c_ is not None]
    reach17 = prog.reachable_bodies([c_.id for c_ in ctors]) if ctors else set()

    STD_F = {"INFINITY": float("inf"), "NEG_INFINITY": float("-inf"), "MAX": 3.4028234663852886e38, "MIN": -3.4028234663852886e38, "MIN_POSITIVE": 1.17549435e-38, "EPSILON": 1.1920929e-07, "NAN": None}

    def const_float17(op_, depth=0):
        """value of a float constant operand: a literal, a std constant (f32::INFINITY, f32::MAX ..), or a crate constant defined as one of those"""
        v_ = op_.float_value()
        if v_ is not None:
            return v_
        d_ = (op_.const or {}).get("def") or ""
        m_ = re.match(r"^core::f(32|64)::<impl f(32|64)>::(\w+)$", d_)
        if m_:
            return STD_F.get(m_.group(3))
        cb_ = prog.bodies.get(d_)
        if cb_ is not None and cb_.kind == "Const" and depth < 3:
            for _, st_ in cb_.stmts():
                if st_.k == "assign" and st_.place.local == 0 and st_.rv["k"] == "use" and st_.rv["op"].kind == "const":
                    return const_float17(st_.rv["op"], depth + 1)
        return None

    def actuals17(body, pidx, depth=0):
        """constant float values (or None for `not a constant`) that reach parameter `pidx` of `body` from the four constructors"""
        out = []
        if depth > 4:
            return [None]
        for cb_, cbi_, ct_ in prog.callers_of(body.id):
            root_ = prog.bodies[cb_.root] if cb_.kind == "Closure" and cb_.root in prog.bodies else cb_
            if root_.id not in reach17 and root_.id not in [c_.id for c_ in ctors]:
                continue
            if pidx - 1 >= len(ct_.args):
                out.append(None)
                continue
            a_ = ct_.args[pidx - 1]
            if a_.kind == "const":
                out.append(const_float17(a_))
                continue
            at_ = pvc17.of_operand(cb_, a_)
            ps_ = params_of(at_, cb_.id)
            cs_ = [x_ for x_ in at_ if x_[0] == "const"]
            if ps_ and not cs_ and cb_.kind != "Closure":
                for p_ in ps_:
                    out += actuals17(cb_, p_, depth + 1)
            elif cs_ and not ps_ and len(cs_) == 1:
                v_ = cs_[0][2]
                try:
                    out.append(float(str(v_).replace("_f32", "").replace("f32", "").replace("_f64", "").replace("f64", "").replace("+Inf", "inf").replace("Inf", "inf")))
                except ValueError:
                    out.append(None)
            else:
                out.append(None)
        return out
    n_cut = 0
    for rid in sorted(reach17):
        rb = prog.bodies.get(rid)
        if rb is None or rb.kind not in ("Fn", "AssocFn") or not (rb.file or "").endswith("stats/linkage.rs") or not rb.natural_loops():
            continue
        css = _cs17(rb, pvc17)
        for lp in for_loops_any(rb):
            exits = set(_lee17(rb, lp))
            for c_ in css:
                if c_["bb"] not in lp["blocks"]:
                    continue
                for side, tg in (("true", c_["true_tg"]), ("false", c_["false_tg"])):
                    if tg is None:
                        continue
                    leaves = (c_["bb"], tg) in exits or (tg in lp["blocks"] and all((x_, y_) in exits for x_ in [tg] for y_ in rb.succ[x_]) and rb.succ[tg])
                    if not leaves:
                        continue
                    tys = [rb.locals[o_.place.local]["s"] if o_.place is not None and o_.place.is_local() else (o_.const.get("ty") if o_.kind == "const" else "") for o_ in (c_["l"], c_["r"])]
                    if not any(t_ in ("f32", "f64") for t_ in tys):
                        continue
                    al_, ar_ = pvc17.of_operand(rb, c_["l"]), pvc17.of_operand(rb, c_["r"])
                    pl, pr = params_of(al_, rb.id), params_of(ar_, rb.id)
                    pure_l, pure_r = bool(al_) and all(x_[0] == "param" for x_ in al_), bool(ar_) and all(x_[0] == "param" for x_ in ar_)
                    bound = ("r", pr) if pure_r and not pure_l else (("l", pl) if pure_l and not pure_r else None)
                    if bound is None or len(bound[1]) != 1:
                        continue
                    n_cut += 1
                    vals = actuals17(rb, next(iter(bound[1])))
                    key = "cutoff/%s/%s" % (rb.short, c_["op"])
                    # exit taken when  data OP bound  is `side`
                    op = c_["op"] if bound[0] == "r" else {"Gt": "Lt", "Lt": "Gt", "Ge": "Le", "Le": "Ge"}.get(c_["op"], c_["op"])
                    need = None  # the bound value for which the exit can never be taken (no NaN assumed: the loop compares distances it has selected with the same ordering)
                    if (op, side) in (("Gt", "true"), ("Le", "false")):
                        need = float("inf")
                    elif (op, side) in (("Lt", "true"), ("Ge", "false")):
                        need = float("-inf")
                    if need is None or not vals or any(v_ is None for v_ in vals):
                        ck.undecided("CUTOFF", key, "%s leaves its merge loop on a float comparison (line %s) whose bound is not a constant at the constructors' call sites, or whose form is not one of `dist > bound` / `dist < bound`" % (rb.short, c_["line"]), where=rb.where(c_["line"]))
                    else:
                        bad = [v_ for v_ in vals if v_ != need]
                        ck.ob("CUTOFF", key, not bad, "%s leaves its merge loop when the distance is %s the bound; union / single / complete / average pass %s%s" % (
                            rb.short, "above" if need > 0 else "below", sorted(set(vals)), "" if not bad else ": a distance of %sinf satisfies that, so the clustering can stop before one cluster is left (fewer than n-1 merges)" % ("+" if need > 0 else "-")), where=rb.where(c_["line"]))

    # ---- size bookkeeping: the size of a merge is size(first node) + size(second node)
    ck.rule("ROLE", "index roles in the cluster-size bookkeeping (DESIGN 3.4)")
    pvn = Prov(prog, inline=False)
    sc = prog.body(LINK + "size_of_cluster")
    if sc is None:
        ck.undecided("ROLE", "size/indices", "private helper size_of_cluster not found")
    else:
        gets = [(bi, t) for bi, t in sc.calls() if (t.callee.res or "").endswith("ClusterVec::get")]
        guards = []
        for pos, st in sc.stmts():
            if st.k == "assign" and st.rv["k"] == "bin" and st.rv["op"] in ("Lt", "Ge", "Le", "Gt"):
                la, ra = pvn.of_operand(sc, st.rv["l"]), pvn.of_operand(sc, st.rv["r"])
                if "initial_len" in {a[2] for a in ra if a[0] == "field"} and params_of(la, sc.id) - {1}:
                    guards.append((st.place.local, params_of(la, sc.id) - {1}, st.rv["op"], pos))
        used = []
        for bi, t in gets:
            P = params_of(pvn.of_operand(sc, t.args[1]), sc.id) - {1}
            # the guard that sends this lookup to the "is an intermediate cluster" side
            gp = None
            for gl, Q, op, pos in guards:
                for sbi in sorted(sc.reach):
                    x = sc.blocks[sbi].term
                    if x.k == "switch" and x.discr.place is not None and x.discr.place.local == gl:
                        for tg in x.successors():
                            if sc.edge_dominates((sbi, tg), bi):
                                gp = Q
            used.append(P)
            ck.ob("ROLE", "size/lookup/%d" % len(used), len(P) == 1 and gp == P, "size_of_cluster looks up the cluster of `%s` on the branch that tested `%s`" % ("/".join(sc.local_name(p) for p in P) or "?", "/".join(sc.local_name(p) for p in (gp or ())) or "?"), where=sc.where(t.line))
        if len(used) == 2:
            ck.ob("ROLE", "size/both", used[0] != used[1] and used[0] | used[1] == {2, 3}, "the two lookups use %s and %s (expected idx1 and idx2)" % (sorted(sc.local_name(p) for p in used[0]), sorted(sc.local_name(p) for p in used[1])), where=sc.where())
        else:
            ck.undecided("ROLE", "size/both", "expected two cluster lookups, found %d" % len(used), where=sc.where())
        adds = [st for _, st in sc.stmts() if st.k == "assign" and st.rv["k"] == "bin" and st.rv["op"].startswith("Add")]
        ck.ob("ROLE", "size/sum", len(adds) >= 1, "the size of a merge is the SUM of the two node sizes", where=sc.where())
    nc = prog.body(LINK + "new_cluster")
    if nc is not None:
        for bi, t in nc.calls():
            if (t.callee.res or "").endswith("cluster::Cluster::new"):
                a = [pvn.of_operand(nc, x) for x in t.args]
                k0 = {tuple(e[1] for e in at[3] if e[0] == "f") for at in a[0] if at[0] == "param" and at[2] == 2}
                k1 = {tuple(e[1] for e in at[3] if e[0] == "f") for at in a[1] if at[0] == "param" and at[2] == 2}
                dist = params_of(a[2], nc.id)
                size_call = any(at[0] == "call" and at[1].endswith("size_of_cluster") for at in a[3])
                ck.ob("ROLE", "new_cluster/args", k0 == {("0",)} and k1 == {("1",)} and dist == {3} and size_call, "a merge is recorded as Cluster::new(key.%s, key.%s, %s, %s)" % ("/".join("".join(x) for x in k0), "/".join("".join(x) for x in k1), "dist" if dist == {3} else "?", "size_of_cluster(..)" if size_call else "?"), where=nc.where(t.line))
            if (t.callee.res or "").endswith("size_of_cluster"):
                a1 = {tuple(e[1] for e in at[3] if e[0] == "f") for at in pvn.of_operand(nc, t.args[1]) if at[0] == "param" and at[2] == 2}
                a2 = {tuple(e[1] for e in at[3] if e[0] == "f") for at in pvn.of_operand(nc, t.args[2]) if at[0] == "param" and at[2] == 2}
                ck.ob("ROLE", "new_cluster/size-args", a1 == {("0",)} and a2 == {("1",)}, "the size is computed for (key.0, key.1)", where=nc.where(t.line))

    # ---- update rule of the arithmetic linkages: d(new, idx) = func(d(idx, key.0), d(idx, key.1)), each looked up as (smaller, larger)
    ck.rule("PAIR", "each distance update combines the distance to the FIRST and to the SECOND merged node, each looked up under the (smaller, larger) key order the matrix is filled with (DESIGN 3.2/3.4)")
    ac = prog.body(LINK + "arithmetic_cluster")
    if ac is None:
        ck.undecided("PAIR", "update/lookups", "private helper arithmetic_cluster not found")
        return
    pvl = Prov(prog, inline=False, mutflow=False)

    # the merged pair may reach the clusterers through a private helper that returns it unchanged (`merge_closest_clusters() -> Option<(lhs, rhs)>`)
    pair_src = {}
    cc_id = next((x.id for x in prog.production() if x.id.endswith("::closest_clusters") and x.kind == "AssocFn"), None)
    for hb_ in prog.production():
        if cc_id is None or hb_.kind != "AssocFn" or hb_.id == cc_id or hb_.exported or hb_.reachable or hb_.impl_trait or not hb_.id.startswith(LINK):
            continue
        if not any(t_.callee.res == cc_id for _, t_ in hb_.calls()):
            continue
        mp = {}
        for k_ in ("0", "1"):
            got = set()
            for path in ((("dc", "Some"), ("f", "0", "std::option::Option"), ("f", k_, "tuple")), (("f", k_, "tuple"),)):
                for a_ in pvl.of_return(hb_, path):
                    if a_[0] == "call" and a_[1].endswith("::closest_clusters"):
                        fp = tuple(e[1] for e in a_[-1] if e[0] == "f")
                        if len(fp) == 2 and fp[0] == "0":
                            got.add(fp[1])
                if got:
                    break
            if len(got) == 1:
                mp[k_] = next(iter(got))
        if mp:
            pair_src[re.sub(r"<'\w+>", "<'a>", hb_.id)] = mp
            pair_src[hb_.id] = mp

    def comp_in(host, atoms):
        """K0 / K1: component of the merged pair returned by closest_clusters; IDX: the enumerate index of the live-set loop"""
        out = set()
        for a in atoms:
            if a[0] == "call" and a[1] in pair_src:
                p = tuple(e[1] for e in a[-1] if e[0] == "f")
                if len(p) == 2 and p[0] == "0" and p[1] in pair_src[a[1]]:
                    out.add("K" + pair_src[a[1]][p[1]])
                elif len(p) < 2:
                    out.add("K?")
                continue
            if a[0] == "call" and a[1].endswith("::closest_clusters"):
                p = tuple(e[1] for e in a[-1] if e[0] == "f")
                if len(p) == 2 and p[0] == "0":
                    out.add("K" + p[1])
                elif len(p) < 2:
                    out.add("K?")
            elif a[0] == "call" and a[1].endswith("::next") and a[3] == host.id:
                p = tuple(e[1] for e in a[-1] if e[0] == "f")
                out.add("IDX" if p[-1:] == ("0",) else "SET")
        return out

    def comp(atoms):
        return comp_in(ac, atoms)

    gets = {}
    for bi, t in ac.calls():
        if (t.callee.res or "").endswith("DistanceMatrix::get") and len(t.args) == 2:
            cc = tuple(frozenset(comp(pvl.of_operand(ac, t.args[1], (("f", i, "tuple"),)))) for i in ("0", "1"))
            # the key may be built by a private helper that orders its two arguments (`matrix_key(a, b) -> (min, max)`)
            via = None
            for a_ in pvl.of_operand(ac, t.args[1]):
                if a_[0] == "call" and a_[3] == ac.id and a_[1] in prog.bodies and prog.bodies[a_[1]].kind in ("Fn", "AssocFn") and prog.bodies[a_[1]].file == ac.file:
                    ht = ac.blocks[a_[4]].term
                    if len(ht.args) == 2:
                        via = (prog.bodies[a_[1]], tuple(frozenset(comp(pvl.of_operand(ac, x))) for x in ht.args))
            gets[bi] = (t, cc, via)
    # ordering facts: switch edges on the discriminant of an Ord::cmp result
    cmps = {}
    for bi, t in ac.calls():
        if t.callee.trait == "std::cmp::Ord" and t.callee.method == "cmp" and t.dest is not None:
            cmps[bi] = tuple(frozenset(comp(pvl.of_operand(ac, a))) for a in t.args[:2])
    discr_defs = {}
    for pos, st in ac.stmts():
        if st.k == "assign" and st.rv["k"] == "discr" and st.place.is_local():
            src = {a[4] for a in pvl.of_place(ac, st.rv["place"]) if a[0] == "call" and a[3] == ac.id and a[4] in cmps}
            if len(src) == 1:
                discr_defs[st.place.local] = next(iter(src))
    order_edges = []  # (edge, smaller-set, larger-set)
    for bi in sorted(ac.reach):
        x = ac.blocks[bi].term
        if x.k == "switch" and x.discr.place is not None and x.discr.place.local in discr_defs:
            A, B = cmps[discr_defs[x.discr.place.local]]
            for v, tg in x.targets:
                if v in (255, -1):
                    order_edges.append(((bi, tg), A, B))
                elif v == 1:
                    order_edges.append(((bi, tg), B, A))
    n_upd = 0
    for bi, t in ac.calls():
        if not (t.callee.trait in ("std::ops::Fn", "std::ops::FnMut", "std::ops::FnOnce") and params_of(pvl.of_operand(ac, t.args[0]), ac.id) == {2}):
            continue
        used = []
        for i in ("0", "1"):
            src = [a[4] for a in pvl.of_operand(ac, t.args[1], (("f", i, "tuple"),)) if a[0] == "call" and a[3] == ac.id and a[4] in gets]
            used.append(src)
        if any(len(u) != 1 for u in used):
            ck.undecided("PAIR", "update/%d" % n_upd, "arguments of the update function are not two plain matrix lookups", where=ac.where(t.line))
            n_upd += 1
            continue
        ks = []
        ok_shape = True
        for u in used:
            gt, (c0, c1), via = gets[u[0]]
            if via is not None and (set(c0) & set(c1)):
                # key normalised by a helper: the pair is the helper's two arguments; their order is the helper's business
                hb, (h0, h1) = via
                mins = {c.callee.method for _, c in hb.calls()} & {"min", "max", "cmp", "lt", "gt", "le", "ge"}
                cmpst = [st for _, st in hb.stmts() if st.k == "assign" and st.rv["k"] == "bin" and st.rv["op"] in ("Lt", "Le", "Gt", "Ge")]
                kk = (set(h0) | set(h1)) & {"K0", "K1"}
                shape_h = len(kk) == 1 and (("IDX" in h0) != ("IDX" in h1))
                ok_shape &= shape_h
                ks.append(sorted(kk)[0] if len(kk) == 1 else "?")
                if mins or cmpst:
                    ck.ob("PAIR", "update/%d/order/%s" % (n_upd, ks[-1]), True, "lookup key ordered by the helper %s (compares its two arguments)" % hb.short, where=ac.where(gt.line))
                else:
                    ck.undecided("PAIR", "update/%d/order/%s" % (n_upd, ks[-1]), "lookup key built by the helper %s, which is not recognised as ordering its arguments" % hb.short, where=ac.where(gt.line))
                continue
            both = (set(c0), set(c1))
            kk = (both[0] | both[1]) & {"K0", "K1"}
            shape = len(kk) == 1 and (("IDX" in both[0]) != ("IDX" in both[1])) and not (both[0] & both[1])
            ok_shape &= shape
            ks.append(sorted(kk)[0] if len(kk) == 1 else "?")
            # (smaller, larger): only where an ordering fact between the two components dominates the lookup
            facts_here = [(sm, lg) for e, sm, lg in order_edges if ac.edge_dominates(e, u[0]) and {tuple(sorted(sm)), tuple(sorted(lg))} == {tuple(sorted(c0)), tuple(sorted(c1))}]
            if shape and facts_here:
                good = all(sm == c0 and lg == c1 for sm, lg in facts_here)
                ck.ob("PAIR", "update/%d/order/%s" % (n_upd, ks[-1]), good, "lookup (%s, %s) on the branch where %s < %s" % ("/".join(sorted(c0)), "/".join(sorted(c1)), "/".join(sorted(facts_here[0][0])), "/".join(sorted(facts_here[0][1]))), where=ac.where(gt.line))
        ck.ob("PAIR", "update/%d/pairs" % n_upd, ok_shape, "each lookup of the update pairs the live index with exactly one merged node", where=ac.where(t.line))
        ck.ob("PAIR", "update/%d/both" % n_upd, sorted(ks) == ["K0", "K1"], "the update combines the distances to %s (expected one lookup for key.0 and one for key.1)" % " and ".join("key.%s" % k[1:] for k in ks), where=ac.where(t.line))
        n_upd += 1
    if n_upd == 0:
        ck.undecided("PAIR", "update/lookups", "no call of the update function recognised", where=ac.where())

    # ---- both clusterers: the merged pair is retired completely
    ck.rule("TABLE", "exact truth table of the retain predicate over its four equality tests (path enumeration of the closure body)")
    import itertools
    from engines import bool_table, eval_bool_table
    n_ret = 0
    for nm in ("arithmetic_cluster", "cluster_set_unions"):
        host = prog.body(LINK + nm)
        if host is None:
            ck.undecided("TABLE", nm + "/retain", "private helper %s not found" % nm)
            continue
        rets = [(bi, t) for bi, t in host.calls() if (t.callee.res or "").endswith("DistanceMatrix::retain")]
        if not rets:
            ck.undecided("TABLE", nm + "/retain", "no DistanceMatrix::retain call: the retirement of the merged pair's distances is not recognised", where=host.where())
        for bi, t in rets:
            cb = prog.bodies.get(pvl.closure_of_operand(host, t.args[1]))
            if cb is None:
                ck.undecided("TABLE", nm + "/retain", "retain predicate is not a closure", where=host.where(t.line))
                continue

            def akey(kind, lo, ro, body):
                if kind != "Eq":
                    return None
                sides = []
                for o in (lo, ro):
                    at = pvl.of_operand(body, o)
                    ent = {tuple(e[1] for e in a[-1] if e[0] == "f") for a in at if a[0] == "param" and a[1] == body.id and a[2] == 2}
                    ks = {x for x in comp_in(host, at) if x.startswith("K")}
                    sides.append((ent, ks))
                for (e1, k1), (e2, k2) in (sides, sides[::-1]):
                    if len(e1) == 1 and not k1 and len(k2) == 1 and not e2:
                        e = next(iter(e1))
                        if len(e) == 1 and e[0] in ("0", "1"):
                            return ("idx" + str(int(e[0]) + 1), next(iter(k2)))
                return None
            rows = bool_table(cb, akey)
            if rows is None:
                ck.undecided("TABLE", nm + "/retain", "retain predicate is not a plain combination of (entry index == merged node) tests", where=cb.where())
                continue
            keys = sorted({k for asg, r in rows for k in asg} | {r[1] for asg, r in rows if isinstance(r, tuple)})
            need = [("idx1", "K0"), ("idx1", "K1"), ("idx2", "K0"), ("idx2", "K1")]
            missing = [k for k in need if k not in keys]
            n_ret += 1
            if missing:
                ck.ob("TABLE", nm + "/retain", False, "%s keeps distance entries without testing %s: distances to a retired node stay in the matrix" % (nm, ", ".join("%s == key.%s" % (a, b[1:]) for a, b in missing)), where=cb.where())
                continue
            bad = None
            for bits in itertools.product((False, True), repeat=len(keys)):
                full = dict(zip(keys, bits))
                got = eval_bool_table(rows, full)
                want = not any(full[k] for k in need)
                if got is None or got != want:
                    bad = (full, got, want)
                    break
            ck.ob("TABLE", nm + "/retain", bad is None, "%s keeps an entry iff neither index is one of the merged nodes (%d-row truth table over %s)%s" % (nm, 2 ** len(keys), ["%s==key.%s" % (a, b[1:]) for a, b in keys], "" if bad is None else "; differs for %s: keeps=%s, expected %s" % ({"%s==key.%s" % (a, b[1:]): v for (a, b), v in bad[0].items()}, bad[1], bad[2])), where=cb.where())
        # both members of the merged pair are taken out of `sets`
        taken = set()
        for bi, t in host.calls():
            if t.callee.method == "take" and (t.callee.impl_self or t.callee.name or "").find("Option") >= 0:
                at = pvl.of_operand(host, t.args[0])
                for a in at:
                    if a[0] == "call" and a[1].endswith("::index_mut") and a[3] == host.id:
                        it = host.blocks[a[4]].term
                        taken |= {x for x in comp_in(host, pvl.of_operand(host, it.args[1])) if x.startswith("K")}
        if not taken and not any(t_.callee.method == "take" and (t_.callee.impl_self or t_.callee.name or "").find("Option") >= 0 for _, t_ in host.calls()):
            # no `Option::take` on the set slots at all: the live / retired bookkeeping has another representation (a list of live indices, ..)
            ck.undecided("PAIR", nm + "/takes-both", "%s does not retire the merged nodes by taking them out of Option slots of `sets`: another bookkeeping of the live nodes, not read by this rule" % nm, where=host.where())
        else:
          ck.ob("PAIR", nm + "/takes-both", taken == {"K0", "K1"}, "%s retires %s from `sets` (expected key.0 and key.1)" % (nm, " and ".join("key." + k[1:] for k in sorted(taken)) or "nothing"), where=host.where())
    ck.floor("TABLE", "retain predicates", n_ret, 1, soft=True)

    # ---- the caller's distances are stored as they are: no clamp / rescaling between the callback's result and the matrix
    ck.rule("ASIS", "a value stored in the distance matrix that comes from a caller-supplied function (the distance callback, the linkage update function) is stored unchanged")
    from engines import steps_after_call, FLOAT_CHANGE
    pvm0 = Prov(prog, inline=False, mutflow=False)
    n_asis = 0
    for hb_ in prog.production():
        if hb_.kind != "AssocFn" or not hb_.id.startswith(LINK):
            continue
        k_host = 0
        for bi, t in hb_.calls():
            if not (t.callee.res or "").endswith("DistanceMatrix::insert") or len(t.args) < 3 or t.args[2].place is None:
                continue

            def from_callback(ct, hb_=hb_):
                return ct.callee.res is None and (ct.callee.trait or "").rsplit("::", 1)[-1] in ("Fn", "FnMut", "FnOnce") and ct.args and bool(params_of(pvm0.of_operand(hb_, ct.args[0]), hb_.id))
            st_ = steps_after_call(hb_, pvm0, from_callback, start=t.args[2].place.local)
            if st_ is None:
                continue
            n_asis += 1
            k_host += 1
            bad = [x for x in st_ if x in FLOAT_CHANGE]
            ck.ob("ASIS", "stored-distance/%s/%d" % (hb_.short.rsplit("::", 1)[-1], k_host - 1), not bad, "%s stores the value of the caller's function %s" % (hb_.short, "as it is" if not bad else "after `%s`: distances outside what that step lets through are altered, so the closest pair and the reported merge distances change" % "`, `".join(bad)), where=hb_.where(t.line))
    ck.floor("ASIS", "matrix inserts fed by a caller-supplied function", n_asis, 2, soft=True)

    # ---- index of the new cluster: distances to it are stored under (live index, index of the pushed set)
    ck.rule("FIELD", "the key of a new distance is (live index, index the merged set is pushed at): Vec::len taken before the push, or len - 1 after it (DESIGN 3.9)")
    # ---- a list that is consumed POSITIONALLY (walked in lockstep with the distance callback's scores, or zipped) keeps its order: no method of the
    # type may permute it (`swap_remove` moves the last element into the hole - the i-th score then belongs to another node)
    from engines import for_loops as _flo
    ck.rule("ORDER", "a Vec field walked in lockstep with another sequence is never permuted (swap_remove / swap / reverse / sort)")
    link_bodies = [b_ for b_ in prog.production() if (b_.file or "").startswith("src/stats/linkage") and b_.kind in ("Fn", "AssocFn", "Closure")]
    pv_o = Prov(prog, inline=False, mutflow=False)

    def self_field(b_, op_):
        fl_ = {a[2] for a in pv_o.of_operand(b_, op_) if a[0] == "field" and a[1].endswith("::Linkage")}
        return next(iter(fl_)) if len(fl_) == 1 else None
    lockstep = {}
    for b_ in link_bodies:
        for lp_ in _flo(b_):
            f_ = self_field(b_, lp_["iter"])
            if f_ is None:
                continue
            others = [t_ for bi_, t_ in b_.calls() if bi_ in lp_["blocks"] and bi_ != lp_["next_bb"] and t_.callee.method == "next" and t_.callee.trait == "std::iter::Iterator" and b_.loop_of(bi_) and b_.loop_of(bi_)[0] == lp_["header"]]
            if others:
                lockstep.setdefault(f_, (b_, lp_["line"], "a loop that also pulls `next()` from another iterator"))
        for bi_, t_ in b_.calls():
            if t_.callee.method == "zip" and t_.callee.trait == "std::iter::Iterator" and len(t_.args) == 2:
                for a_ in t_.args:
                    f_ = self_field(b_, a_)
                    if f_ is not None:
                        lockstep.setdefault(f_, (b_, t_.line, "a zip"))
    n_perm = 0
    for b_ in link_bodies:
        for bi_, t_ in b_.calls():
            if t_.callee.method in ("swap_remove", "swap", "reverse", "sort", "sort_unstable", "sort_by", "sort_by_key", "sort_unstable_by", "sort_unstable_by_key", "rotate_left", "rotate_right") and t_.args and not (t_.callee.name or "").startswith(("std::mem::", "core::mem::")) and re.search(r"Vec(::)?<|<impl \[|VecDeque(::)?<", (t_.callee.def_args or "") + (t_.callee.name or "")):
                f_ = self_field(b_, t_.args[0])
                if f_ in lockstep:
                    n_perm += 1
                    lb_, ll_, how_ = lockstep[f_]
                    ck.ob("ORDER", "permuted/%s/%s" % (f_, b_.short), False, "%s permutes `self.%s` with `%s`, while %s consumes it positionally in %s (line %s): element i no longer pairs with the i-th value of the other sequence" % (b_.short, f_, t_.callee.method, lb_.short, how_, ll_), where=b_.where(t_.line))
    ck.extra["positionally consumed Vec fields of Linkage"] = sorted(lockstep)
    # ---- DIRECTION: the two sides of a `zip` in the clustering code run in the same direction.  Scores are produced in the order of the sets
    # they belong to; `scores.iter().rev().skip(1)` drops the LAST score and then keeps running backwards, so that paired with the ascending
    # indices of the sets every score lands on the wrong set (for three or more partners).
    from engines import adaptor_chain as _ac17
    pvz = Prov(prog, inline=False)
    for zb in sorted(prog.production(), key=lambda z: z.id):
        if not (zb.file or "").startswith("src/stats/linkage") or zb.test:
            continue
        for zbi, zt in zb.calls():
            if zt.callee.method == "zip" and zt.callee.trait == "std::iter::Iterator" and len(zt.args) == 2:
                revs = [len([m_ for m_ in _ac17(zb, pvz, a_) if m_ == "rev"]) % 2 for a_ in zt.args]
                ck.ob("ORDER", "zip-direction/%s/%d" % (zb.short, zbi), revs[0] == revs[1], "%s zips two sequences that run %s" % (zb.short, "in the same direction" if revs[0] == revs[1] else
                      "in OPPOSITE directions (one side is reversed with `rev()` and never turned back): the i-th element of one side meets the i-th from the end of the other"), where=zb.where(zt.line))
    # ---- BOOKKEEPING of the merge loops, decided on the control flow of the code behind the four constructors:
    #  (exit)    the only way out of a merge loop other than the cut-off is the EMPTY edge of `distance_matrix.is_empty()`
    #  (active)  a distance is stored for a set only on the Some edge of its slot in `sets` (merged sets are None)
    #  (skip)    the two sets that were just merged are skipped by index: the store is dominated by the `differs` edges of `idx == key.0` and of
    #            `idx == key.1` (two tests, one per component of the key)
    #  (size)    `size_of_cluster`: a node below `initial_len` is a leaf (size 1) - exactly the `<` outcome; the table of clusters is read, at
    #            `idx - initial_len`, on the other two outcomes
    #  (leaves)  `indicies()`: the node that is pushed is the node that was tested against `initial_len`
    ck.rule("BOOK", "merge-loop bookkeeping in stats/linkage.rs: exit on the empty edge, stores on the Some edge, the merged pair skipped by both indices, leaf/cluster split at `idx < initial_len`, indicies() pushes the node it tested")
    from engines import _test_edges as _te17, loop_early_exits as _lee17b, positive_edges as _pe17, compare_switches as _cs17b, relation_cases as _rc17b
    pvb = Prov(prog, inline=False)
    for nm in ("arithmetic_cluster", "cluster_set_unions"):
        hb = prog.body(LINK + nm)
        if hb is None:
            continue
        # (exit)
        empt_pos = {e_ for bi_, t_ in hb.calls() if t_.callee.method == "is_empty" and "distance_matrix" in field_names_of(pvb.of_operand(hb, t_.args[0])) for e_ in _pe17(hb, pvb, bi_)}
        empt_sw = {e_[0] for e_ in empt_pos}
        for lp in for_loops_any(hb):
            for (x_, y_) in _lee17b(hb, lp):
                if x_ in empt_sw:
                    ck.ob("BOOK", "exit/%s/%d" % (nm, x_), (x_, y_) in empt_pos, "%s leaves its merge loop on the %s edge of distance_matrix.is_empty()" % (nm, "EMPTY" if (x_, y_) in empt_pos else "NON-empty (nothing, or not everything, is clustered)"), where=hb.where(hb.blocks[x_].term.line))
        # (active) + (skip)
        stores = [(bi_, t_) for bi_, t_ in hb.calls() if (t_.callee.res or "").endswith("DistanceMatrix::insert")]
        somes_pos = {e_ for bi_, t_ in hb.calls() if t_.callee.method == "is_some" and len(t_.args) == 1 for e_ in _pe17(hb, pvb, bi_)}
        # (`is_none()`: its negative edges are the Some edges)
        for bi_, t_ in hb.calls():
            if t_.callee.method == "is_none" and len(t_.args) == 1:
                np_ = set(_pe17(hb, pvb, bi_))
                somes_pos |= {(sb_, tg_) for sb_ in {e_[0] for e_ in np_} for tg_ in hb.succ[sb_] if (sb_, tg_) not in np_}
        somes_sw = {e_[0] for e_ in somes_pos}
        eqs = [t_ for t_ in _te17(hb, pvb) if t_["kind"] == "equal"]
        for n_, (sbi, st_) in enumerate(stores):
            doms_some = [e_ for e_ in somes_pos if hb.edge_dominates(e_, sbi)]
            doms_none = [(sb_, tg_) for sb_ in somes_sw for tg_ in hb.succ[sb_] if (sb_, tg_) not in somes_pos and hb.edge_dominates((sb_, tg_), sbi)]
            if doms_some or doms_none:
                ck.ob("BOOK", "active/%s/%d" % (nm, n_), bool(doms_some) and not doms_none, "%s stores a distance for a set %s" % (nm, "only on the Some edge of its slot" if doms_some and not doms_none else "on the NONE edge of its slot (a merged set), and skips the active ones"), where=hb.where(st_.line))
            inner_ = None
            for h_, bl_ in hb.natural_loops().items():
                if sbi in bl_ and (inner_ is None or len(bl_) < len(inner_)):
                    inner_ = bl_
            # the index tests that belong to this store: equality tests in the innermost loop around the store that stand in front of it
            keyed = [t_ for t_ in eqs if (inner_ is not None and t_["bb"] in inner_ and hb.dominates(t_["bb"], sbi)) or any(hb.edge_dominates(e_, sbi) for e_ in t_["same"] | t_["diff"])]
            if keyed:
                comps = set()
                wrong = []
                for t_ in keyed:
                    on_diff = any(hb.edge_dominates(e_, sbi) for e_ in t_["diff"])
                    cs_ = set()
                    for o_ in t_["ops"]:
                        # the component of the merged key that is compared: read off the operand's own definition (`_t = copy (key.1)`)
                        if o_.place is not None:
                            cs_ |= {e[1] for e in o_.place.fields() if e != "*" and e[0] == "f" and e[1] in ("0", "1")}
                            if o_.place.is_local():
                                for k2_, p2_, d2_ in pvb.defs(hb).get(o_.place.local, []):
                                    if k2_ == "assign" and d2_.rv["k"] == "use" and d2_.rv["op"].place is not None:
                                        cs_ |= {e[1] for e in d2_.rv["op"].place.fields() if e != "*" and e[0] == "f" and e[1] in ("0", "1")}
                    comps |= cs_
                    if not on_diff and cs_:
                        wrong.append(t_["line"])
                ck.ob("BOOK", "skip/%s/%d" % (nm, n_), not wrong and (comps >= {"0", "1"} or not comps), "%s stores a distance %s" % (nm, "only for an index that differs from BOTH merged indices" if not wrong and (comps >= {"0", "1"} or not comps) else
                      ("without being dominated by the `differs` edge of the index test in line %s (AND-ed with another test, or the store stands on its EQUAL side): a merged set gets a distance" % wrong[0] if wrong else "after testing only component %s of the merged key" % sorted(comps))), where=hb.where(st_.line))
    # (every set) the bookkeeping loops over the sets run to the end
    from engines import for_loops as _fl17
    for nm in ("arithmetic_cluster", "cluster_set_unions"):
        hb = prog.body(LINK + nm)
        for li_, lp_ in enumerate(_fl17(hb) if hb is not None else []):
            ex_ = _lee17b(hb, lp_)
            ck.ob("BOOK", "every-set/%s/%d" % (nm, li_), not ex_, "%s: the loop in line %s %s" % (nm, lp_["line"], "visits every set" if not ex_ else "can be left early (line %s): the sets behind that point get no distance to the new cluster" % hb.blocks[ex_[0][0]].term.line), where=hb.where(lp_["line"]))
    sc = prog.body(LINK + "size_of_cluster")
    if sc is not None:
        for n_, c_ in enumerate(_cs17b(sc, pvb)):
            if c_["op"] not in ("Lt", "Le", "Gt", "Ge"):
                continue
            fl_, fr_ = field_names_of(pvb.of_operand(sc, c_["l"])), field_names_of(pvb.of_operand(sc, c_["r"]))
            if ("initial_len" in fr_) == ("initial_len" in fl_):
                continue
            cases = _rc17b(c_, swap="initial_len" in fl_)  # idx against initial_len
            def leaf_(tg_):
                reg_ = sc.region((c_["bb"], tg_))
                return not any(st_.k == "assign" and st_.rv["k"] == "bin" and st_.rv["op"].startswith("Sub") for r_ in reg_ for st_ in sc.blocks[r_].stmts)
            got = {k_: ("leaf" if leaf_(tg_) else "cluster") for k_, tg_ in cases.items() if tg_ is not None}
            ck.ob("BOOK", "size/%d" % n_, got == {"lt": "leaf", "eq": "cluster", "gt": "cluster"}, "size_of_cluster treats a node as %s (expected: a leaf exactly when idx < initial_len)" % ", ".join("%s -> %s" % kv for kv in sorted(got.items())), where=sc.where(c_["line"]))
    ib = prog.body(LINK + "indicies")
    if ib is not None:
        for n_, (pbi, pt_) in enumerate([(bi_, t_) for bi_, t_ in ib.calls() if t_.callee.method == "push" and len(t_.args) == 2]):
            pushed = {a_[1].rsplit("::", 1)[-1] for a_ in pvb.of_operand(ib, pt_.args[1]) if a_[0] == "call" and a_[3] == ib.id and a_[1].rsplit("::", 1)[-1] in ("lhs", "rhs")}
            tested = set()
            for c_ in _cs17b(ib, pvb):
                if ib.edge_dominates((c_["bb"], c_["true_tg"]), pbi) or ib.edge_dominates((c_["bb"], c_["false_tg"]), pbi):
                    for o_ in (c_["l"], c_["r"]):
                        tested |= {a_[1].rsplit("::", 1)[-1] for a_ in pvb.of_operand(ib, o_) if a_[0] == "call" and a_[3] == ib.id and a_[1].rsplit("::", 1)[-1] in ("lhs", "rhs")}
            if pushed and tested:
                ck.ob("BOOK", "leaves/%d" % n_, pushed == tested, "indicies() pushes `%s()` under a test of `%s()`" % ("/".join(sorted(pushed)), "/".join(sorted(tested))), where=ib.where(pt_.line))
    # ---- the steps of the clustering happen on every way through: each constructor runs its clustering loop; the loop records a cluster, stores
    # the merged set, stores the distances to it and drops the distances of the merged pair; the initial distances are stored
    from engines import check_required_steps as _crs17
    def _calls17(sfx):
        return lambda t_: (t_.callee.res or "").endswith(sfx)
    for ctor_, loop_ in (("union", "cluster_set_unions"), ("single", "arithmetic_cluster"), ("complete", "arithmetic_cluster"), ("average", "arithmetic_cluster")):
        cb_ = prog.body(LINK + ctor_)
        if cb_ is not None and prog.body(LINK + loop_) is not None:
            _crs17(ck, "BOOK", prog, cb_, [("run the merge loop (%s)" % loop_, _calls17("::" + loop_))])
    nb_ = prog.body(LINK + "new")
    if nb_ is not None and prog.body(LINK + "calculate_initial_distances") is not None:
        _crs17(ck, "BOOK", prog, nb_, [("compute the initial distances", _calls17("::calculate_initial_distances"))])
    cid_ = prog.body(LINK + "calculate_initial_distances")
    if cid_ is not None:
        _crs17(ck, "BOOK", prog, cid_, [("store every initial distance", (lambda t_: re.search(r"DistanceMatrix::(insert|extend|insert_many|extend_from)\w*$", t_.callee.res or "") is not None))])
    for nm in ("arithmetic_cluster", "cluster_set_unions"):
        hb = prog.body(LINK + nm)
        if hb is None:
            continue
        steps17 = [("record the new cluster", _calls17("::new_cluster")), ("store the distances to the new cluster", (lambda t_: re.search(r"DistanceMatrix::(insert|extend|insert_many|extend_from)\w*$", t_.callee.res or "") is not None)), ("drop the distances of the merged pair", _calls17("DistanceMatrix::retain")),
                   ("store the merged set", lambda t_: t_.callee.method == "push" and t_.args and "sets" in field_names_of(pvb.of_operand(prog.body(LINK + nm), t_.args[0])))]
        # (a step is demanded when the helper / field it is phrased over exists on this tree: another bookkeeping may not have it)
        if nm == "cluster_set_unions" and prog.one(r"Combinations::<.*>::set_to_last$|Combinations::set_to_last$") is not None:
            steps17.append(("restrict the combinations to the pairs with the new set", lambda t_: (t_.callee.res or "").endswith("::set_to_last")))
        exists17 = {"restrict the combinations to the pairs with the new set": True, "record the new cluster": prog.body(LINK + "new_cluster") is not None, "store the distances to the new cluster": prog.body("stats::linkage::DistanceMatrix::insert") is not None,
                    "drop the distances of the merged pair": prog.body("stats::linkage::DistanceMatrix::retain") is not None,
                    "store the merged set": any(f_.get("name") == "sets" for v_ in prog.adts.get("stats::linkage::Linkage", {}).get("variants", []) for f_ in v_.get("fields", []))}
        _crs17(ck, "BOOK", prog, hb, [(l_, p_) for l_, p_ in steps17 if exists17[l_]])
    # ---- average linkage: the update function that `average` hands to the merge loop is the MEAN of its two arguments: one addition of the two
    # values and one division by the constant 2 (and no other arithmetic)
    avb = prog.body(LINK + "average")
    if avb is not None:
        pva = Prov(prog, inline=False)
        fns_ = set()
        for bi_, t_ in avb.calls():
            if (t_.callee.res or "").endswith("::arithmetic_cluster"):
                for a_ in t_.args[1:]:
                    fns_ |= {x_[1] for x_ in pva.of_operand(avb, a_) if x_[0] == "fn" and x_[1] in prog.bodies}
                    if a_.kind == "const" and (a_.const or {}).get("fn") in prog.bodies:
                        fns_.add(a_.const["fn"])
                    if a_.kind == "const" and (a_.const or {}).get("res") in prog.bodies:
                        fns_.add(a_.const["res"])
        for fid_ in sorted(fns_):
            mb_ = prog.bodies[fid_]
            bins_ = [st_ for _, st_ in mb_.stmts() if st_.k == "assign" and st_.rv["k"] == "bin" and st_.rv["op"].replace("WithOverflow", "") in ("Add", "Sub", "Mul", "Div", "Rem")]
            ops_ = sorted([st_.rv["op"].replace("WithOverflow", "") for st_ in bins_] + [{"add": "Add", "sub": "Sub", "mul": "Mul", "div": "Div", "rem": "Rem"}[t_.callee.method] for _, t_ in mb_.calls() if (t_.callee.trait or "").startswith("std::ops::") and t_.callee.method in ("add", "sub", "mul", "div", "rem")])
            div2 = [st_ for st_ in bins_ if st_.rv["op"] == "Div" and st_.rv["r"].kind == "const" and st_.rv["r"].float_value() == 2.0]
            ok_ = ops_ == ["Add", "Div"] and len(div2) == 1
            ck.ob("BOOK", "average/update-is-the-mean/%s" % mb_.short, ok_, "the update function of average linkage (%s) computes %s" % (mb_.short, "(v1 + v2) / 2" if ok_ else "with the operations %s%s (expected one addition and one division by 2.0)" % (ops_, "" if div2 or "Div" not in ops_ else ", the divisor is not the constant 2.0")), where=mb_.where())
    # ---- union linkage: the set that is stored for the new cluster is put together from BOTH merged sets (each taken out of its slot)
    ub_ = prog.body(LINK + "cluster_set_unions")
    if ub_ is not None:
        pvu = Prov(prog, inline=False)
        takes_ = [bi_ for bi_, t_ in ub_.calls() if t_.callee.method == "take" and "Option" in (t_.callee.name or t_.callee.def_args or "")]
        for pbi_, pt_ in ub_.calls():
            if pt_.callee.method == "push" and len(pt_.args) == 2 and "sets" in field_names_of(pvu.of_operand(ub_, pt_.args[0])):
                src_ = {a_[4] for a_ in pvu.of_operand(ub_, pt_.args[1]) if a_[0] == "call" and a_[3] == ub_.id and a_[4] in takes_}
                src_ |= {a_[3] for a_ in pvu.of_operand(ub_, pt_.args[1]) if a_[0] == "mutcall" and a_[2] == ub_.id and False}
                if len(takes_) >= 2:
                    ck.ob("BOOK", "merged-set/cluster_set_unions", len(src_) >= 2, "cluster_set_unions stores for the new cluster a set made of %d of the %d sets it took out of their slots%s" % (len(src_), len(takes_), "" if len(src_) >= 2 else ": the new cluster's set lacks the terms of the other one"), where=ub_.where(pt_.line))
    # ---- no truncating adaptor (skip / take / step_by ..) on the iterations of the clustering code: every set, every distance takes part
    from engines import check_complete_iteration as _cci17
    _cci17(ck, "BOOK", prog, [b_ for b_ in sorted(prog.production(), key=lambda z: z.id) if (b_.file or "").startswith("src/stats/linkage") and b_.kind in ("Fn", "AssocFn") and not b_.test and any(t_.callee.trait == "std::iter::Iterator" for fb_ in prog.family(b_) for _, t_ in fb_.calls())], "the sets / distances it iterates")
    from engines import check_parallel_vectors as _cpv
    ck.rule("PARALLEL", "two Vec fields of one struct that a method edits together are edited at the same position")
    ck.extra["side-by-side vector edits examined"] = _cpv(ck, "PARALLEL", prog, [b_ for b_ in prog.production() if (b_.file or "").startswith(("src/stats/linkage",))])
    pvm = Prov(prog, inline=False, mutflow=False)
    for nm in ("arithmetic_cluster", "cluster_set_unions"):
        host = prog.body(LINK + nm)
        if host is None:
            continue
        ins = [(bi, t) for bi, t in host.calls() if (t.callee.res or "").endswith("DistanceMatrix::insert")]
        pushes = [bi for bi, t in host.calls() if t.callee.method == "push" and "sets" in field_names_of(pvm.of_operand(host, t.args[0]))]
        if not ins or not pushes:
            ck.undecided("FIELD", nm + "/new-index", "insert into the distance matrix / push onto `sets` not recognised", where=host.where())
            continue
        for bi, t in ins:
            if t.args[1].place is not None and t.args[1].place.is_local() and not str(host.locals[t.args[1].place.local].get("s", "")).startswith("("):
                ck.undecided("FIELD", nm + "/new-key-order", "%s keys the new distance with a private key type (%s), not a plain (smaller, larger) tuple: which component is which is that type's business" % (nm, host.locals[t.args[1].place.local].get("s")), where=host.where(t.line))
                continue
            c0 = pvm.of_operand(host, t.args[1], (("f", "0", "tuple"),))
            c1 = pvm.of_operand(host, t.args[1], (("f", "1", "tuple"),))
            k0, k1 = comp_in(host, c0), comp_in(host, c1)
            lens = [a for a in c1 if a[0] == "call" and a[1].endswith("::len") and a[3] == host.id]
            lens0 = [a for a in c0 if a[0] == "call" and a[1].endswith("::len") and a[3] == host.id]
            ok_order = "IDX" in k0 and bool(lens) and "IDX" not in k1
            if not ok_order and "IDX" in k0 and "IDX" not in k1 and not lens and not lens0:
                # the second component is neither a live index nor a length read here (`self.newest_index()`): not classified
                ck.undecided("FIELD", nm + "/new-key-order", "%s stores the new distance under (live index, <a value that is not a Vec::len read in this function>): the new index is computed elsewhere" % nm, where=host.where(t.line))
                continue
            ck.ob("FIELD", nm + "/new-key-order", ok_order, "%s stores the new distance under (%s, %s) - expected (live index, new index): the matrix is keyed (smaller, larger)" % (nm, "live index" if "IDX" in k0 else "new index" if lens0 else "?", "live index" if "IDX" in k1 else "new index" if lens else "?"), where=host.where(t.line))
            src = lens if "IDX" not in k1 else lens0
            if len(src) != 1:
                ck.undecided("FIELD", nm + "/new-index", "new index does not come from one Vec::len", where=host.where(t.line))
                continue
            len_bb = src[0][4]
            via_part = [c_.callee.method for c_ in receiver_calls(host, pvm, host.blocks[len_bb].term.args[0]) if c_.callee.method not in ("deref", "deref_mut", "as_slice", "as_ref", "borrow", "as_mut_slice")]
            if via_part:
                ck.undecided("FIELD", nm + "/new-index", "the length is taken of a part of `sets` (through `%s`): its relation to the index of the pushed set is not classified" % via_part[0], where=host.where(t.line))
                continue
            allc = c1 if "IDX" not in k1 else c0
            minus1 = any(a[0] == "op" and a[1].startswith("Sub") for a in allc) and any(a[0] == "const" and str(a[2]).startswith("1") for a in allc)
            other_arith = any(a[0] == "op" and not a[1].startswith("Sub") for a in allc) or (any(a[0] == "op" for a in allc) and not minus1)
            pushed_before = any(host.dominates(p, len_bb) for p in pushes)
            pushed_after = any(host.dominates(len_bb, p) for p in pushes)
            if other_arith:
                ck.ob("FIELD", nm + "/new-index", False, "%s derives the new index from Vec::len with arithmetic other than `- 1`" % nm, where=host.where(t.line))
            elif pushed_before:
                ck.ob("FIELD", nm + "/new-index", minus1, "%s pushes the merged set BEFORE reading the length: the new index is len%s" % (nm, " - 1" if minus1 else " (one past the pushed set)"), where=host.where(t.line))
            elif pushed_after:
                ck.ob("FIELD", nm + "/new-index", not minus1, "%s reads the length BEFORE pushing the merged set: the new index is len%s" % (nm, "" if not minus1 else " - 1 (the index of an OLD set)"), where=host.where(t.line))
            else:
                ck.undecided("FIELD", nm + "/new-index", "no push onto `sets` ordered with the length read", where=host.where(t.line))

    # ---- the dendrogram's iterators answer each protocol method with the inner iterator's SAME method
    ck.rule("SIBLING", "an iterator wrapper's next / next_back / len / size_hint delegates to the same method of the inner iterator (DESIGN 3.15)")
    from engines import check_iterator_delegations
    check_iterator_delegations(ck, "SIBLING", prog, r"^src/stats/linkage/cluster\.rs$", floor=2)
    check_iterator_delegations(ck, "SIBLING", prog, r"^src/utils\.rs$")

    # ---- accessors: a method named after a field returns that field, not a sibling of the same type
    ck.rule("GETTER", "an accessor `f()` / `f_mut()` of a struct with a field `f` (or its documented alias) derives its result from that field (DESIGN 3.9)")
    from engines import check_getters
    check_getters(ck, "GETTER", prog, r"^src/stats/linkage/cluster\.rs$", floor=2)

    # ---- constructors: a field named like a parameter is initialised from that parameter, not from a sibling of the same type
    # ------------------------------------------------------------------ STATE: the pair iterator (utils::Combinations)
    # all unordered pairs (i, j), i < j, of the non-None slots, in lexicographic order: the state (idx1, idx2) is propagated as affine
    # values over the fields of *self (lint/fieldaffine.py)
    ck.rule("STATE", "the pair iterator's state machine: which slots are tested and yielded, and how (idx1, idx2) advance on each arm (FIELDSTATE)")
    from fieldaffine import FieldAffine, fmt as fa_fmt
    from fractions import Fraction as _Fr
    cn = prog.body("<utils::Combinations<'a, T> as std::iter::Iterator>::next")
    if ck.anchor("STATE", "Combinations::next", cn):
        fa = FieldAffine(cn)
        if not fa.ok:
            ck.undecided("STATE", "combinations/next", "Combinations::next contains a loop: the field-state propagation does not apply", where=cn.where())
        else:
            I1, I2 = {"f0:idx1": _Fr(1)}, {"f0:idx2": _Fr(1)}
            def plus(a, c):
                out = dict(a)
                if c:
                    out[()] = _Fr(c)
                return out
            # slot accesses  &(*inner)[_t]
            acc = {}
            for pos, st in cn.stmts():
                if st.k == "assign" and st.rv["k"] == "ref" and st.place.is_local():
                    es = [e for e in st.rv["place"].fields() if e != "*"]
                    if len(es) == 1 and es[0][0] == "idx":
                        acc[st.place.local] = (pos, fa.local_at(pos, es[0][1]), st.line)
            def slot_of_call(t):
                if t.args and t.args[0].place is not None and t.args[0].place.is_local() and t.args[0].place.local in acc:
                    return acc[t.args[0].place.local]
                return None
            tests = [slot_of_call(t) for bi, t in cn.calls() if t.callee.method in ("is_none", "is_some")]
            tests = [x for x in tests if x is not None]
            takes = {}
            for bi, t in cn.calls():
                if t.callee.method == "as_ref":
                    x = slot_of_call(t)
                    if x is not None:
                        takes[bi] = x
            # the yielded pair
            somes = {st.rv["ops"][0].place.local for pos, st in cn.stmts() if st.k == "assign" and st.place.local == 0 and st.rv["k"] == "agg" and st.rv.get("variant") == "Some" and st.rv["ops"] and st.rv["ops"][0].place is not None}
            ylds = [(pos, st) for pos, st in cn.stmts() if st.k == "assign" and st.rv["k"] == "agg" and st.rv.get("agg") == "tuple" and len(st.rv["ops"]) == 2 and st.place.is_local() and st.place.local in somes]
            if len(ylds) != 1 or len(takes) < 2:
                ck.undecided("STATE", "combinations/yield", "construction of the yielded pair not recognised", where=cn.where())
            else:
                pos, st = ylds[0]
                comp = []
                for o in st.rv["ops"]:
                    bbs = sorted({a[4] for a in pvn.of_operand(cn, o) if a[0] == "call" and a[3] == cn.id and a[4] in takes})
                    comp.append(takes[bbs[0]][1] if len(bbs) == 1 else None)
                ok = comp[0] == I1 and comp[1] == I2
                ck.ob("STATE", "combinations/yield", ok, "Combinations::next yields (inner[%s], inner[%s]) in terms of the state at entry (expected inner[idx1], inner[idx2])" % (fa_fmt(comp[0]), fa_fmt(comp[1])), where=cn.where(st.line))
                tested = sorted(fa_fmt(x[1]) for x in tests)
                ck.ob("STATE", "combinations/none-tests", sorted([fa_fmt(I1), fa_fmt(I2)]) == tested, "the slots tested for None are inner[%s] (expected exactly the two yielded slots)" % "], inner[".join(tested), where=cn.where())
                fs = fa.state_at((pos[0], len(cn.blocks[pos[0]].stmts)))
                a1, a2 = fs.get(("f", "idx1"), I1), fs.get(("f", "idx2"), I2)
                ck.ob("STATE", "combinations/advance-after-yield", a1 == I1 and a2 == plus(I2, 1), "after yielding a pair the state is (idx1, idx2) = (%s, %s) (expected (idx1, idx2 + 1))" % (fa_fmt(a1), fa_fmt(a2)), where=cn.where(st.line))
            # recursion sites: how the state advances when a slot is skipped / a row is finished
            recs = [(bi, t) for bi, t in cn.calls() if t.callee.res == cn.id]
            adv = []
            for bi, t in recs:
                fs = fa.calls.get(bi, {})
                adv.append((fa_fmt(fs.get(("f", "idx1"), I1)), fa_fmt(fs.get(("f", "idx2"), I2)), t.line))
            want_skip = (fa_fmt(I1), fa_fmt(plus(I2, 1)))
            want_row = (fa_fmt(plus(I1, 1)), fa_fmt(plus(I1, 2)))
            other = [a for a in adv if (a[0], a[1]) not in (want_skip, want_row)]
            if not recs:
                ck.undecided("STATE", "combinations/advance", "no recursive continuation found (the iterator is written as a loop?)", where=cn.where())
            else:
                ck.ob("STATE", "combinations/advance", not other and any((a[0], a[1]) == want_row for a in adv), "Combinations::next continues with the states %s (expected (idx1, idx2 + 1) after a skipped slot and (idx1 + 1, idx1 + 2) at the end of a row)" % sorted({(a[0], a[1]) for a in adv}), where=cn.where(other[0][2] if other else recs[0][1].line))
            # the guards: a row is alive while idx1 < len; within it idx2 is compared with len (Less: a pair, Equal: next row)
            lts = [(pos, st) for pos, st in cn.stmts() if st.k == "assign" and st.rv["k"] == "bin" and st.rv["op"] in ("Lt", "Ge", "Gt", "Le") and fa.operand_at(pos, st.rv["r"]) == {"LEN": _Fr(1)} and "BoundsCheck" not in str(cn.blocks[pos[0]].term.msg or "")]
            lts = [(pos, st) for pos, st in lts if not (cn.blocks[pos[0]].term.k == "assert" and cn.blocks[pos[0]].term.cond.place is not None and cn.blocks[pos[0]].term.cond.place.local == st.place.local)]
            cmpc = [(bi, t) for bi, t in cn.calls() if t.callee.method == "cmp" and len(t.args) == 2]
            if len(lts) != 1 or len(cmpc) != 1:
                ck.undecided("STATE", "combinations/guards", "the two comparisons of the state with the slice length are not recognised", where=cn.where())
            else:
                pos, st = lts[0]
                okl = st.rv["op"] == "Lt" and fa.operand_at(pos, st.rv["l"]) == I1
                cbi, ct = cmpc[0]
                f0 = set()
                if ct.args[0].place is not None and ct.args[0].place.is_local():
                    for kind_, pos_, d_ in pvn.defs(cn).get(ct.args[0].place.local, []):
                        if kind_ == "assign" and d_.rv["k"] == "ref":
                            f0 |= {e[1] for e in d_.rv["place"].fields() if e != "*" and e[0] == "f"}
                len1 = any(a[0] == "call" and a[1].endswith("::len") for a in pvn.of_operand(cn, ct.args[1])) or ("len",) in pvn.of_operand(cn, ct.args[1])
                okc = f0 == {"idx2"} and len1 and fa.field_at((cbi, len(cn.blocks[cbi].stmts)), "idx2") == I2
                ck.ob("STATE", "combinations/guards", okl and okc, "the arms are chosen on (idx1 %s len, %s.cmp(len)) (expected (idx1 < len, idx2.cmp(len)))" % (st.rv["op"] if okl else "?", "/".join(sorted(f0)) or "?"), where=cn.where(st.line))
                # which arm does what
                sw = [(sb, cn.blocks[sb].term) for sb in sorted(cn.reach) if cn.blocks[sb].term.k == "switch" and any(a[0] == "call" and a[3] == cn.id and a[4] == cbi for a in pvn.of_operand(cn, cn.blocks[sb].term.discr)) and any(a[0] == "discr" for a in pvn.of_operand(cn, cn.blocks[sb].term.discr))]
                if len(sw) == 1 and ylds and len(ylds) == 1:
                    sb, x = sw[0]
                    tg = dict(x.targets)
                    less, equal = tg.get(255, tg.get(-1)), tg.get(0)
                    ypos = ylds[0][0][0]
                    rows = [bi for bi, t in recs if (fa_fmt(fa.calls.get(bi, {}).get(("f", "idx1"), I1)), fa_fmt(fa.calls.get(bi, {}).get(("f", "idx2"), I2))) == want_row]
                    ok_arms = less is not None and equal is not None and ypos in cn.region((sb, less)) and all(r_ in cn.region((sb, equal)) for r_ in rows) and bool(rows)
                    ck.ob("STATE", "combinations/arms", ok_arms, "a pair is yielded on the arm idx2 < len, the next row is started on the arm idx2 == len" if ok_arms else "the arms for idx2 < len / idx2 == len do not hold the pair / the row advance", where=cn.where(x.line))
    cnew = prog.body("utils::Combinations::<'a, T>::new")
    if cnew is not None:
        for pos, st in cnew.stmts():
            if st.k == "assign" and st.rv["k"] == "agg" and st.rv.get("adt", "").endswith("Combinations"):
                vals = {f: o.int_value() for f, o in zip(st.rv["fields"], st.rv["ops"]) if o.kind == "const"}
                ck.ob("STATE", "combinations/start", vals.get("idx1") == 0 and vals.get("idx2") == 1, "Combinations::new starts at (idx1, idx2) = (%s, %s) (expected (0, 1))" % (vals.get("idx1"), vals.get("idx2")), where=cnew.where(st.line))
    cstl = prog.body("utils::Combinations::<'a, T>::set_to_last")
    if cstl is not None:
        fa2 = FieldAffine(cstl)
        rets = [x for x in cstl.reach if cstl.blocks[x].term.k == "return"]
        if fa2.ok and rets:
            fs = fa2.state_at((rets[0], len(cstl.blocks[rets[0]].stmts)))
            a1, a2 = fs.get(("f", "idx1")), fs.get(("f", "idx2"))
            ck.ob("STATE", "combinations/set_to_last", a1 == {"LEN": _Fr(1), (): _Fr(-1)} and a2 == {}, "set_to_last positions the iterator at (idx1, idx2) = (%s, %s) (expected (len - 1, 0): the pairs of the LAST slot with every earlier one)" % (fa_fmt(a1), fa_fmt(a2)), where=cstl.where())

    # ------------------------------------------------------------------ indicies(): a node is a LEAF iff its index is below initial_len
    # (index initial_len is the first merged cluster: `<=` reports it as an input)
    ind = prog.one(r"^stats::linkage::Linkage::<'a>::indicies$")
    if ind is not None:
        from engines import compare_switches as _cmp, relation_cases as _cases
        tests = []
        for cs in _cmp(ind, pvn):
            lf, rf = field_names(pvn.of_operand(ind, cs["l"]), "Linkage"), field_names(pvn.of_operand(ind, cs["r"]), "Linkage")
            if "initial_len" in rf and "initial_len" not in lf:
                tests.append((cs, False))
            elif "initial_len" in lf and "initial_len" not in rf:
                tests.append((cs, True))
        pushes = {bi for bi, t in ind.calls() if t.callee.method == "push"}
        if not tests or not pushes:
            ck.undecided("ROLE", "indicies/leaf-test", "the comparison of a node index with initial_len is not recognised in indicies()", where=ind.where())
        for n_, (cs, swapped) in enumerate(tests):
            cases = _cases(cs, swap=swapped)  # node index against initial_len
            pushed = {k for k, tg in cases.items() if tg is not None and any(ind.edge_dominates((cs["bb"], tg), pb) for pb in pushes)}
            ck.ob("ROLE", "indicies/leaf-test/%d" % n_, pushed == {"lt"}, "indicies() reports a node as an input when its index is %s initial_len (expected: below - index initial_len is the first merged cluster, not an input)" % (
                "/".join({"lt": "below", "eq": "equal to", "gt": "above"}[k] for k in ("lt", "eq", "gt") if k in pushed) or "never compared favourably with"), where=ind.where(cs["line"]))
        if tests:
            ck.ob("ROLE", "indicies/both-nodes", len(tests) == 2, "indicies() tests %d node(s) of every merge against initial_len (expected both: lhs and rhs)" % len(tests), where=ind.where())

    # the number of input sets is the length of the collected vector, not an iterator's size hint
    from engines import check_size_hint_counts
    check_size_hint_counts(ck, "ROLE", prog, r"^src/stats/linkage")
    ln = prog.one(r"^stats::linkage::Linkage::<'a>::new$")
    if ln is not None:
        for pos, st in ln.stmts():
            if st.k == "assign" and st.rv["k"] == "agg" and st.rv.get("adt", "").endswith("Linkage") and "initial_len" in st.rv.get("fields", []):
                o = st.rv["ops"][st.rv["fields"].index("initial_len")]
                at = pvn.of_operand(ln, o)
                lens = [a for a in at if a[0] == "call" and a[3] == ln.id and a[1].rsplit("::", 1)[-1] == "len"]
                from_sets = any(params_of(pvn.of_operand(ln, ln.blocks[a[4]].term.args[0]), ln.id) == {1} for a in lens)
                # (a size hint flowing into the count is reported by the size-hint rule above; a hint that only sizes the vector's
                # allocation also shows up in the provenance of `sets.len()` and is not a defect)
                if not lens:
                    ck.undecided("ROLE", "new/initial_len", "origin of initial_len not recognised (no len() of a collection)", where=ln.where(st.line))
                else:
                    ck.ob("ROLE", "new/initial_len", from_sets, "Linkage::new takes the number of input sets from the length of %s" % ("the collected input" if from_sets else "another collection"), where=ln.where(st.line))

    ck.rule("CTOR", "in a struct literal, the field `f` of a function with a parameter `f` derives from that parameter (DESIGN 3.9)")
    from engines import check_ctors
    check_ctors(ck, "CTOR", prog, r"^src/stats/linkage", floor=3)
    # container methods of the wrapper types answer with the same-named method of one inner collection
    ck.rule("WRAPPER", "len / is_empty / contains / get / iter / push ... of a wrapper type delegate to the same-named method of ONE inner collection, un-negated (DESIGN 3.9)")
    from engines import check_wrappers
    check_wrappers(ck, "WRAPPER", prog, r"^src/stats/linkage", floor=5)
    # iterators that turn one inner item into one item of their own never answer None while the inner iterator still has items
    ck.rule("MAPITER", "a hand-written mapping iterator returns None only on the inner iterator's exhaustion (no early end on a failed lookup)")
    from engines import check_mapping_iterators
    check_mapping_iterators(ck, "MAPITER", prog, r"^src/stats/linkage/cluster\.rs$", floor=2)
