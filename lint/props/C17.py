"""C17 - hierarchical clustering (clauses: SELECT on the merge step and the linkage update functions, GUARD on mean)"""
import re
from engines import classify_selection, float_div_sites
from prov import Prov, params_of

CLAIM = ("(SELECT) the merge step (`closest_clusters`) selects the pair with the MINIMUM distance component; the update function handed to the "
         "arithmetic clustering by `Linkage::single` is a min selection, by `Linkage::complete` a max selection, and by `Linkage::average` the "
         "mean (a+b)/2 of its two arguments (GUARD: constant divisor 2).")
NOT_DECIDED = "dendrogram validity, index bookkeeping, the union linkage and the number of distance-callback calls (loop invariants over runtime state)."

LINK = "stats::linkage::Linkage::<'a>::"


def update_fn(prog, pv, body):
    """the fn item / closure passed to arithmetic_cluster by a Linkage constructor"""
    for bi, t in body.calls():
        if t.callee.res and t.callee.res.endswith("::arithmetic_cluster") and len(t.args) >= 2:
            cid = pv.closure_of_operand(body, t.args[1])
            if cid in prog.bodies:
                return prog.bodies[cid], t
    return None, None


def run(ck, prog, ctx):
    ck.rule("SELECT", "direction of a two-way selection from (comparison op, operand returned on the true edge) (DESIGN 3.10)")
    ck.rule("GUARD", "constant non-zero divisor")
    pv = Prov(prog, bind_closures=False, inline=False)
    n = 0
    # ---- merge step
    cc = prog.body(LINK + "closest_clusters")
    found = False
    hosts = [cc] if cc is not None else [b for b in prog.production() if b.id.startswith("stats::linkage::") and b.kind in ("Fn", "AssocFn")]
    for host in hosts:
        for bi, t in host.calls():
            if t.callee.method in ("reduce", "min_by", "max_by", "fold") and t.callee.trait == "std::iter::Iterator":
                cid = None
                for a in t.args[1:]:
                    cid = pv.closure_of_operand(host, a) or cid
                if cid not in prog.bodies:
                    continue
                cb = prog.bodies[cid]
                # only reductions over the distance matrix: receiver derives from the distance_matrix field
                recv = Prov(prog).of_operand(host, t.args[0])
                if not any(a[0] == "field" and a[2] == "distance_matrix" for a in recv):
                    continue
                sel = [s for s in classify_selection(cb, pv) if s["kind"]]
                if not sel:
                    ck.undecided("SELECT", "closest/reduce", "selection closure of the merge step not recognised", where=host.where(t.line))
                    continue
                found = True
                n += 1
                ck.ob("SELECT", "closest/reduce", sel[0]["kind"] == "min", "the merge step picks the pair with the %s distance (%s)" % ("smallest" if sel[0]["kind"] == "min" else "LARGEST", sel[0]["detail"]), where=cb.where(sel[0]["line"]))
                # compared component is the distance (.1), not the key (.0)
                comps = set()
                for pos, s in cb.stmts():
                    pass
                from engines import comparisons
                for l, (op, lo, ro, cpos) in comparisons(cb, pv).items():
                    for o in (lo, ro):
                        for a in pv.of_operand(cb, o):
                            if a[0] == "param":
                                comps.add(tuple(e[1] for e in a[3] if e[0] == "f"))
                ok = comps and all(c and c[0] == "1" for c in comps)
                ck.ob("SELECT", "closest/component", bool(ok), "the comparison is made on %s" % ("the distance component (.1) of the matrix entries" if ok else "components %s, not the distance (.1)" % sorted(comps)), where=cb.where())
            elif t.callee.method in ("min_by_key", "max_by_key", "min", "max") and t.callee.trait == "std::iter::Iterator":
                recv = Prov(prog).of_operand(host, t.args[0])
                if any(a[0] == "field" and a[2] == "distance_matrix" for a in recv):
                    found = True
                    n += 1
                    ck.ob("SELECT", "closest/reduce", t.callee.method.startswith("min"), "the merge step reduces with Iterator::%s" % t.callee.method, where=host.where(t.line))
    if not found:
        ck.undecided("SELECT", "closest/reduce", "no reduction over the distance matrix recognised")
    # ---- update functions
    for ctor, want in (("single", "min"), ("complete", "max")):
        b = prog.body(LINK + ctor)
        if not ck.anchor("SELECT", "Linkage::" + ctor, b):
            continue
        fb, t = update_fn(prog, pv, b)
        if fb is None:
            ck.undecided("SELECT", ctor + "/update", "update function passed by Linkage::%s not recognised" % ctor, where=b.where())
            continue
        sel = [s for s in classify_selection(fb, pv) if s["kind"]]
        if not sel:
            ck.undecided("SELECT", ctor + "/update", "update function %s is not a recognisable two-way selection" % fb.short, where=fb.where())
            continue
        n += 1
        kinds = {s["kind"] for s in sel}
        ck.ob("SELECT", ctor + "/update", kinds == {want}, "Linkage::%s updates distances with a %s selection (%s); expected %s" % (ctor, "/".join(sorted(kinds)), fb.short, want), where=fb.where(sel[0]["line"]))
    b = prog.body(LINK + "average")
    if ck.anchor("SELECT", "Linkage::average", b):
        fb, t = update_fn(prog, pv, b)
        if fb is None:
            ck.undecided("SELECT", "average/update", "update function passed by Linkage::average not recognised", where=b.where())
        else:
            divs = [s for s in float_div_sites(fb) if s["kind"] == "div"]
            if len(divs) != 1:
                ck.undecided("SELECT", "average/update", "mean function has %d divisions" % len(divs), where=fb.where())
            else:
                d = divs[0]
                n += 1
                fv = d["den"].float_value() if d["den"].kind == "const" else None
                ck.ob("GUARD", "average/divisor", fv == 2.0, "the mean divides by %s (expected the constant 2)" % (d["den"],), where=fb.where(d["line"]))
                at = pv.of_operand(fb, d["num"])
                ps = params_of(at, fb.id)
                adds = [a for a in at if a[0] == "op" and a[1] in ("Add",)] + [a for a in at if a[0] == "call" and a[1].endswith("::add")]
                others = [a for a in at if a[0] == "op" and a[1] in ("Sub", "Mul", "Div")]
                ok = ps == {1, 2} and adds and not others
                ck.ob("SELECT", "average/update", bool(ok), "the mean's numerator is %s" % ("the sum of both arguments" if ok else "not a plain sum of both arguments (params %s)" % sorted(ps)), where=fb.where(d["line"]))
    ck.floor("SELECT", "selection sites", n, 4)

    # ---- size bookkeeping: the size of a merge is size(first node) + size(second node)
    ck.rule("ROLE", "index roles in the cluster-size bookkeeping (DESIGN 3.4)")
    pvn = Prov(prog, inline=False)
    sc = prog.body(LINK + "size_of_cluster")
    if sc is None:
        ck.undecided("ROLE", "size/indices", "private helper size_of_cluster not found")
    else:
        gets = [(bi, t) for bi, t in sc.calls() if (t.callee.res or "").endswith("ClusterVec::get")]
        guards = []
        for pos, st in sc.stmts():
            if st.k == "assign" and st.rv["k"] == "bin" and st.rv["op"] in ("Lt", "Ge", "Le", "Gt"):
                la, ra = pvn.of_operand(sc, st.rv["l"]), pvn.of_operand(sc, st.rv["r"])
                if "initial_len" in {a[2] for a in ra if a[0] == "field"} and params_of(la, sc.id) - {1}:
                    guards.append((st.place.local, params_of(la, sc.id) - {1}, st.rv["op"], pos))
        used = []
        for bi, t in gets:
            P = params_of(pvn.of_operand(sc, t.args[1]), sc.id) - {1}
            # the guard that sends this lookup to the "is an intermediate cluster" side
            gp = None
            for gl, Q, op, pos in guards:
                for sbi in sorted(sc.reach):
                    x = sc.blocks[sbi].term
                    if x.k == "switch" and x.discr.place is not None and x.discr.place.local == gl:
                        for tg in x.successors():
                            if sc.edge_dominates((sbi, tg), bi):
                                gp = Q
            used.append(P)
            ck.ob("ROLE", "size/lookup/%d" % len(used), len(P) == 1 and gp == P, "size_of_cluster looks up the cluster of `%s` on the branch that tested `%s`" % ("/".join(sc.local_name(p) for p in P) or "?", "/".join(sc.local_name(p) for p in (gp or ())) or "?"), where=sc.where(t.line))
        if len(used) == 2:
            ck.ob("ROLE", "size/both", used[0] != used[1] and used[0] | used[1] == {2, 3}, "the two lookups use %s and %s (expected idx1 and idx2)" % (sorted(sc.local_name(p) for p in used[0]), sorted(sc.local_name(p) for p in used[1])), where=sc.where())
        else:
            ck.undecided("ROLE", "size/both", "expected two cluster lookups, found %d" % len(used), where=sc.where())
        adds = [st for _, st in sc.stmts() if st.k == "assign" and st.rv["k"] == "bin" and st.rv["op"].startswith("Add")]
        ck.ob("ROLE", "size/sum", len(adds) >= 1, "the size of a merge is the SUM of the two node sizes", where=sc.where())
    nc = prog.body(LINK + "new_cluster")
    if nc is not None:
        for bi, t in nc.calls():
            if (t.callee.res or "").endswith("cluster::Cluster::new"):
                a = [pvn.of_operand(nc, x) for x in t.args]
                k0 = {tuple(e[1] for e in at[3] if e[0] == "f") for at in a[0] if at[0] == "param" and at[2] == 2}
                k1 = {tuple(e[1] for e in at[3] if e[0] == "f") for at in a[1] if at[0] == "param" and at[2] == 2}
                dist = params_of(a[2], nc.id)
                size_call = any(at[0] == "call" and at[1].endswith("size_of_cluster") for at in a[3])
                ck.ob("ROLE", "new_cluster/args", k0 == {("0",)} and k1 == {("1",)} and dist == {3} and size_call, "a merge is recorded as Cluster::new(key.%s, key.%s, %s, %s)" % ("/".join("".join(x) for x in k0), "/".join("".join(x) for x in k1), "dist" if dist == {3} else "?", "size_of_cluster(..)" if size_call else "?"), where=nc.where(t.line))
            if (t.callee.res or "").endswith("size_of_cluster"):
                a1 = {tuple(e[1] for e in at[3] if e[0] == "f") for at in pvn.of_operand(nc, t.args[1]) if at[0] == "param" and at[2] == 2}
                a2 = {tuple(e[1] for e in at[3] if e[0] == "f") for at in pvn.of_operand(nc, t.args[2]) if at[0] == "param" and at[2] == 2}
                ck.ob("ROLE", "new_cluster/size-args", a1 == {("0",)} and a2 == {("1",)}, "the size is computed for (key.0, key.1)", where=nc.where(t.line))
