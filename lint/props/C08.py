"""C08 - decoder honours v1-v3 and rejects truncated/extended/unknown (clauses: TABLE/DOM version dispatch, DOM length equality, DISPATCH version sets)"""
import re
from engines import positive_edges, enum_arms
from prov import Prov, params_of, field_names
from props import codec

CLAIM = ("(TABLE/DOM) the header reader accepts exactly the version bytes {2,3}, maps byte n to BinaryVersion::Vn, sends every other byte to an error and "
         "input without the magic to V1; BinaryVersion's ordering is the ordering of its u8 values; (DOM) in Ontology::from_bytes, Gene::try_from and "
         "Disease::from_bytes every success value is dominated by the true edge of an equality between the consumed offset and the length of the input "
         "(for the records additionally the declared total length); (DISPATCH) the ORPHA section is read for exactly {V3}, the release version for exactly "
         "{V2,V3}, and V1 term records are routed to the v1 term layout; (LAYOUT) the v2/v3 term decoder reads the fields where HpoTermInternal::as_bytes "
         "writes them, validates the input length against that record size, decodes no field conditionally on another field's value; the v1 term decoder's "
         "constant length validation equals the end of the fixed-offset part it reads.")
NOT_DECIDED = "behaviour at every truncation offset inside a section (index panics are data dependent) and that each layout decodes to exactly the described ontology.  Observation outside the property's quantifier (valid files, their prefixes and extensions, the version byte): the v2/v3 term decoder never compares the declared record length with the bytes it consumes, so a CORRUPTED record that declares length 0 makes the term iterator yield the same record forever (reported by an independent differential run on 2026-09-27; not a finding under C08 as written)."

DECODERS = {
    "Ontology::from_bytes": "ontology::Ontology::from_bytes",
    "Gene::try_from": "<annotations::gene::Gene as std::convert::TryFrom<&[u8]>>::try_from",
    "Disease::from_bytes": "annotations::disease::Disease::from_bytes",
}


def length_equalities(body, pv):
    """Eq comparisons between a consumed offset and the length of the input: list of dict(local, pos, kind)"""
    out = []
    for pos, s in body.stmts():
        if not (s.k == "assign" and s.rv["k"] == "bin" and s.rv["op"] in ("Eq", "Ne") and s.rv.get("lty") == "usize"):
            continue
        sides = [pv.of_operand(body, s.rv["l"]), pv.of_operand(body, s.rv["r"])]
        # offsets may be computed by a small helper (`section_payload(bytes, start) -> (start + 4, start + 4 + len)`): look through it
        pvi = Prov(body.prog, inline=True)
        sides_i = [pvi.of_operand(body, s.rv["l"]), pvi.of_operand(body, s.rv["r"])]

        def is_len(at):
            return (any(a[0] == "call" and re.search(r"::len$", a[1]) for a in at) or ("len",) in at) and not any(a[0] == "op" and a[1].startswith(("Add", "Mul")) for a in at)

        def is_offset(at):
            i = sides.index(at) if at in sides else None
            return any(a[0] == "op" and a[1].startswith("Add") for a in at) or (i is not None and any(a[0] == "op" and a[1].startswith("Add") for a in sides_i[i]) and any(a[0] == "call" and a[1] in body.prog.bodies for a in at))

        def advanced_by_helper(at):
            """the offset is a local that a crate helper advances through `&mut` (`next_section(&bytes, &mut cursor)` does `*cursor = start + len`)"""
            for a in at:
                if a[0] != "mutcall":
                    continue
                hb = body.prog.bodies.get(a[1])
                if hb is None:
                    continue
                pvh = Prov(body.prog, inline=False)
                for _, st in hb.stmts():
                    if st.k == "assign" and st.place.proj and st.place.proj[0] == "*" and len(st.place.proj) == 1 and 1 <= st.place.local <= len(hb.arg_names) + 1:
                        src = pvh.of_operand(hb, st.rv["op"]) if st.rv["k"] == "use" else (pvh.of_operand(hb, st.rv["l"]) | pvh.of_operand(hb, st.rv["r"]) | {("op", st.rv["op"])} if st.rv["k"] == "bin" else frozenset())
                        if any(x[0] == "op" and str(x[1]).startswith("Add") for x in src):
                            return True
            return False

        _is_offset0 = is_offset

        def is_offset(at):
            return _is_offset0(at) or (not is_len(at) and advanced_by_helper(at))

        def is_declared(at):
            return any(a[0] == "call" and a[1].endswith("u32_from_bytes") or (a[0] == "call" and "from_be_bytes" in a[1]) for a in at) and not is_offset(at)
        kind = None
        if (is_len(sides[0]) and is_offset(sides[1])) or (is_len(sides[1]) and is_offset(sides[0])):
            kind = "offset==len"
        elif (is_declared(sides[0]) and is_offset(sides[1])) or (is_declared(sides[1]) and is_offset(sides[0])):
            kind = "offset==declared"
        elif (is_len(sides[0]) and is_declared(sides[1])) or (is_len(sides[1]) and is_declared(sides[0])):
            kind = "declared==len"
        if kind:
            out.append({"local": s.place.local, "pos": pos, "kind": kind, "line": s.line, "op": s.rv["op"]})
    return out


def bool_true_edges(body, local, want=True):
    """edges on which bool `local` (or a copy of it) is true (false with want=False)"""
    out = []
    for sbi in sorted(body.reach):
        x = body.blocks[sbi].term
        if x.k != "switch" or x.discr.place is None:
            continue
        l = x.discr.place.local
        if l != local:
            # single copy
            ds = [s for _, s in body.stmts() if s.k == "assign" and s.place.is_local() and s.place.local == l]
            if not (len(ds) == 1 and ds[0].rv["k"] == "use" and ds[0].rv["op"].place is not None and ds[0].rv["op"].place.local == local):
                continue
        vals = [v for v, _ in x.targets]
        if want:
            tt = [tg for v, tg in x.targets if v == 1] or ([x.otherwise] if vals == [0] else [])
        else:
            tt = [tg for v, tg in x.targets if v == 0] or ([x.otherwise] if vals == [1] else [])
        if tt:
            out.append((sbi, tt[0]))
    return out


def success_sites(body):
    """positions where the success value of a decoder is produced: `_0 = Ok(..)` or `_0 = <call>` that is not error propagation"""
    out = []
    for pos, s in body.stmts():
        if s.k == "assign" and s.place.local == 0 and s.place.is_local() and s.rv["k"] == "agg" and s.rv.get("variant") == "Ok":
            out.append((pos, "Ok(..)", s.line))
    for bi, t in body.calls():
        if t.dest.is_local() and t.dest.local == 0 and t.callee.method != "from_residual":
            out.append(((bi, len(body.blocks[bi].stmts)), "call " + (t.callee.def_args or ""), t.line))
    return out


def none_only_when_empty(ck, prog, pvn, nb):
    """`<private iterator>::next` answers None only when the remaining input is EMPTY: every block that sets the result to None is dominated by the
    true edge of an `is_empty()` / by `len == 0` / `len < 1`; a `len < c` (c > 1) in front of a None drops up to c-1 trailing bytes unseen.
    Emits the obligation `exhaustion/<next>`; returns True / False / None (not recognised)."""
    from engines import positive_edges, compare_switches, relation_cases
    nones = [bi for bi in sorted(nb.reach) for st in nb.blocks[bi].stmts if st.k == "assign" and st.place.is_local() and st.place.local == 0 and st.rv["k"] == "agg" and st.rv.get("variant") == "None"]
    # `let (len, rest) = data.split_first_chunk::<4>()?;`: the None of a std slicer handed on by `?`.  Such a slicer answers None when FEWER
    # THAN N elements are left - for N > 1 that is not `nothing is left`
    res_blocks = [bi for bi, t in nb.calls() if t.callee.method == "from_residual" and t.dest is not None and t.dest.is_local() and t.dest.local == 0 and "Option" in (t.callee.def_args or "")]
    if res_blocks:
        NEED = {"split_first": 1, "split_last": 1, "first": 1, "last": 1}
        worst = None
        for bi, t in nb.calls():
            m_ = re.search(r"::(split_first_chunk|split_last_chunk|first_chunk|last_chunk)::<(\d+)>$", t.callee.def_args or "")
            n_ = int(m_.group(2)) if m_ else NEED.get(t.callee.method) if (t.callee.res or "").startswith("core::slice::") else None
            if n_ is None:
                continue
            # the slicer's Option is what the `?` looks at
            if any(a[0] == "call" and a[3] == nb.id and a[4] == bi for rb_ in res_blocks for a in pvn.of_operand(nb, nb.blocks[rb_].term.args[0])) or any(
                    a[0] == "call" and a[3] == nb.id and a[4] == bi for bb_, bt_ in nb.calls() if bt_.callee.method == "branch" for a in pvn.of_operand(nb, bt_.args[0])):
                worst = (n_, t) if worst is None or n_ > worst[0] else worst
        if worst is not None and worst[0] > 1:
            ck.ob("DOM", "exhaustion/%s" % nb.short, False, "%s answers `None` (end of input) when `%s` finds fewer than %d bytes: up to %d trailing byte(s) are never looked at, and a caller that takes the exhaustion for `all input consumed` accepts them" % (nb.short, worst[1].callee.method, worst[0], worst[0] - 1), where=nb.where(worst[1].line))
            return False
        if worst is None and not nones:
            ck.undecided("DOM", "exhaustion/%s" % nb.short, "%s hands a `None` on with `?`; where it comes from is not a slicer whose length demand is read here" % nb.short, where=nb.where())
            return None
    if not nones:
        return True if res_blocks else None
    verdicts = []
    for nbi in nones:
        v = None
        for cbi, ct in nb.calls():
            if ct.callee.method == "is_empty" and any(nb.edge_dominates(e, nbi) for e in positive_edges(nb, pvn, cbi)):
                v = True
        for cs in compare_switches(nb, pvn):
            lens = [any(a[0] == "call" and re.search(r"::len$", a[1]) for a in pvn.of_operand(nb, cs[k])) for k in ("l", "r")]
            if sum(lens) != 1:
                continue
            other = cs["r"] if lens[0] else cs["l"]
            c = other.int_value() if other.kind == "const" else None
            if c is None:
                continue
            cases = relation_cases(cs, swap=not lens[0])  # len against c
            stop = {k for k, tg in cases.items() if tg is not None and (tg == nbi or nb.edge_dominates((cs["bb"], tg), nbi))}
            if not stop or stop == {"lt", "eq", "gt"}:
                continue
            if (stop == {"lt"} and c == 1) or (stop == {"eq"} and c == 0) or (stop == {"lt", "eq"} and c == 0):
                v = True if v is None else v
            elif stop <= {"lt", "eq"}:
                v = False
                why = "len %s %d" % ("<" if stop == {"lt"} else "<=", c)
                ck.ob("DOM", "exhaustion/%s" % nb.short, False, "%s answers `None` (end of input) when %s: up to %d trailing byte(s) are never looked at, and a caller that takes the exhaustion for `all input consumed` accepts them" % (nb.short, why, c - 1 if stop == {"lt"} else c), where=nb.where(cs["line"]))
        verdicts.append(v)
    if any(v is False for v in verdicts):
        return False
    if all(v is True for v in verdicts):
        ck.ob("DOM", "exhaustion/%s" % nb.short, True, "%s answers `None` only when the remaining input is empty" % nb.short, where=nb.where())
        return True
    ck.undecided("DOM", "exhaustion/%s" % nb.short, "%s: the condition under which it answers `None` is not an emptiness / length test that is read here" % nb.short, where=nb.where())
    return None


def run(ck, prog, ctx):
    ck.rule("TABLE", "accepted version bytes and their mapping (DESIGN 3.12)")
    ck.rule("DOM", "success dominated by consumed == input length (DESIGN 3.6)")
    ck.rule("DISPATCH", "version sets of the gated sections evaluated over {V1,V2,V3} (DESIGN 3.11)")
    pv = Prov(prog)
    pvn = Prov(prog, inline=False)

    # ------------------------------------------------------------------ version()
    r = codec.header_reader(prog, pvn)
    if ck.anchor("TABLE", "parser::binary::ontology::version", r, private=True):
        b = r["body"]
        ck.ob("TABLE", "version/accepted", set(r["arms"]) == {2, 3}, "the header reader accepts version bytes %s (documented: 2 and 3)" % sorted(r["arms"]), where=b.where())
        for v, vs in sorted(r["arms"].items()):
            ck.ob("TABLE", "version/map/%d" % v, vs == {"V%d" % v}, "version byte %d is parsed as %s" % (v, "/".join(sorted(vs)) or "nothing"), where=b.where())
        if r.get("unknown") is not None:
            un = r["unknown"]
            ck.ob("DOM", "version/unknown->Err", un == {"Err"}, "an unknown version byte after the magic %s (decision table over %d paths)" % ("can only reach an Err" if un == {"Err"} else "can reach %s" % sorted(str(x) for x in un), r["paths"]), where=b.where())
            ck.ob("TABLE", "version/no-magic-accepted", r["no_magic_results"] <= {"Ok"}, "input without the magic ends in %s (a headerless v1 ontology must be accepted)" % sorted(str(x) for x in r["no_magic_results"]), where=b.where())
        elif r["otherwise"] is not None:
            reg = b.region(r["otherwise"])
            oks = [st for x in reg for st in b.blocks[x].stmts if st.k == "assign" and st.rv["k"] == "agg" and st.rv.get("variant") == "Ok"]
            errs = [st for x in reg for st in b.blocks[x].stmts if st.k == "assign" and st.rv["k"] == "agg" and st.rv.get("variant") == "Err"]
            ck.ob("DOM", "version/unknown->Err", not oks and bool(errs), "an unknown version byte %s" % ("can only reach an Err" if not oks and errs else "can reach a success value"), where=b.where())
        else:
            ck.undecided("DOM", "version/unknown->Err", "dispatch on the version byte not recognised", where=b.where())
        ck.ob("TABLE", "version/no-magic", r["no_magic"] == {"V1"}, "input without the magic is treated as %s (expected V1)" % (sorted(r["no_magic"]) or "?"), where=b.where())
    order = codec.version_order(prog)
    if order is None:
        ck.undecided("TABLE", "version/order", "u8 table of BinaryVersion not recognised")
    else:
        ck.ob("TABLE", "version/order", order == {"V1": 1, "V2": 2, "V3": 3}, "u8 values of BinaryVersion: %s" % order)
        cb = prog.body("<parser::binary::BinaryVersion as std::cmp::Ord>::cmp")
        if cb is not None:
            cm = [t for _, t in cb.calls() if t.callee.method == "cmp" and "u8" in (t.callee.def_args or "")]
            if len(cm) != 1:
                ck.undecided("TABLE", "version/cmp", "Ord::cmp of BinaryVersion is not a single u8 comparison", where=cb.where())
            else:
                a0 = params_of(pvn.of_operand(cb, cm[0].args[0]), cb.id)
                a1 = params_of(pvn.of_operand(cb, cm[0].args[1]), cb.id)
                conv = any(a[0] == "call" and a[1].endswith("::from") for a in pvn.of_operand(cb, cm[0].args[0]))
                ck.ob("TABLE", "version/cmp", a0 == {1} and a1 == {2} and conv, "BinaryVersion::cmp compares u8(self) with u8(other)" if a0 == {1} and a1 == {2} else "BinaryVersion::cmp compares (%s, %s)" % (sorted(a0), sorted(a1)), where=cb.where())

    # ------------------------------------------------------------------ DOM: length equality
    n_dec = 0
    for name, fid in sorted(DECODERS.items()):
        b = prog.body(fid)
        if not ck.anchor("DOM", name, b):
            continue
        n_dec += 1
        eqs = length_equalities(b, pvn)
        # `cursor.is_exhausted()`: a crate-private predicate whose whole body is `self.<position field> == <input>.len()`, where another method of
        # the same type advances that field by addition - the call's result is the equality
        for cbi, ct in b.calls():
            hb = prog.bodies.get(ct.callee.res or "")
            if hb is None or hb.kind != "AssocFn" or hb.exported or hb.natural_loops() or ct.dest is None or not ct.dest.is_local() or str(hb.locals[0].get("s", "")) != "bool":
                continue
            if any(hb.blocks[x].term.k == "switch" for x in hb.reach):
                continue
            for pos_, st_ in hb.stmts():
                if not (st_.k == "assign" and st_.rv["k"] == "bin" and st_.rv["op"] in ("Eq", "Ne") and st_.rv.get("lty") == "usize"):
                    continue
                sides_ = [pvn.of_operand(hb, st_.rv["l"]), pvn.of_operand(hb, st_.rv["r"])]
                lens_ = [any(a[0] == "call" and re.search(r"::len$", a[1]) for a in sd) for sd in sides_]
                if sum(lens_) != 1:
                    continue
                other = sides_[lens_.index(False)]
                adt_ = (hb.impl_self or {}).get("adt")
                flds = {a[2] for a in other if a[0] == "field" and a[1] == adt_}
                advanced = False
                for sib in prog.production():
                    if sib.kind == "AssocFn" and (sib.impl_self or {}).get("adt") == adt_ and sib.id != hb.id:
                        for _, ss in sib.stmts():
                            if ss.k == "assign" and ss.rv["k"] == "bin" and ss.rv["op"].startswith("Add") or (ss.k == "assign" and ss.rv["k"] == "use" and any(a[0] == "op" and str(a[1]).startswith("Add") for a in pvn.of_operand(sib, ss.rv["op"]))):
                                if any(e != "*" and e[0] == "f" and e[1] in flds for e in ss.place.fields()) or (ss.place.is_local() and any(e != "*" and e[0] == "f" and e[1] in flds for _, s2 in sib.stmts() if s2.k == "assign" and s2.rv["k"] == "use" and s2.rv["op"].place is not None and s2.rv["op"].place.local == ss.place.local for e in s2.place.fields())):
                                    advanced = True
                if flds and advanced:
                    eqs.append({"local": ct.dest.local, "pos": (cbi, 0), "kind": "offset==len", "op": st_.rv["op"]})
        edges = {}
        for e in eqs:
            for ed in bool_true_edges(b, e["local"], want=(e["op"] == "Eq")):
                edges.setdefault(e["kind"], []).append(ed)
        # `sections.next().is_none()` on a crate-private iterator over the input: the iterator's exhaustion is the end test, PROVIDED that its
        # `next` answers `None` only when nothing at all is left (judged below, `exhaustion/<iterator>`)
        from engines import positive_edges as _pe8
        for cbi, ct in b.calls():
            if ct.callee.method in ("is_none", "is_some") and len(ct.args) == 1:
                src_ = [a for a in pvn.of_operand(b, ct.args[0]) if a[0] == "call" and a[3] == b.id and a[1].endswith("::next") and a[2] in prog.bodies and prog.bodies[a[2]].impl_trait and not prog.bodies[a[2]].exported]
                if not src_ and ct.args[0].place is not None:
                    src_ = [(None, None, t2.callee.res) for b2, t2 in b.calls() if t2.callee.method == "next" and t2.callee.res in prog.bodies and prog.bodies[t2.callee.res].impl_trait and t2.dest is not None and t2.dest.is_local() and any(a[0] == "call" and a[3] == b.id and a[4] == b2 for a in pvn.of_operand(b, ct.args[0]))]
                for a in src_:
                    nb_ = prog.bodies.get(a[2])
                    if nb_ is None:
                        continue
                    verdict = none_only_when_empty(ck, prog, pvn, nb_)
                    pe_ = set(_pe8(b, pvn, cbi))
                    for sb_ in sorted(b.reach):
                        x_ = b.blocks[sb_].term
                        if x_.k == "switch" and any(e_[0] == sb_ for e_ in pe_):
                            for tg_ in x_.successors():
                                is_pos = (sb_, tg_) in pe_
                                if (ct.callee.method == "is_none") == is_pos and verdict is not False:
                                    edges.setdefault("offset==len", []).append((sb_, tg_))
        # `sections.is_empty()`: an emptiness method of a crate type that walks the input (the private iterator over the sections, or the
        # crate's own `Bytes` wrapper) which - through at most two delegating hops - answers with `is_empty()` / `len() == 0` of the slice it
        # holds.  True means: nothing is left behind what was taken so far.
        def rests_empty(tb_, depth=0):
            if tb_ is None or tb_.kind != "AssocFn" or tb_.natural_loops() or tb_.nargs != 1 or tb_.locals[0]["s"] != "bool" or depth > 2:
                return False
            rets_ = pvn.of_return(tb_)
            if any(a[0] == "op" and a[1] == "Not" for a in rets_):
                return False
            for a in rets_:
                if a[0] == "call" and a[3] == tb_.id and a[1].rsplit("::", 1)[-1] == "is_empty":
                    inner_ = prog.bodies.get(a[2]) or prog.bodies.get(a[1])
                    if inner_ is None:
                        return "[u8]" in (a[2] or "") or "slice" in (a[1] or "")
                    return rests_empty(inner_, depth + 1)
            return False
        for cbi, ct in b.calls():
            tb_ = prog.bodies.get(ct.callee.res or "")
            if tb_ is not None and ct.callee.method == "is_empty" and (tb_.file or "").startswith("src/parser/") and rests_empty(tb_) and ct.args:
                # ... of a value that walks THIS function's input
                if any(a[0] == "param" and a[1] == b.id for a in pv.of_operand(b, ct.args[0])) or any(a[0] == "call" and a[3] == b.id for a in pvn.of_operand(b, ct.args[0])):
                    for e_ in _pe8(b, pvn, cbi):
                        edges.setdefault("offset==len", []).append(e_)
        # splitter form: the decoder asks ONE crate-private function to cut the whole input into its length-prefixed sections (`sections(&bytes[..]) ->
        # Result<Vec<&[u8]>>`) and matches their number against the version.  Consumed == length is then the splitter's business: each of its
        # `Ok(..)` results stands on the true edge of an emptiness test of what is left
        splitter = None
        for cbi, ct in b.calls():
            hb = prog.bodies.get(ct.callee.res or "")
            if hb is not None and hb.kind in ("Fn", "AssocFn") and not hb.exported and re.search(r"Result<(std::vec::)?Vec<(&.*\[u8\]|parser::binary::Bytes)", str(hb.locals[0].get("s", ""))):
                splitter = (cbi, ct, hb)
        if splitter is not None and name == "Ontology::from_bytes":
            from engines import positive_edges as _pes
            cbi, ct, hb = splitter
            oks = [bi_ for bi_ in sorted(hb.reach) for st_ in hb.blocks[bi_].stmts if st_.k == "assign" and st_.place.is_local() and st_.place.local == 0 and st_.rv["k"] == "agg" and st_.rv.get("variant") == "Ok"]
            empt = [e_ for ebi, et in hb.calls() if et.callee.method == "is_empty" and et.args for e_ in _pes(hb, pvn, ebi)]
            from engines import zero_test_edges as _zte
            for z in _zte(hb, pvn, lambda at_: any(a[0] == "call" and re.search(r"::len$", a[1]) for a in at_)):
                empt += z["zero_edges"]
            good = bool(oks) and all(any(hb.edge_dominates(e_, bi_) or e_[1] == bi_ for e_ in empt) for bi_ in oks)
            ck.ob("DOM", "%s/splitter/%s" % (name, hb.short), good, "%s cuts the input into sections with %s, which answers Ok %s" % (name, hb.short, "only when nothing is left behind the last section" if good else "WITHOUT testing that nothing is left: bytes behind the last complete section (fewer than a length prefix) are accepted"), where=hb.where())
            for lab_ in ("success", "sections"):
                ck.undecided("DOM", "%s/%s/by-splitter" % (name, lab_), "%s matches the number of sections %s returned against the version: the offset-based rules (consumed == length per success value, version-gated section reads) do not apply to this form" % (name, hb.short), where=b.where(ct.line))
            ctx.setdefault("c08_splitter", True)
            continue
        rd_ = codec.ontology_reader(prog) if name == "Ontology::from_bytes" else None
        if rd_ is not None and rd_["stream"] and rd_["body"] is not b:
            # stream form: from_bytes hands its slice to a method that pulls the data out of an `std::io::Read`.  There is no consumed offset to
            # compare with a length; what takes its place, and IS decided: no read may come back short unnoticed.  `read_exact` reports a short
            # read itself; the count that `read` / `read_to_end` answer must reach a comparison (`take(len).read_to_end(..)` stops quietly at
            # the end of the data: a file cut inside the last section would load as a smaller ontology).
            from engines import private_scope as _ps8
            rb_ = rd_["body"]
            n_reads = 0
            for xb_ in _ps8(prog, rb_):
                for rbi, rt in xb_.calls():
                    if (rt.callee.trait or "") != "std::io::Read" or rt.callee.method not in ("read", "read_to_end", "read_to_string", "read_buf"):
                        continue
                    n_reads += 1
                    used = False
                    if rt.dest is not None and rt.dest.is_local():
                        for sb_ in sorted(xb_.reach):
                            for st_ in xb_.blocks[sb_].stmts:
                                if st_.k == "assign" and st_.rv["k"] == "bin" and st_.rv["op"] in ("Eq", "Ne", "Lt", "Le", "Gt", "Ge") and any(
                                        a[0] == "call" and a[3] == xb_.id and a[4] == rbi for o_ in (st_.rv["l"], st_.rv["r"]) for a in pvn.of_operand(xb_, o_)):
                                    used = True
                            x_ = xb_.blocks[sb_].term
                            if x_.k == "switch" and x_.discr.place is not None and ((x_.discr.place.is_local() and xb_.locals[x_.discr.place.local]["s"] in ("usize", "u64")) or [e for e in x_.discr.place.fields() if e != "*" and e[0] == "f"]) and any(a[0] == "call" and a[3] == xb_.id and a[4] == rbi for a in pvn.of_operand(xb_, x_.discr)):
                                used = True  # `match reader.read(..) { Ok(0) => .. }`: the count itself is switched on (not the Result's discriminant)
                            if x_.k == "call" and x_.callee.method in ("eq", "ne", "cmp", "partial_cmp", "lt", "le", "gt", "ge") and any(a[0] == "call" and a[3] == xb_.id and a[4] == rbi for o_ in x_.args for a in pvn.of_operand(xb_, o_)):
                                used = True
                    ck.ob("DOM", "%s/stream/%s/%s/count-inspected" % (name, xb_.short, rt.callee.method), used, "%s: the number of bytes that `%s` delivered %s" % (xb_.short, rt.callee.method, "is compared before the data is used" if used else "is NEVER inspected: a read that ends early (the file is shorter than a section announces) goes unnoticed and the truncated section is decoded as if it were complete"), where=xb_.where(rt.line))
            for lab_ in ("success", "sections"):
                ck.undecided("DOM", "%s/%s/by-stream" % (name, lab_), "%s hands its input to %s, which reads from an std::io::Read (%d counted reads examined): the offset-based rules (consumed == length per success value) do not apply to this form" % (name, rb_.short, n_reads), where=b.where())
            ctx.setdefault("c08_splitter", True)
            continue
        succ = success_sites(b)
        if not succ:
            ck.undecided("DOM", name + "/success", "no success value recognised", where=b.where())
        for i, (pos, what, line) in enumerate(succ):
            ok_len = any(b.edge_dominates(ed, pos[0]) for ed in edges.get("offset==len", []))
            ck.ob("DOM", "%s/success/%d/offset==len" % (name, i), ok_len,
                  "%s returns its success value (%s) %s" % (name, what[:60], "only when the consumed offset equals the input length" if ok_len else "WITHOUT being dominated by `consumed == input length`: truncated or extended input can be accepted"), where=b.where(line))
            if name != "Ontology::from_bytes":
                ok_decl = any(b.edge_dominates(ed, pos[0]) for ed in edges.get("offset==declared", []))
                ck.ob("DOM", "%s/success/%d/offset==declared" % (name, i), ok_decl, "%s: success %s" % (name, "also requires the consumed offset to equal the declared record length" if ok_decl else "does not compare the consumed offset with the declared record length"), where=b.where(line))
    ck.floor("DOM", "decoders", n_dec, 3)
    # ---- the size tests in front of the indexing fail for input that is too SHORT
    from props.layout import check_length_validation_direction as _clvd
    n_len = 0
    for rx_, par_ in ((r"<annotations::gene::Gene as std::convert::TryFrom<&\[u8\]>>::try_from$", 1), (r"^annotations::disease::Disease::from_bytes$", 1), (r"^parser::binary::term::from_bytes_v1$", 1), (r"^parser::binary::term::from_bytes_v2$", 1)):
        for db_ in prog.find(rx_):
            n_len += _clvd(ck, "DOM", prog, db_, db_.short, par_)
    ck.floor("DOM", "length tests of the record decoders", n_len, 2, soft=True)

    # ------------------------------------------------------------------ DOM: from_binary hands the WHOLE file to from_bytes
    fbin = prog.body(codec.ONT + "from_binary")
    if ck.anchor("DOM", "Ontology::from_binary", fbin):
        fam_b = prog.family(fbin)
        reads = sorted({t.callee.method for fb in fam_b for _, t in fb.calls() if t.callee.method in ("read_to_end", "read", "read_exact", "read_to_string", "read_buf", "take", "read_vectored") and "std::io" in (t.callee.name or "") + (t.callee.def_args or "")}
                       | {"fs::read" for fb in fam_b for _, t in fb.calls() if (t.callee.name or "").startswith("std::fs::read")})
        whole = bool(reads) and set(reads) <= {"read_to_end", "fs::read"}
        ck.ob("DOM", "from_binary/whole-file", whole, "from_binary reads the file with %s%s" % (", ".join(reads) or "no recognised call", "" if whole else " (expected read_to_end / fs::read only: a bounded or single read can stop before the end of the file)"), where=fbin.where())
        fbc = [(fb, bi, t) for fb in fam_b for bi, t in fb.calls() if t.callee.res == codec.ONT + "from_bytes"]
        if len(fbc) != 1:
            ck.undecided("DOM", "from_binary/all-bytes", "the call of from_bytes is not recognised", where=fbin.where())
        else:
            fb, bi, t = fbc[0]
            at = pvn.of_operand(fb, t.args[0])
            cut = sorted({a[1].rsplit("::", 1)[-1] for a in at if a[0] == "call" and a[3] == fb.id and a[1].rsplit("::", 1)[-1] in ("index", "get", "split_at", "truncate", "drain", "split_off", "take", "skip", "chunks", "first", "last", "trim_ascii", "trim_ascii_end", "trim_ascii_start", "strip_suffix", "strip_prefix")})
            ck.ob("DOM", "from_binary/all-bytes", not cut, "from_binary hands %s to from_bytes" % ("all the bytes it read" if not cut else "the bytes after `%s`" % ", ".join(cut)), where=fb.where(t.line))

    # ------------------------------------------------------------------ DOM: the record readers stop only when nothing is left
    from props import layout as _layout
    n_end = 0
    BLD = "ontology::builder::Builder::<"
    for rid in ["<parser::binary::BinaryTermBuilder<'_> as std::iter::Iterator>::next", BLD + "ontology::builder::AllTerms>::add_parent_from_bytes",
                BLD + "ontology::builder::ConnectedTerms>::add_genes_from_bytes", BLD + "ontology::builder::ConnectedTerms>::add_omim_disease_from_bytes",
                BLD + "ontology::builder::ConnectedTerms>::add_orpha_disease_from_bytes"]:
        rb = prog.body(rid)
        if not ck.anchor("DOM", rid.split("::")[-1] + " (record reader)", rb, private=(rb is None or rb.name != "next")):
            continue
        ip = 1 if rb.name == "next" else 2
        k = _layout.check_end_guards(ck, "DOM", rb.short, prog, rb, ip)
        if not k:
            ck.undecided("DOM", rb.short + "/end-guard", "no test of the remaining input recognised in %s" % rb.short, where=rb.where())
        n_end += 1
    ck.floor("DOM", "record readers examined for their end test", n_end, 3)

    # ------------------------------------------------------------------ DISPATCH: version-gated sections
    fb = codec.ontology_reader(prog)["body"]
    if fb is not None and ctx.get("c08_splitter"):
        ck.undecided("DISPATCH", "sections/by-splitter", "from_bytes matches the sections a splitter returned against the version with slice patterns: which section exists for which version is decided by their number, not by version guards around the reads", where=fb.where())
        fb = None
    if fb is not None:
        guards = codec.version_guards(prog, pvn, fb)
        gated = {}
        for g in guards:
            for (sbi, tg) in g["edges"]:
                for x in fb.region((sbi, tg)):
                    t = fb.blocks[x].term
                    if t.k == "call":
                        lab = codec.section_label(t.callee)
                        if lab:
                            gated[lab] = g["satisfied"]
                # sections on the other edge
                xsw = fb.blocks[sbi].term
                for other in xsw.successors():
                    if other != tg:
                        for x in fb.region((sbi, other)):
                            t = fb.blocks[x].term
                            if t.k == "call":
                                lab = codec.section_label(t.callee)
                                if lab:
                                    gated[lab] = g["all"] - g["satisfied"]
        all_labs = {codec.section_label(t.callee) for _, t in fb.calls()} - {None}
        for lab in sorted(all_labs):
            got = gated.get(lab, {"V1", "V2", "V3"})
            want = {"V3"} if lab == "Orpha" else {"V1", "V2", "V3"}
            ck.ob("DISPATCH", "sections/" + lab, set(got) == want, "the %s section is read for versions %s (expected %s)" % (lab, sorted(got), sorted(want)), where=fb.where())
        ck.floor("DISPATCH", "sections read by from_bytes", len(all_labs), 5)
        # a section that belongs to the version is mandatory: once the version test has passed, no path reaches the success
        # value without reading it (a truncated file must not be accepted by skipping the section)
        succ_blocks = {pos[0] for pos, what, line in success_sites(fb)}
        site_of = {}
        for bi, t in fb.calls():
            lab = codec.section_label(t.callee)
            if lab:
                site_of[lab] = bi
        for lab, rbi in sorted(site_of.items()):
            starts = [0]
            for g in guards:
                for (sbi, tg) in g["edges"]:
                    if rbi in fb.region((sbi, tg)):
                        starts = [tg]
            skipping = False
            for st0 in starts:
                reach = fb.reachable_from(st0, avoid_blocks={rbi})
                if reach & succ_blocks:
                    skipping = True
            ck.ob("DOM", "section-mandatory/" + lab, not skipping, "the %s section %s" % (lab, "is read on every path to the success value (for the versions that have it)" if not skipping else "can be SKIPPED on a path to the success value: a file truncated at that section is accepted"), where=fb.where(fb.blocks[rbi].term.line))
    hv = prog.one(r"^ontology::builder::Builder::<T>::hpo_version_from_bytes$")
    if hv is None:
        ck.undecided("DISPATCH", "release-version", "private helper hpo_version_from_bytes not found")
    else:
        guards = codec.version_guards(prog, pvn, hv)
        reads = {bi for bi, t in hv.calls() if "from_be_bytes" in (t.callee.deff or "")}
        got = None
        for g in guards:
            for (sbi, tg) in g["edges"]:
                reg = hv.region((sbi, tg))
                if reads & reg:
                    got = g["satisfied"]
                xsw = hv.blocks[sbi].term
                for other in xsw.successors():
                    if other != tg and reads & hv.region((sbi, other)):
                        got = g["all"] - g["satisfied"]
        if got is None:
            ck.ob("DISPATCH", "release-version", not guards and False, "the release version is read %s" % ("unconditionally (a v1 file has none)" if reads else "never"), where=hv.where())
        else:
            ck.ob("DISPATCH", "release-version", set(got) == {"V2", "V3"}, "the release version is read for versions %s (expected V2, V3)" % sorted(got), where=hv.where())
        # offsets returned: 0 for v1, 4 otherwise
    tb = prog.body("<term::internal::HpoTermInternal as std::convert::TryFrom<parser::binary::Bytes<'_>>>::try_from")
    if ck.anchor("DISPATCH", "impl TryFrom<Bytes> for HpoTermInternal", tb):
        done = False
        adt = prog.adts.get(codec.BV)
        names = [v["name"] for v in adt["variants"]] if adt else []
        for bi in sorted(tb.reach):
            x = tb.blocks[bi].term
            if x.k != "switch":
                continue
            at = pvn.of_operand(tb, x.discr)
            if not any(a[0] == "call" and a[1].endswith("Bytes::<'_>::version") or (a[0] == "call" and a[1].endswith("::version")) for a in at):
                continue
            routes = {}
            listed = set()
            for v, tg in x.targets:
                if v < len(names):
                    listed.add(names[v])
                    routes[names[v]] = {tb.blocks[r].term.callee.res.rsplit("::", 1)[-1] for r in tb.region((bi, tg)) if tb.blocks[r].term.k == "call" and (tb.blocks[r].term.callee.res or "").startswith("parser::binary::term::")}
            rest = [n for n in names if n not in listed]
            if tb.blocks[x.otherwise].term.k != "unreachable" or tb.blocks[x.otherwise].stmts:
                r_ = {tb.blocks[r].term.callee.res.rsplit("::", 1)[-1] for r in tb.region((bi, x.otherwise)) if tb.blocks[r].term.k == "call" and (tb.blocks[r].term.callee.res or "").startswith("parser::binary::term::")}
                for n in rest:
                    routes[n] = r_
            done = True
            want = {"V1": {"from_bytes_v1"}, "V2": {"from_bytes_v2"}, "V3": {"from_bytes_v2"}}
            ck.ob("DISPATCH", "term-layout", routes == want, "term records are routed %s" % {k: sorted(v) for k, v in sorted(routes.items())}, where=tb.where())
        if not done:
            ck.undecided("DISPATCH", "term-layout", "dispatch on the version not recognised", where=tb.where())

    # ------------------------------------------------------------------ LAYOUT: a valid record decodes to exactly the fields it encodes
    ck.rule("LAYOUT", "every optional store of a decoded field is guarded only by its own bytes: no field is decoded conditionally on another field (DESIGN 3.17)")
    from props import layout
    n_l = 0
    for db in prog.find(r"^parser::binary::term::from_bytes_v2$"):
        n_l += layout.check_field_independence(ck, "LAYOUT", prog, db, r"HpoTermInternal", db.name)
    ck.floor("LAYOUT", "optional field stores in the term decoder", n_l, 1)
    for db in prog.find(r"^parser::binary::term::from_bytes_v1$"):
        layout.check_fixed_part_validation(ck, "LAYOUT", prog, db, "term-v1")
    for db in prog.find(r"^parser::binary::term::from_bytes_v2$"):
        wb = prog.one(r"^term::internal::HpoTermInternal::as_bytes$")
        if wb is not None:
            layout.check_record_layout(ck, "LAYOUT", prog, wb, db, "HpoTermInternal", "term")
    # container methods of the wrapper types answer with the same-named method of one inner collection
    ck.rule("WRAPPER", "len / is_empty / contains / get / iter / push ... of a wrapper type delegate to the same-named method of ONE inner collection, un-negated (DESIGN 3.9)")
    from engines import check_wrappers
    check_wrappers(ck, "WRAPPER", prog, r"^src/parser/binary\.rs$", floor=2)
    # failures of fallible crate functions are propagated or asserted, never turned into success
    ck.rule("ERR", "every call of a crate function returning Result<_, HpoError> propagates the error (`?` / return / match), panics on it (unwrap / expect), or is a listed documented exception; none replaces it by a default")
    from engines import check_error_discipline
    check_error_discipline(ck, "ERR", prog, r"^src/parser/binary|^src/annotations/|^src/term/internal\.rs$", allowed=[(r"^Ontology::hpo$", r"try_new$", "documented: Ontology::hpo answers None for an id that is not in the ontology")], floor=2)

    # ---- what the decoder stored is what the accessors hand out: a flag getter is that flag alone
    ck.rule("GETTER", "an accessor `f()` of HpoTermInternal returns the field `f` (a flag getter: that flag and nothing else)")
    from engines import check_getters
    check_getters(ck, "GETTER", prog, r"^src/term/internal\.rs$", floor=5)

