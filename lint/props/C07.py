"""C07 - binary round trip (clauses: TABLE header, section order, COVER field coverage, GUARD casts, TAINT str truncation, endianness)"""
import re
from engines import MutSummary, RefDeriv, endian_sites, positive_edges, user_root_locals, kinds_in_type, kind_of_callee
from engines import check_required_steps
from engines import check_complete_iteration
from prov import Prov, params_of, field_names
from props import codec
from engines import error_blocks

CLAIM = ("(TABLE) the magic bytes written by Ontology::metadata_as_bytes equal those compared by the reader, the written version byte is one of the "
         "reader's accepted arms and maps to a BinaryVersion for which every written section is read, the reader skips exactly magic+1 bytes; only "
         "big-endian int<->bytes conversions exist; (ORDER) the sequence of sections written by Ontology::as_bytes equals the sequence read by "
         "Ontology::from_bytes (an OMIM/ORPHA swap is silent at run time because both share a layout); (COVER) for HpoTermInternal, Gene, OmimDisease, "
         "OrphaDisease and the release version every field the encoder reads is set by the decoder path; (GUARD) every narrowing integer cast is bounded by "
         "a `min(_, c)` with c <= the target maximum; (TAINT) a byte-count truncation of `str::as_bytes()` happens only at a count validated with "
         "is_char_boundary on the same string (or obtained from char_indices / floor_char_boundary); (LAYOUT) for the term, gene, OMIM/ORPHA disease and "
         "term-parent records the byte layout of encoder and decoder agree as AFFINE expressions of the variable lengths: the encoder's declared record size "
         "equals the bytes it emits, every declared length is followed by that many elements, every offset the decoder reads (outside element loops) starts and "
         "ends on a field boundary of the encoder's layout, the element loop starts at the encoder's element block and advances by the element width, every "
         "decoded field is filled from the bytes where the encoder stored THAT field, the decoder's length validations equal the encoder's total size (with "
         "variable parts present or empty), and every optional store of a decoded field is guarded only by that field's own bytes.")
NOT_DECIDED = "observational equality after reload (values of the decoded fields on every input); the section framing of Ontology::as_bytes beyond its order."

REC = {
    "HpoTermInternal": {"owner": r"term::internal::HpoTermInternal$", "enc": ["term::internal::HpoTermInternal::as_bytes", "term::internal::HpoTermInternal::parents_as_byte"],
                        "dec": ["parser::binary::term::from_bytes_v2", "ontology::builder::Builder::<ontology::builder::AllTerms>::add_parent_unchecked"],
                        "need": {"id", "name", "obsolete", "replacement", "parents"}},
    "Gene": {"owner": r"annotations::gene::Gene$", "enc": ["annotations::gene::Gene::as_bytes"], "dec": ["<annotations::gene::Gene as std::convert::TryFrom<&[u8]>>::try_from"], "need": {"id", "name", "hpos"}},
    "OmimDisease": {"owner": r"annotations::omim_disease::OmimDisease$", "enc": ["<annotations::omim_disease::OmimDisease as annotations::disease::Disease>::as_bytes"], "dec": ["annotations::disease::Disease::from_bytes"], "need": {"id", "name", "hpos"}},
    "OrphaDisease": {"owner": r"annotations::orpha_disease::OrphaDisease$", "enc": ["annotations::disease::Disease::as_bytes"], "dec": ["annotations::disease::Disease::from_bytes"], "need": {"id", "name", "hpos"}},
}


def layout_base_local(body, pv, op):
    """the local a (re)borrowed operand denotes: follows `&mut x`, `&x`, copies"""
    cur = op.place.local if op.place is not None else None
    seen = set()
    while cur is not None and cur not in seen:
        seen.add(cur)
        ds = pv.defs(body).get(cur, [])
        nxt = None
        if len(ds) == 1 and ds[0][0] == "assign":
            rv = ds[0][2].rv
            if rv["k"] == "ref":
                nxt = rv["place"].local
            elif rv["k"] == "use" and rv["op"].place is not None:
                nxt = rv["op"].place.local
        if nxt is None:
            return cur
        cur = nxt
    return cur


def run(ck, prog, ctx):
    ck.rule("TABLE", "agreement of writer and reader constants (DESIGN 3.12)")
    ck.rule("ORDER", "section sequence of writer = section sequence of reader")
    ck.rule("COVER", "encoder-read fields ⊆ decoder-set fields (DESIGN 3.13 a)")
    ck.rule("GUARD", "narrowing casts bounded (DESIGN 3.5)")
    ck.rule("TAINT", "str byte truncation only at a validated char boundary (DESIGN 3.14)")
    pv = Prov(prog)
    pvn = Prov(prog, inline=False)
    ms = MutSummary(prog)

    # ------------------------------------------------------------------ TABLE: header
    w = codec.header_writer(prog, pvn)
    r = codec.header_reader(prog, pvn)
    if ck.anchor("TABLE", "Ontology::metadata_as_bytes (header writer)", w, private=True) and ck.anchor("TABLE", "parser::binary::ontology::version (header reader)", r, private=True):
        if not w["magic"] and r["magic"]:
            # is the magic written in another spelling (pushed byte by byte, a named constant handed on)?  Every u8 constant of the writer and of
            # the constants it names is collected; if the reader's magic bytes are not among them, the writer emits no magic at all
            seen_u8 = set()
            for fb_ in prog.family(w["body"]):
                for _, st_ in fb_.stmts():
                    if st_.k == "assign":
                        for o_ in (st_.ops or []):
                            if o_.kind == "const" and o_.int_value() is not None and 0 <= o_.int_value() < 256:
                                seen_u8.add(o_.int_value())
                for _, t_ in fb_.calls():
                    for o_ in t_.args:
                        if o_.kind == "const" and o_.int_value() is not None and 0 <= o_.int_value() < 256:
                            seen_u8.add(o_.int_value())
                        ac_ = codec.array_consts(prog, pvn, fb_, o_) if o_.kind != "const" or o_.int_value() is None else None
                        if ac_:
                            seen_u8 |= set(ac_)
            if not (set(r["magic"]) <= seen_u8):
                ck.ob("TABLE", "header/magic", False, "the reader expects the magic %s; the header writer emits none of it (bytes it can emit: %s): a file written by this version is read back as a headerless v1 file" % (r["magic"], sorted(seen_u8)[:12]), where=w["body"].where())
            else:
                ck.undecided("TABLE", "header/magic", "magic bytes not recognised (writer %s, reader %s)" % (w["magic"], r["magic"]))
        elif not w["magic"] or not r["magic"]:
            ck.undecided("TABLE", "header/magic", "magic bytes not recognised (writer %s, reader %s)" % (w["magic"], r["magic"]))
        else:
            ck.ob("TABLE", "header/magic", w["magic"] == r["magic"], "writer emits magic %s, reader compares with %s" % (w["magic"], r["magic"]), where=w["body"].where())
            ck.ob("TABLE", "header/order", [x[0] for x in w["order"]] == ["magic", "version"], "the writer emits magic then version", where=w["body"].where())
        if w["version"] is None or not r["arms"]:
            ck.undecided("TABLE", "header/version", "version byte not recognised (writer %s, reader arms %s)" % (w["version"], r["arms"]))
        else:
            acc = w["version"] in r["arms"]
            ck.ob("TABLE", "header/version-accepted", acc, "writer emits version byte %d, reader accepts %s" % (w["version"], sorted(r["arms"])), where=w["body"].where())
            if acc:
                bvs = r["arms"][w["version"]]
                # every written section must be read for that version: evaluate the version guards of from_bytes
                fb = codec.ontology_reader(prog)["body"]
                ok = True
                detail = []
                if fb is not None and len(bvs) == 1:
                    v = next(iter(bvs))
                    for g in codec.version_guards(prog, pvn, fb):
                        for (sbi, tg) in g["edges"]:
                            region = fb.region((sbi, tg))
                            labs = [codec.section_label(fb.blocks[x].term.callee) for x in region if fb.blocks[x].term.k == "call"]
                            labs = [l for l in labs if l]
                            if labs:
                                detail.append("%s read iff version %s %s -> %s" % (labs, g["op"], g["const"], sorted(g["satisfied"])))
                                if v not in g["satisfied"]:
                                    ok = False
                    ck.ob("TABLE", "header/version-sections", ok, "written version %d is parsed as %s: %s" % (w["version"], v, "; ".join(detail) or "no version-gated section"), where=fb.where())
                else:
                    ck.undecided("TABLE", "header/version-sections", "reader arm of the written version builds %s" % sorted(bvs))
        if w["magic"] and r["payload_offsets"]:
            ck.ob("TABLE", "header/payload-offset", r["payload_offsets"] == {len(w["magic"]) + 1}, "reader skips %s byte(s) for a %d-byte magic + 1 version byte" % (sorted(r["payload_offsets"]), len(w["magic"])), where=r["body"].where())

    # ------------------------------------------------------------------ endianness
    alls = endian_sites(prog)
    bad = [(b, t) for (b, t, f) in alls if f != "be"]
    for b, t in bad:
        ck.violation("TABLE", "endian/%s/%s" % (b.short, t.callee.method), "non-big-endian byte conversion %s" % t.callee.def_args, where=b.where(t.line))
    ck.ob("TABLE", "endian/all", not bad, "%d int<->bytes conversion sites in production code, %d not big-endian" % (len(alls), len(bad)))
    ck.floor("TABLE", "endian conversion sites", len(alls), 10)

    # ------------------------------------------------------------------ ORDER
    ab = prog.body(codec.ONT + "as_bytes")
    fb = codec.ontology_reader(prog)["body"]
    if ck.anchor("ORDER", "Ontology::as_bytes", ab) and ck.anchor("ORDER", "Ontology::from_bytes", fb):
        def seq(b):
            sites = [(bi, codec.section_label_of_call(prog, pvn, b, t)) for bi, t in b.calls()]
            sites = [(bi, l) for bi, l in sites if l]
            blocks = codec.dominance_order(b, [bi for bi, _ in sites])
            lab = dict(sites)
            return [lab[x] for x in blocks]
        ws, rs = seq(ab), seq(fb)
        ck.ob("ORDER", "sections", ws == rs and len(ws) >= 5, "writer sections %s, reader sections %s" % (ws, rs), where=ab.where())
        # each section is emitted from the matching collection
        for bi, t in ab.calls():
            lab = codec.section_label_of_call(prog, pvn, ab, t)
            if lab in ("Gene", "Omim", "Orpha"):
                at = pv.of_operand(ab, t.args[0])
                fl = field_names(at, "::Ontology") & {"genes", "omim_diseases", "orpha_diseases"}
                want = {"Gene": "genes", "Omim": "omim_diseases", "Orpha": "orpha_diseases"}[lab]
                ck.ob("ORDER", "writer-source/" + lab, fl == {want}, "the %s section serialises records of self.%s" % (lab, "/".join(sorted(fl)) or "?"), where=ab.where(t.line))
        # the decoders store what they decode into the matching map
        for nm, kind, fld in (("add_genes_from_bytes", "Gene", "genes"), ("add_omim_disease_from_bytes", "Omim", "omim_diseases"), ("add_orpha_disease_from_bytes", "Orpha", "orpha_diseases")):
            db = prog.one(r"^ontology::builder::Builder::<ontology::builder::ConnectedTerms>::%s$" % nm)
            if db is None:
                ck.undecided("ORDER", "decoder/" + kind, "private helper %s not found" % nm)
                continue
            # the record loop may be a closure handed to a private driver (`for_each_record(bytes, |record| { .. })`): the steps are looked for
            # in the function and its closures
            fam_ = prog.family(db)
            inserts = [(fb_, t) for fb_ in fam_ for bi, t in fb_.calls() if t.callee.method == "insert" and "HashMap" in (t.callee.def_args or "")]
            decs = [(fb_, t) for fb_ in fam_ for bi, t in fb_.calls() if t.callee.method in ("try_from", "from_bytes") and ("annotations::" in (t.callee.def_args or ""))]
            # ... or through a private generic helper instantiated with the record type (`length_prefixed_record::<Gene>(bytes, offset)`)
            for fb_ in fam_:
                for bi, t in fb_.calls():
                    hb_ = prog.bodies.get(t.callee.res or "")
                    if hb_ is not None and hb_.kind in ("Fn", "AssocFn") and not (hb_.exported or hb_.reachable or hb_.impl_trait) and "annotations::" in (t.callee.def_args or ""):
                        if any(ht.callee.method in ("try_from", "from_bytes", "try_into") for fb2_ in prog.family(hb_) for _, ht in fb2_.calls()):
                            decs.append((fb_, t))
            links = [(fb_, t) for fb_ in fam_ for bi, t in fb_.calls() if re.search(r"::link_\w+_term$", t.callee.res or "")]
            okk = True
            why = []
            for fb_, t in inserts:
                fl = field_names(pv.of_operand(fb_, t.args[0]), "Builder") & {"genes", "omim_diseases", "orpha_diseases"}
                if fl != {fld}:
                    okk = False
                    why.append("inserts into %s" % sorted(fl))
            for fb_, t in decs:
                ks = kinds_in_type(t.callee.def_args or "")
                if ks != {kind}:
                    okk = False
                    why.append("decodes %s" % sorted(ks))
            for fb_, t in links:
                ks = kind_of_callee(t.callee)
                if ks != {kind}:
                    okk = False
                    why.append("links with %s" % t.callee.res.rsplit("::", 1)[-1])
            if decs and not (inserts and links):
                from props.shared import decoder_step_alternatives
                st_alt, pr_alt = decoder_step_alternatives(prog, pv, db, fld, {"Gene": "gene", "Omim": "omim_disease", "Orpha": "orpha_disease"}[kind])
                if (inserts or st_alt) and (links or pr_alt):
                    ck.undecided("ORDER", "decoder/" + kind, "%s decodes %s records and stores / propagates them in another form (%s): kinds of those steps not compared" % (nm, kind, "; ".join(x for x in (st_alt if not inserts else None, pr_alt if not links else None) if x)), where=db.where())
                    continue
            if not (inserts and decs and links):
                ck.ob("ORDER", "decoder/" + kind, False, "%s: decode (%d) / propagate (%d) / insert (%d) steps incomplete" % (nm, len(decs), len(links), len(inserts)), where=db.where())
            else:
                ck.ob("ORDER", "decoder/" + kind, okk, "%s decodes, propagates and stores %s records%s" % (nm, kind, "" if okk else ": " + "; ".join(why)), where=db.where())

    # every record of a collection goes into its section: the section loops of the writer iterate their collection as it is (no
    # selecting adaptor: a filter on the writer side silently drops records the reader cannot miss)
    from engines import for_loops as _for_loops, chain_filters as _chain_filters, check_every_element as _check_every
    if ab is not None:
        pvc_ = Prov(prog, inline=False, bind_closures=False)
        for i, lp in enumerate(_for_loops(ab)):
            fl = _chain_filters(ab, pvc_, lp["iter"])
            steps = {bi for bi, t in ab.calls() if bi in lp["blocks"] and t.callee.method in ("append", "extend_from_slice", "extend", "push")}
            ck.ob("ORDER", "writer-loop/%d/unfiltered" % i, not fl, "the section loop at line %s serialises %s" % (lp["line"], "every record of its collection" if not fl else "only the records that pass `%s`: the others are missing from the file" % ", ".join(fl)), where=ab.where(lp["line"]))
            if steps:
                _check_every(ck, "ORDER", "writer-loop/%d" % i, ab, lp, steps, "append the record's bytes", "the records of the section")

    check_complete_iteration(ck, "ORDER", prog, [codec.ONT + "as_bytes", "term::internal::HpoTermInternal::parents_as_byte", "term::group::HpoGroup::as_bytes", "ontology::builder::Builder::<ontology::builder::AllTerms>::add_parent_from_bytes", "ontology::builder::Builder::<ontology::builder::LooseCollection>::add_terms_from_bytes"], "the records of a section")

    if ab is not None:
        ab_calls = [t for _, t in ab.calls()]
        check_required_steps(ck, "ORDER", prog, ab, [("write section " + lab, (lambda ll: (lambda t: codec.section_label_of_call(prog, pvn, ab, t) == ll if t in ab_calls else codec.section_label(t.callee) == ll))(lab)) for lab in ("Terms", "Parents", "Gene", "Omim", "Orpha")] + [("write header", lambda t: (t.callee.res or "").endswith("::metadata_as_bytes"))])

    # ------------------------------------------------------------------ COVER
    n_rec = 0
    for name, spec in sorted(REC.items()):
        encs = [prog.body(x) for x in spec["enc"]]
        decs = [prog.body(x) for x in spec["dec"]]
        if any(x is None for x in encs) or any(x is None for x in decs):
            ck.ob("COVER", "record/" + name, False, "coverage-floor: encoder/decoder of %s not found (%s)" % (name, [x for x, b in zip(spec["enc"] + spec["dec"], encs + decs) if b is None]))
            continue
        n_rec += 1
        read = set()
        for e in encs:
            read |= codec.fields_read(prog, e, spec["owner"])
        setf = set()
        for d in decs:
            setf |= codec.decoder_fields(prog, pv, ms, d, spec["owner"], name)
        miss = (read & spec["need"]) - setf
        ck.ob("COVER", "record/%s/decoder" % name, not miss, "%s: encoder reads %s, decoder sets %s%s" % (name, sorted(read), sorted(setf), "" if not miss else "; NOT restored: %s" % sorted(miss)), where=decs[0].where())
        lost = spec["need"] - read
        ck.ob("COVER", "record/%s/encoder" % name, not lost, "%s: encoder serialises %s%s" % (name, sorted(read & spec["need"]), "" if not lost else "; NOT written: %s" % sorted(lost)), where=encs[0].where())
    ck.floor("COVER", "record types", n_rec, 4)
    # the encoder serialises each field on its own: a field that is READ for the output only under a test of ANOTHER field of the record
    # (`if self.obsolete { .. if let Some(r) = self.replacement { write r } }`) is silently left out for the records where that test fails, while
    # the decoder (field independence, LAYOUT) restores the two separately
    n_ei = 0
    for name, spec in sorted(REC.items()):
        scope_ = []
        for e in [prog.body(x) for x in spec["enc"]]:
            if e is None:
                continue
            for rid in sorted(prog.reachable_bodies([e.id])):
                rb_ = prog.bodies.get(rid)
                if rb_ is not None and not rb_.test and rb_.kind in ("Fn", "AssocFn") and (rb_.id == e.id or (not rb_.exported and not rb_.reachable and re.search(spec["owner"], (rb_.impl_self or {}).get("adt") or ""))):
                    scope_ += [z for z in prog.family(rb_) if z not in scope_]
        for b_ in scope_:
            reads_ = []
            for (bb_, si_), st_ in b_.stmts():
                pls = [o.place for o in (st_.ops or []) if o.place is not None]
                if st_.k == "assign" and st_.rv and st_.rv["k"] in ("ref", "discr", "len") and st_.rv.get("place") is not None:
                    pls.append(st_.rv["place"])
                for pl in pls:
                    for e_ in pl.fields():
                        if e_ != "*" and e_[0] == "f" and re.search(spec["owner"], e_[2]) and pl.local == 1:
                            reads_.append((bb_, e_[1], st_.line))
            for bb_, fld_, line_ in reads_:
                foreign = set()
                for sb in sorted(b_.reach):
                    x = b_.blocks[sb].term
                    if x.k != "switch" or not any(b_.edge_dominates((sb, tg), bb_) for tg in x.successors()) or all(b_.edge_dominates((sb, tg), bb_) or not b_.can_reach(tg, bb_) for tg in x.successors()) and len([tg for tg in x.successors() if b_.can_reach(tg, bb_) or tg == bb_]) > 1:
                        continue
                    fl = {e2[1] for a in pvn.of_operand(b_, x.discr) if a[0] == "field" and re.search(spec["owner"], a[1]) for e2 in [(None, a[2])]}
                    if fl and fld_ not in fl:
                        foreign |= fl
                if foreign:
                    n_ei += 1
                    ck.ob("COVER", "record/%s/encoder-independence/%s" % (name, fld_), False, "%s: `%s` is read for the output only under a test of `%s` (another field): records where that test fails are written without it, the decoder restores the two independently" % (b_.short, fld_, "/".join(sorted(foreign))), where=b_.where(line_))
    ck.extra["encoder reads under a foreign field's test"] = n_ei
    # release version
    mw = prog.body(codec.ONT + "metadata_as_bytes")
    # ---- the record types' identity as the collections see it (the encoder may sort / de-duplicate through it; the decoder stores by it)
    ck.rule("SELFCMP", "every comparison inside the PartialEq / Ord / PartialOrd impls of the annotation record types and their ids takes one operand from `self` and one from `other`")
    from engines import check_comparison_impls
    check_comparison_impls(ck, "SELFCMP", prog, r"^src/annotations/", floor=4)
    # ---- SECTION protocol of Ontology::as_bytes: every section that is collected in the scratch buffer is written as <u32 length of the buffer>
    # followed by the buffer itself.  (Where the two appends live in a helper of their own, no section shows them here: undecided.)
    ab7 = prog.body(codec.ONT + "as_bytes")
    if ab7 is not None:
        from engines import for_loops as _fl7, user_root_locals as _url7
        pv7 = Prov(prog, inline=False)
        APP = ("append", "extend_from_slice", "extend")
        secs = []
        for lp_ in _fl7(ab7):
            bufs = set()
            for bi_, t_ in ab7.calls():
                if bi_ in lp_["blocks"] and t_.callee.method in APP and t_.args and t_.args[0].place is not None:
                    bufs |= set(_url7(ab7, pv7, t_.args[0]))
            if len(bufs) == 1:
                secs.append((lp_, next(iter(bufs))))
        secs.sort(key=lambda x_: x_[0]["header"])
        in_loops = set().union(*[lp_["blocks"] for lp_, _ in secs]) if secs else set()
        rows7 = []
        for i_, (lp_, buf_) in enumerate(secs):
            ex_ = lp_["none"]
            nxt_ = secs[i_ + 1][0]["none"] if i_ + 1 < len(secs) else None
            pre = pay = False
            for bi_, t_ in ab7.calls():
                if bi_ in in_loops or t_.callee.method not in APP or len(t_.args) < 2 or not ab7.dominates(ex_, bi_) or (nxt_ is not None and ab7.dominates(nxt_, bi_)):
                    continue
                if buf_ in set(_url7(ab7, pv7, t_.args[0])):
                    continue  # an append INTO the buffer
                at_ = pv7.of_operand(ab7, t_.args[1])
                roots_ = set(_url7(ab7, pv7, t_.args[1]))
                if buf_ in roots_:
                    pay = True
                elif any(a_[0] == "call" and a_[3] == ab7.id and re.search(r"::len$", a_[1]) for a_ in at_) and any(a_[0] == "call" and "to_be_bytes" in a_[1] for a_ in at_):
                    pre = True
            rows7.append((lp_, pre, pay))
        if rows7 and not any(pre or pay for _, pre, pay in rows7):
            ck.undecided("LAYOUT", "sections/protocol", "Ontology::as_bytes collects %d section(s) in a buffer; the length prefix and the payload are not appended in its own body (a helper?): not decided" % len(rows7), where=ab7.where())
        else:
            for n_, (lp_, pre, pay) in enumerate(rows7):
                ck.ob("LAYOUT", "sections/protocol/%d" % n_, pre and pay, "section %d of Ontology::as_bytes (loop in line %s) is written %s" % (n_, lp_["line"], "as <u32 length><payload>" if pre and pay else
                      ("WITHOUT its %s: the reader cuts the stream at the wrong places" % ("length prefix" if not pre and pay else "payload" if pre and not pay else "length prefix and payload"))), where=ab7.where(lp_["line"]))
    # ---- the term decoder loop stores every term it decodes
    atb = prog.one(r"::add_terms_from_bytes$")
    if atb is not None:
        from engines import check_required_steps as _crs7
        _crs7(ck, "COVER", prog, atb, [("store the decoded term", lambda t_: (t_.callee.res or "").endswith("::add_term") or (t_.callee.res or "").endswith("Arena::insert") or ((t_.callee.res or "").startswith("<ontology::termarena::Arena as") and t_.callee.method == "extend"))])
    # ---- a two-armed branch of a record encoder writes in both arms or in neither: `if flag { res.push(1) } else { res.push(0) }` with one push gone
    # makes the record one byte short on that arm only (the declared size is computed before the branch)
    for eid in ("term::internal::HpoTermInternal::as_bytes", "annotations::gene::Gene::as_bytes", "annotations::disease::Disease::as_bytes", "term::internal::HpoTermInternal::parents_as_byte", "term::group::HpoGroup::as_bytes"):
        eb7 = prog.body(eid)
        if eb7 is None or eb7.natural_loops() and False:
            continue
        outs7 = {bi_ for bi_, t_ in eb7.calls() if t_.callee.method in ("push", "append", "extend_from_slice", "extend") and "u8" in (t_.callee.def_args or "")}
        n_br = 0
        for sb_ in sorted(eb7.reach):
            x_ = eb7.blocks[sb_].term
            if x_.k != "switch":
                continue
            succs_ = list(dict.fromkeys(x_.successors()))
            if len(succs_) != 2:
                continue
            regs_ = [set(eb7.region((sb_, tg_))) for tg_ in succs_]
            if not regs_[0] or not regs_[1] or regs_[0] & regs_[1]:
                continue
            w_ = [len(r_ & outs7) for r_ in regs_]
            # both arms come back together (neither is an early return / panic arm)
            if any(eb7.blocks[b_].term.k in ("return", "unreachable") or (eb7.blocks[b_].term.k == "call" and eb7.blocks[b_].term.target is None) for r_ in regs_ for b_ in r_):
                continue
            if any(eb7.blocks[b_].term.k == "switch" for r_ in regs_ for b_ in r_):
                continue  # nested decisions: not the plain two-armed form
            if w_[0] or w_[1]:
                n_br += 1
                ck.ob("LAYOUT", "both-arms-write/%s/%d" % (eb7.short, sb_), bool(w_[0]) == bool(w_[1]), "%s: the branch in line %s writes %s" % (eb7.short, x_.line, "in both arms" if w_[0] and w_[1] else "in ONE arm only (%d / %d output calls): the record is shorter on the other arm than its declared size" % (w_[0], w_[1])), where=eb7.where(x_.line))
    # ---- numbers put together byte by byte take consecutive bytes
    from props.layout import check_byte_assembly
    n_asm = 0
    for ab_ in sorted(prog.production(), key=lambda z: z.id):
        if ab_.kind in ("Fn", "AssocFn") and not ab_.test and re.search(r"^src/(parser/binary|annotations/|ontology/builder\.rs|lib\.rs)", ab_.file or "") and any(t_.callee.method in ("from_be_bytes", "from_le_bytes") for _, t_ in ab_.calls()):
            n_asm += check_byte_assembly(ck, "LAYOUT", prog, ab_, ab_.short)
    ck.floor("LAYOUT", "byte-by-byte assembled numbers", n_asm, 3, soft=True)
    hv = prog.one(r"^ontology::builder::Builder::<T>::hpo_version_from_bytes$")
    if mw is not None and hv is not None:
        comps = set()
        for pos, x in mw.positions():
            ops = getattr(x, "ops", None) or getattr(x, "args", [])
            for o in ops:
                if o.place is not None:
                    fs = [e for e in o.place.fields() if e != "*" and e[0] == "f"]
                    if fs and fs[0][1] == "hpo_version" and len(fs) > 1:
                        comps.add(fs[1][1])
        sets = [t for _, t in hv.calls() if (t.callee.res or "").endswith("::set_hpo_version")]
        tup = set()
        for t in sets:
            for i in ("0", "1", "2"):
                at = pvn.of_operand(hv, t.args[1], (("f", i, "tuple"),))
                # ... decoded with from_be_bytes, or (a single byte) read straight out of the input slice
                if any(a[0] == "call" and a[1].endswith("from_be_bytes") for a in at) or any(a[0] == "param" and a[1] == hv.id and re.search(r"\[u8\]|Bytes<", hv.locals[a[2]]["s"]) for a in at):
                    tup.add(i)
        if not tup and sets:
            # the decoding may sit in a helper whose result is handed to set_hpo_version: inlined provenance
            for t in sets:
                for i in ("0", "1", "2"):
                    at = pv.of_operand(hv, t.args[1], (("f", i, "tuple"),))
                    if any(a[0] == "call" and a[1].endswith("from_be_bytes") for a in at):
                        tup.add(i)
        if not comps:
            # the writer may receive the version as a parameter: components of the parameter, provided every caller passes the field
            for pos, x in mw.positions():
                ops = getattr(x, "ops", None) or getattr(x, "args", [])
                for o in ops:
                    if o.place is not None and 1 <= o.place.local <= mw.nargs and "u16, u8, u8" in mw.locals[o.place.local]["s"]:
                        fs = [e for e in o.place.fields() if e != "*" and e[0] == "f"]
                        callers_ok = all(any(a[0] == "field" and a[2] == "hpo_version" for a in pvn.of_operand(cb_, t_.args[o.place.local - 1])) for cb_, _, t_ in prog.callers_of(mw.id))
                        if fs and callers_ok:
                            comps.add(fs[0][1])
        if not comps or not tup:
            ck.undecided("COVER", "release-version", "the three components of the release version are not recognised on the %s side (writer %s, reader %s)" % ("writer" if not comps else "reader", sorted(comps), sorted(tup)), where=hv.where())
        else:
            ck.ob("COVER", "release-version", comps == {"0", "1", "2"} and tup == {"0", "1", "2"}, "writer serialises hpo_version components %s, reader restores components %s from the input" % (sorted(comps), sorted(tup)), where=hv.where())

    # ... and in the ORDER the decoder expects: year (2 bytes, big endian), month, day
    if mw is not None and hv is not None:
        def comp_of(body, op):
            cs = set()
            for a in pvn.of_operand(body, op):
                if a[0] == "param" and a[1] == body.id:
                    fs = [e for e in a[3] if e[0] == "f"]
                    if len(fs) >= 2 and fs[0][1] == "hpo_version":
                        cs.add(fs[1][1])
                    elif fs and "u16, u8, u8" in str(body.locals[a[2]].get("s", "")):
                        cs.add(fs[0][1])
            return cs
        seq = []
        okw = True
        for bi in codec.dominance_order(mw, sorted({bi for bi, t in mw.calls() if t.callee.method in ("push", "extend_from_slice", "extend", "append", "push_str") and len(t.args) == 2})):
            t = mw.blocks[bi].term
            arg = t.args[1]
            elems = None
            if arg.place is not None:
                # an array literal `&[month, day]` appends its elements in order
                l = arg.place.local
                seen_l = set()
                while l is not None and l not in seen_l:
                    seen_l.add(l)
                    ds = pvn.defs(mw).get(l, [])
                    nxt = None
                    for kind, pos, d in ds:
                        if kind == "assign" and d.rv["k"] == "agg" and d.rv.get("agg") == "array":
                            elems = d.rv["ops"]
                        elif kind == "assign" and d.rv["k"] == "ref":
                            nxt = d.rv["place"].local
                        elif kind == "assign" and d.rv["k"] in ("use", "cast") and d.rv["op"].place is not None:
                            nxt = d.rv["op"].place.local
                    l = nxt if elems is None else None
            for o in (elems if elems is not None else [arg]):
                cs = comp_of(mw, o)
                if len(cs) == 1:
                    c = next(iter(cs))
                    if not seq or seq[-1] != c:
                        seq.append(c)
                elif len(cs) > 1:
                    okw = False
        rd = {}
        for t in [t for _, t in hv.calls() if (t.callee.res or "").endswith("::set_hpo_version")]:
            for i in ("0", "1", "2"):
                idx = set()
                for a in pv.of_operand(hv, t.args[1], (("f", i, "tuple"),)):
                    if a[0] == "call" and a[1].endswith("::index") and a[3] == hv.id:
                        it = hv.blocks[a[4]].term
                        if len(it.args) == 2 and it.args[1].int_value() is not None:
                            idx.add(it.args[1].int_value())
                        elif len(it.args) == 2:
                            for x in pvn.of_operand(hv, it.args[1]):
                                if x[0] == "const" and re.match(r"^\d+_usize$", str(x[2])):
                                    idx.add(int(str(x[2]).split("_")[0]))
                if idx:
                    rd[i] = idx
        if not okw or len(seq) < 3 or len(rd) < 3:
            ck.undecided("ORDER", "release-version/positions", "byte positions of the release version not recognised (writer order %s, reader indices %s)" % (seq, {k: sorted(v) for k, v in rd.items()}), where=mw.where())
        else:
            r_order = [k for k, v in sorted(rd.items(), key=lambda kv: min(kv[1]))]
            ck.ob("ORDER", "release-version/positions", seq == r_order, "the encoder appends the release version as components %s, the decoder reads components %s from ascending byte positions %s%s" % (seq, r_order, [sorted(rd[k]) for k in r_order], "" if seq == r_order else ": the components come back exchanged"), where=mw.where())

    # ------------------------------------------------------------------ GUARD: narrowing casts
    W = {"u8": 8, "u16": 16, "u32": 32, "u64": 64, "usize": 64, "u128": 128, "i8": 8, "i16": 16, "i32": 32, "i64": 64, "isize": 64}
    ncast = 0
    for b in sorted(prog.production(), key=lambda b: b.id):
        for pos, s in b.stmts():
            if s.k == "assign" and s.rv["k"] == "cast" and "IntToInt" in s.rv["kind"]:
                f, t_ = s.rv["from_ty"], s.rv["ty"]
                if f in W and t_ in W and W[t_] < W[f]:
                    ncast += 1
                    at = pv.of_operand(b, s.rv["op"])
                    mins = [a for a in at if a[0] == "call" and a[1] in ("std::cmp::min", "core::cmp::min", "std::cmp::Ord::min") and a[3] in prog.bodies]
                    bound = None
                    for a in mins:
                        mt = prog.bodies[a[3]].blocks[a[4]].term
                        for x in mt.args:
                            if x.kind == "const" and x.int_value() is not None:
                                bound = x.int_value() if bound is None else min(bound, x.int_value())
                    arith = [a for a in at if a[0] == "op" and a[1].startswith(("Add", "Mul", "Shl"))]
                    ok = bound is not None and bound < (1 << W[t_]) and not arith
                    if not ok and s.rv["op"].place is not None and s.rv["op"].place.is_local():
                        # the cast operand is itself `x % c` / `x & c` with a constant that fits: bounded whatever x is
                        ds_ = pv.defs(b).get(s.rv["op"].place.local, [])
                        if len(ds_) == 1 and ds_[0][0] == "assign" and ds_[0][2].rv["k"] == "bin" and ds_[0][2].rv["op"] in ("Rem", "BitAnd") and ds_[0][2].rv["r"].kind == "const":
                            c_ = ds_[0][2].rv["r"].int_value()
                            if c_ is not None and 0 < c_ <= (1 << W[t_]) - (0 if ds_[0][2].rv["op"] == "Rem" else 1):
                                ok, bound = True, c_
                    via_helper = any(a[0] == "call" and a[3] == b.id and a[1] in prog.bodies and prog.bodies[a[1]].kind in ("Fn", "AssocFn") and prog.bodies[a[1]].locals[0]["s"] in W for a in pvn.of_operand(b, s.rv["op"]))
                    if not ok and bound is None and via_helper:
                        ck.undecided("GUARD", "cast/%s/%s->%s" % (b.short, f, t_), "%s: the cast value is computed by a helper whose bound is not recognised" % b.short, where=b.where(s.line))
                        continue
                    ck.ob("GUARD", "cast/%s/%s->%s" % (b.short, f, t_), ok, "%s: `as %s` of a %s value %s" % (b.short, t_, f, "bounded by min(_, %d)" % bound if ok else "is not bounded: the length byte can wrap"), where=b.where(s.line))
    ck.floor("GUARD", "narrowing casts", ncast, 2)

    # ------------------------------------------------------------------ TAINT: truncation of str bytes
    sinks = []
    for b in sorted(prog.production(), key=lambda b: b.id):
        if b.kind not in ("Fn", "AssocFn", "Closure"):
            continue
        for bi, t in b.calls():
            c = t.callee
            cnt = None
            src = None
            if c.method == "take" and c.trait == "std::iter::Iterator" and len(t.args) == 2:
                src, cnt = t.args[0], t.args[1]
            elif c.trait == "std::ops::Index" and re.search(r"RangeTo<usize>|Range<usize>|RangeToInclusive<usize>", c.def_args or "") and len(t.args) == 2:
                src, cnt = t.args[0], t.args[1]
            elif c.method in ("truncate", "split_at", "get") and len(t.args) == 2 and re.search(r"RangeTo|usize", c.def_args or "") and not re.search(r"RangeFrom<", c.def_args or ""):
                # (`get(n..)` keeps the tail: it is not a truncation to a byte budget)
                src, cnt = t.args[0], t.args[1]
            if src is None:
                continue
            # `&bytes[..n]`: the count is the end operand of the range aggregate
            if cnt.place is not None and cnt.place.is_local():
                for k_, p_, d_ in pvn.defs(b).get(cnt.place.local, []):
                    if k_ == "assign" and d_.rv["k"] == "agg" and re.search(r"::Range(To|ToInclusive)?$", d_.rv.get("adt", "")) and d_.rv["ops"]:
                        cnt = d_.rv["ops"][-1]
            sat = pvn.of_operand(b, src)
            if not any(a[0] == "call" and a[1].endswith("str>::as_bytes") for a in sat):
                continue
            sinks.append((b, bi, t, src, cnt))
    for n, (b, bi, t, src, cnt) in enumerate(sinks):
        cat = pvn.of_operand(b, cnt)
        # sanitised: count derives from char_indices / floor_char_boundary, or a positive is_char_boundary edge on the same count dominates
        safe_src = any(a[0] == "call" and re.search(r"char_indices|floor_char_boundary|len_utf8", a[1]) for a in cat)
        # the count is the result of a crate-local helper that validates with is_char_boundary (seen through inlining): the helper's
        # result is a boundary of ITS string argument - accepted when that argument is the same string that is cut here
        cat_inl = pv.of_operand(b, cnt)
        helper_calls = [a for a in cat if a[0] == "call" and a[3] == b.id and a[1] in prog.bodies and prog.bodies[a[1]].kind in ("Fn", "AssocFn")]
        if helper_calls and (any(a[0] == "call" and re.search(r"is_char_boundary|char_indices|floor_char_boundary", a[1]) for a in cat_inl)
                             or any(ct_.callee.method in ("is_char_boundary", "char_indices", "floor_char_boundary") for a in helper_calls for fb_ in prog.family(prog.bodies[a[1]]) for _, ct_ in fb_.calls())):
            safe_src = True
        validated = False
        roots = set()
        if cnt.place is not None:
            roots = user_root_locals(b, pvn, cnt)
        for cbi, ct in b.calls():
            if ct.callee.method == "is_char_boundary" and len(ct.args) == 2:
                iroots = user_root_locals(b, pvn, ct.args[1]) if ct.args[1].place is not None else set()
                if not roots or not (roots & iroots):
                    continue
                for e in positive_edges(b, pvn, cbi):
                    if b.edge_dominates(e, bi):
                        # the count is not modified after the validation
                        region = b.region(e)
                        redefs = [pos for pos, s in b.stmts() if pos[0] in region and s.k == "assign" and s.place.is_local() and s.place.local in roots]
                        if not redefs:
                            validated = True
        if validated and roots:
            # no use of the count before it was validated (declared length, capacity, length byte must all see the final value)
            vedges = []
            check_loops = []
            for cbi, ct in b.calls():
                if ct.callee.method == "is_char_boundary" and len(ct.args) == 2:
                    for e in positive_edges(b, pvn, cbi):
                        if b.edge_dominates(e, bi):
                            vedges.append(e)
                    lp = b.loop_of(cbi)
                    if lp:
                        check_loops.append(lp[1])
            early = []
            for pos, st in b.stmts():
                if st.k != "assign":
                    continue
                reads = [o for o in st.ops if o.place is not None and o.place.local in roots]
                if st.rv["k"] in ("ref",) and st.rv["place"].local in roots and not st.rv.get("mut"):
                    reads.append(st)
                if not reads:
                    continue
                if any(pos[0] in lp for lp in check_loops):
                    continue
                if not any(b.edge_dominates(e, pos[0]) for e in vedges):
                    # the statement that initialises the count reads other things, not the count itself
                    early.append((pos, st))
            owner0 = prog.bodies[b.root].short if b.kind == "Closure" and b.root in prog.bodies else b.short
            ck.ob("TAINT", "count-used-before-validation/%s" % owner0, not early,
                  "%s uses the byte count only after it was moved to a char boundary" % owner0 if not early else
                  "%s reads the byte count (line %s) BEFORE it is moved to a char boundary: declared length / capacity and the bytes written disagree" % (owner0, early[0][1].line), where=b.where(t.line))
        whole = any(a[0] == "call" and a[1].endswith("::len") for a in cat) and not any(a[0] == "call" and a[1].endswith("cmp::min") for a in cat) and not any(a[0] == "const" for a in cat)
        ok = safe_src or validated or whole
        owner = prog.bodies[b.root].short if b.kind == "Closure" and b.root in prog.bodies else b.short
        ck.ob("TAINT", "truncate/%s/%d" % (owner, len([1 for x in sinks[:n] if x[0].id == b.id])), ok,
              "%s cuts the UTF-8 bytes of a str at %s" % (owner, "a validated char boundary" if ok else "a byte count that is not validated with is_char_boundary: a multi-byte character can be split and the loader rejects the bytes"),
              where=b.where(t.line))
    ck.floor("TAINT", "str byte truncation sinks", len(sinks), 2, soft=bool(sinks))

    # ------------------------------------------------------------------ LAYOUT: decoded fields are independent of each other
    ck.rule("LAYOUT", "byte offsets of the record codecs as affine expressions of the decoded length fields; every optional store of a decoded field is guarded only by its own bytes (DESIGN 3.17)")
    from props import layout
    n_l = 0
    for rx, owner in ((r"^parser::binary::term::from_bytes_v2$", r"HpoTermInternal"), (r"^parser::binary::term::from_bytes_v1$", r"HpoTermInternal")):
        for db in prog.find(rx):
            if layout.field_stores(prog, db, owner):
                n_l += layout.check_field_independence(ck, "LAYOUT", prog, db, owner, db.name)
    ck.floor("LAYOUT", "optional field stores in the term decoder", n_l, 1)

    # ------------------------------------------------------------------ LAYOUT: the decoder reads the fields where the encoder writes them
    PAIRS = [("term", r"^term::internal::HpoTermInternal::as_bytes$", r"^parser::binary::term::from_bytes_v2$", "HpoTermInternal"),
             ("gene", r"^annotations::gene::Gene::as_bytes$", r"<annotations::gene::Gene as std::convert::TryFrom<&\[u8\]>>::try_from$", "Gene"),
             ("omim", r"<annotations::omim_disease::OmimDisease as annotations::disease::Disease>::as_bytes$", r"^annotations::disease::Disease::from_bytes$", "OmimDisease|Disease"),
             ("orpha", r"<annotations::orpha_disease::OrphaDisease as annotations::disease::Disease>::as_bytes$", r"^annotations::disease::Disease::from_bytes$", "OrphaDisease|Disease"),
             ("disease-default", r"^annotations::disease::Disease::as_bytes$", r"^annotations::disease::Disease::from_bytes$", "Disease")]
    n_pairs = 0
    for lab, wrx, rrx, own in PAIRS:
        wb, rb = prog.one(wrx), prog.one(rrx)
        if wb is None or rb is None:
            continue
        k = layout.check_record_layout(ck, "LAYOUT", prog, wb, rb, own, lab)
        if k:
            n_pairs += 1
    wb, rb = prog.one(r"^term::internal::HpoTermInternal::parents_as_byte$"), prog.one(r"::add_parent_from_bytes$")
    if wb is not None and rb is not None:
        if layout.check_record_layout(ck, "LAYOUT", prog, wb, rb, "HpoTermInternal", "parents", reader_input=2, running_base=True, size_field=False):
            n_pairs += 1
    ck.floor("LAYOUT", "record codecs with an aligned writer/reader layout", n_pairs, 3, soft=True)

    # ------------------------------------------------------------------ LAYOUT: section framing in Ontology::as_bytes
    ab = prog.body("ontology::Ontology::as_bytes")
    if ck.anchor("LAYOUT", "Ontology::as_bytes", ab):
        W = layout.Writer(prog, ab, "Ontology")
        pvw = Prov(prog, inline=False)
        pvw2 = Prov(prog, inline=False, mutflow=False)
        apps = []
        for bi, t in ab.calls():
            if t.callee.method in ("append", "extend", "extend_from_slice") and len(t.args) == 2 and W._is_out_ref(t.args[0]):
                apps.append((bi, t))
        apps.sort(key=lambda x: x[0])
        # order by dominance (straight-line function: block order follows dominance for the appends to `res`)
        ok_order = all(ab.dominates(apps[i][0], apps[i + 1][0]) for i in range(len(apps) - 1))
        if not ok_order or W.out is None:
            ck.undecided("LAYOUT", "framing", "the appends to the output of Ontology::as_bytes are not a straight-line sequence", where=ab.where())
        else:
            n_sec = 0
            prev = None
            for bi, t in apps:
                w, val = W._width_of_appended(t.args[1])
                src = layout_base_local(ab, pvw2, t.args[1])
                kind = "prefix" if w is not None and layout.affine(w) == {(): 4} else "payload"
                if kind == "payload" and prev is not None and prev[0] == "prefix":
                    # the prefix must be len() of THIS buffer, read after its fill loop and before this append
                    pbi, pt, pval = prev[1], prev[2], prev[3]
                    lens = [a for a in pvw2.of_operand(ab, pval) if a[0] == "call" and a[3] == ab.id and a[1].endswith("::len")] if pval is not None else []
                    good = False
                    why = "the 4-byte prefix is not the length of a buffer"
                    for a in lens:
                        lt = ab.blocks[a[4]].term
                        lsrc = layout_base_local(ab, pvw2, lt.args[0])
                        if lsrc != src:
                            why = "the 4-byte prefix is the length of ANOTHER buffer than the one appended after it"
                            continue
                        fills = [fbi for fbi, ft in ab.calls() if ft.callee.method in ("append", "push", "extend", "extend_from_slice") and fbi not in (bi,) and layout_base_local(ab, pvw2, ft.args[0]) == src and ab.dominates(fbi, bi) and not ab.dominates(fbi, a[4])]
                        if not ab.dominates(a[4], bi):
                            why = "the length is read AFTER the buffer was appended (append empties it): the prefix is 0"
                        elif fills:
                            why = "the buffer is still being filled (line %s) after its length was read" % ab.blocks[fills[0]].term.line
                        else:
                            good = True
                    n_sec += 1
                    ck.ob("LAYOUT", "framing/section/%d" % n_sec, good, "section %d of Ontology::as_bytes: %s" % (n_sec, "a 4-byte length prefix holding the length of the buffer that follows it" if good else why), where=ab.where(t.line))
                elif kind == "payload" and prev is not None and prev[0] == "payload" and n_sec > 0:
                    ck.ob("LAYOUT", "framing/section/%d" % (n_sec + 1), False, "a section payload is appended without a length prefix before it", where=ab.where(t.line))
                    n_sec += 1
                prev = (kind, bi, t, val)
            if n_sec == 0:
                ck.undecided("LAYOUT", "framing", "no (length prefix, payload) pair appended to the output in Ontology::as_bytes itself (framing done by a helper?)", where=ab.where())
    # ---- reader side of the framing: a section header is 4 bytes, and the LAST section may be empty - then exactly 4 bytes remain.
    # The function that reads a section length must neither demand nor read more than those 4 bytes.
    fbr = codec.ontology_reader(prog)["body"]
    if fbr is not None:
        heads = []

        def u32_reads(b_, from_params):
            out = []
            for bi_, t_ in b_.calls():
                g_ = prog.bodies.get(t_.callee.res) if t_.callee.res else None
                if g_ is None or g_.kind not in ("Fn", "AssocFn") or t_.dest is None or not t_.dest.is_local() or b_.locals[t_.dest.local]["s"] != "u32" or len(t_.args) != 1:
                    continue
                if params_of(pvn.of_operand(b_, t_.args[0]), b_.id) & from_params and params_of(pvn.of_operand(b_, t_.args[0]), b_.id) <= from_params | {p for p in range(1, b_.nargs + 1) if b_.locals[p]["s"] in ("usize",)}:
                    out.append((bi_, t_, g_))
            return out
        heads = u32_reads(fbr, {1})
        if not heads:
            # the header is read by a private helper (`section_payload(&bytes, start)`): each call of the helper is a header position
            for bi, t in fbr.calls():
                h = prog.bodies.get(t.callee.res) if t.callee.res else None
                if h is None or h.kind not in ("Fn", "AssocFn") or h.reachable or h.natural_loops():
                    continue
                hp = {i + 1 for i, a in enumerate(t.args) if params_of(pvn.of_operand(fbr, a), fbr.id) == {1} and "usize" != h.locals[i + 1]["s"]}
                if not hp:
                    continue
                for _, t2, g2 in u32_reads(h, hp):
                    heads.append((bi, t, g2))
        for n, (bi, t, g) in enumerate(heads):
            demand, fixed_end = layout.length_demand(prog, g, 1)
            if fixed_end is None:
                ck.undecided("LAYOUT", "framing-reader/header/%d" % n, "%s: the bytes read by %s are not recognised" % (fbr.short, g.short), where=fbr.where(t.line))
                continue
            # only a header that can be the LAST thing in the file is bounded by 4: the others are followed by at least another header
            others = {b2 for b2, _, _ in heads if b2 != bi}
            after = fbr.reachable_from(bi, avoid_blocks=others | error_blocks(fbr))
            can_be_last = any(fbr.blocks[x].term.k == "return" for x in after)
            room = 4 if can_be_last else 8
            ok = demand <= room and fixed_end <= room
            ck.ob("LAYOUT", "framing-reader/header/%d" % n, ok, "Ontology::from_bytes reads a section length with %s, which reads %d byte(s) and demands an input of at least %d byte(s)%s" % (
                g.short, fixed_end, max(demand, fixed_end), "" if ok else (": an empty last section leaves exactly the 4 header bytes, so the library's own output is rejected" if can_be_last else ": more than this header and the next one")), where=fbr.where(t.line))
        if not heads:
            ck.undecided("LAYOUT", "framing-reader/header", "the reads of the section lengths are not recognised in Ontology::from_bytes or a private helper it calls", where=fbr.where())
