"""C14 - sub-ontologies (clauses: SIBLING inclusive modifier predicate, KIND loops, COVER copied term, ROLE induced links)"""
import re
from engines import kinds_in_type, kind_of_segment, KIND_FIELDS, KIND_FIELD_OWNERS
from engines import check_required_steps
from engines import check_complete_iteration, filter_guard_calls, positive_edges
from prov import Prov, params_of, field_names
from props.shared import membership_sites, term_fields, reductions, path_reduction_key

CLAIM = ("(SIBLING) every modifier/category membership test in the crate - HpoTerm::is_modifier, HpoTerm::categories and the phenotype filter of "
         "Ontology::sub_ontology - is made on the term's ancestors UNION the term itself; (KIND) the three re-annotation loops of sub_ontology do not "
         "cross annotation kinds, all three kinds are re-annotated, each annotate call is guarded by a non-empty intersection of the record's direct "
         "terms with the modifier-filtered id set and links the record to its direct terms intersected with the UNFILTERED retained id set; "
         "(COVER) the copied term carries id, name, obsolete flag and replacement of its source; (ROLE) induced links are add_parent(parent, term) for "
         "parents that are members of the retained id set; (SELECT) HpoTerm::path_to_ancestor, which supplies the retained chain of each leaf, reduces "
         "its candidate chains by minimal LENGTH.")
NOT_DECIDED = "shortest-chain content of the retained set, exactness of the induced links, distances in the result (graph properties of runtime data)."

SUB = "ontology::Ontology::sub_ontology"
ANNOT = {"annotate_gene": "Gene", "annotate_omim_disease": "Omim", "annotate_orpha_disease": "Orpha"}


def atom_kinds(atoms):
    """(kind, description) of kind-labelled atoms"""
    out = []
    for a in atoms:
        if a[0] == "call":
            ks = set(kinds_in_type(a[2])) | set(kinds_in_type(a[1]))
            k = kind_of_segment(a[1].rsplit("::", 1)[-1])
            if k:
                ks.add(k)
            for k in ks:
                out.append((k, a[1]))
        elif a[0] == "field" and a[2] in KIND_FIELDS and KIND_FIELD_OWNERS.search(a[1]):
            out.append((KIND_FIELDS[a[2]], "%s.%s" % (a[1], a[2])))
    return out



def _tests_emptiness(prog, body):
    pvh = Prov(prog, inline=False)
    for fb in prog.family(body):
        for bi in fb.reach:
            x = fb.blocks[bi].term
            if x.k == "switch" and any(a[0] == "call" and a[1].endswith("HpoGroup::is_empty") for a in pvh.of_operand(fb, x.discr)):
                return True
    return False


def elsewhere_guard(prog, pv, pvn, sub, fb, t):
    """the phenotype guard written somewhere else than on the path to the annotate call: (i) the call sits in a closure that sub_ontology hands to a
    private helper which tests an intersection for emptiness before it calls the closure; (ii) the term argument is taken from a set computed by a
    closure / private helper that returns the empty set when the intersection is empty.  Returns a description or None."""
    fam = prog.family(sub)
    if fb.kind == "Closure":
        for ob in fam:
            for _, ot in ob.calls():
                hb = prog.bodies.get(ot.callee.res or "")
                if hb is None or hb.kind not in ("Fn", "AssocFn") or hb.exported or hb.reachable or hb.impl_trait:
                    continue
                if any(pv.closure_of_operand(ob, a) == fb.id for a in ot.args) and _tests_emptiness(prog, hb):
                    return "the private helper %s that receives the annotating closure" % hb.short
    if len(t.args) > 3:
        for a in pv.of_operand(fb, t.args[3]):
            if a[0] == "closure" and a[1] in prog.bodies and a[1] != fb.id and _tests_emptiness(prog, prog.bodies[a[1]]):
                return "the closure at line %s that computes the terms to annotate" % prog.bodies[a[1]].where().rsplit(":", 1)[-1]
            if a[0] == "call" and a[1] in prog.bodies:
                hb = prog.bodies[a[1]]
                if hb.kind in ("Fn", "AssocFn") and not (hb.exported or hb.reachable or hb.impl_trait) and _tests_emptiness(prog, hb):
                    return "the private helper %s that computes the terms to annotate" % hb.short
    return None

def run(ck, prog, ctx):
    ck.rule("SIBLING", "all implementations of the modifier/category membership predicate test ancestors ∪ {self} (DESIGN 3.15)")
    ck.rule("KIND", "K2/K3 over the re-annotation loops (DESIGN 3.3)")
    ck.rule("COVER", "copied term covers the intrinsic fields (DESIGN 3.13 b)")
    ck.rule("ROLE", "argument roles of the induced links (DESIGN 3.4)")
    pv = Prov(prog)
    pvn = Prov(prog, inline=False)
    pv_crisp = Prov(prog, mutflow=False)

    # ------------------------------------------------------------------ SIBLING
    sites = membership_sites(prog, pv, Prov(prog, bind_closures=False))
    cnt = {}
    owners = set()
    for s in sorted(sites, key=lambda s: (s["body"].id, s["term"].line or 0)):
        b = s["body"]
        owner = prog.bodies[b.root].short if b.kind == "Closure" and b.root in prog.bodies else b.short
        owners.add(owner)
        i = cnt.get(owner, 0)
        cnt[owner] = i + 1
        if owner.endswith("sub_ontology") and b.kind == "Closure":
            # the filter of sub_ontology KEEPS a term iff its ancestors (and itself) share nothing with the modifier roots
            from engines import bool_polarity as _bp14
            pol14, _ = _bp14(b, Prov(prog, inline=False), lambda c_: c_.method == "is_empty")
            if pol14 is not None:
                ck.ob("SIBLING", "membership/%s/%d/keeps-non-modifiers" % (owner, i), pol14 == 1, "%s keeps a term %s" % (owner, "iff the intersection with the modifier roots is empty" if pol14 == 1 else "iff the intersection with the modifier roots is NOT empty (the phenotype terms are dropped, the modifiers kept)"), where=b.where(s["term"].line))
        ck.ob("SIBLING", "membership/%s/%d" % (owner, i), s["inclusive"],
              "%s tests the ontology's %s roots against %s%s" % (owner, s["root"], " ∪ ".join(s["fields"]), "" if s["inclusive"] else
                                                                 (": the DIRECT parents are read where the ancestor closure is meant, so a term deeper than one level below a %s root is not recognised" % s["root"] if "all_parents" not in s["fields"] else
                                                                  ": the term's own id is missing, so a %s root itself is not recognised (is_modifier() is true for it)" % s["root"])),
              where=b.where(s["term"].line))
    # (the two HpoTerm predicates may share one private helper: fewer sites, same coverage - `site-present` below checks each user)
    from props.shared import reaches_membership_test as _rmt
    _im = prog.body("term::hpoterm::HpoTerm::<'a>::is_modifier")
    ck.floor("SIBLING", "modifier/category membership sites", len(sites), 3, soft=bool(sites) or (_im is not None and _rmt(prog, _im) is not None))
    sub0 = prog.body(SUB)
    helpers_of_sub = set()
    if sub0 is not None:
        for fb_ in prog.family(sub0):
            for _, t_ in fb_.calls():
                tg_ = prog.bodies.get(t_.callee.res) if t_.callee.res else None
                if tg_ is not None and tg_.file == sub0.file and tg_.kind in ("Fn", "AssocFn") and tg_.vis != "public":
                    helpers_of_sub.add(tg_.short)
    for need in ("HpoTerm::<'a>::is_modifier", "HpoTerm::<'a>::categories", "Ontology::sub_ontology"):
        present = need in owners or (need == "Ontology::sub_ontology" and bool(owners & helpers_of_sub))
        if not present and need != "Ontology::sub_ontology":
            # the predicate may call a private helper of HpoTerm that holds the test
            nb_ = prog.body("term::hpoterm::" + need)
            if nb_ is not None:
                for fb_ in prog.family(nb_):
                    for _, t_ in fb_.calls():
                        tg_ = prog.bodies.get(t_.callee.res) if t_.callee.res else None
                        if tg_ is not None and not tg_.reachable and tg_.short in owners:
                            present = True
        if not present and need == "Ontology::sub_ontology":
            ck.undecided("SIBLING", "site-present/" + need, "no modifier membership test located in sub_ontology or its private helpers (different idiom?)")
            continue
        if not present:
            from props.shared import reaches_membership_test
            nb2_ = prog.body("term::hpoterm::" + need)
            # the predicate answers by testing one ROOT SET of the ontology against the other (`modifier.contains(category)`): that is a statement
            # about the two root lists, not about the ancestors of this term - and it inherits whatever the sibling predicate leaves out
            mixed = None
            if nb2_ is not None:
                role_of_ = {"modifier": "modifier", "categories": "categories"}
                for role_ in ("modifier", "categories"):
                    ab_ = prog.body("ontology::Ontology::" + role_)
                    if ab_ is not None:
                        for a_ in pv.of_return(ab_):
                            if a_[0] == "field" and a_[1].endswith("::Ontology"):
                                role_of_[a_[2]] = role_
                for fb_ in prog.family(nb2_):
                    for _, t_ in fb_.calls():
                        if (t_.callee.res == "term::group::HpoGroup::contains" or (t_.callee.trait == "std::ops::BitAnd" and "HpoGroup" in (t_.callee.def_args or ""))) and len(t_.args) == 2:
                            ats_ = [set(pv.of_operand(fb_, a_)) | {x_ for x_ in pvn.of_operand(fb_, a_) if x_[0] == "call"} for a_ in t_.args]
                            rr = [{role_of_[f] for f in field_names(at_, "::Ontology") if f in role_of_} | {r_ for r_ in ("modifier", "categories") if any(x_[0] == "call" and (x_[1] == "ontology::Ontology::" + r_ or (r_ == "categories" and x_[1].endswith("::HpoTerm::<'a>::categories") and need.endswith("is_modifier"))) for x_ in at_)} for at_ in ats_]
                            if rr[0] and rr[1] and rr[0] != rr[1] and len(rr[0]) == 1:
                                mixed = (fb_, t_, rr)
            if mixed is not None:
                ck.ob("SIBLING", "site-present/" + need, False, "%s tests the ontology's %s roots against values derived from its %s roots, not against the ancestors (and the id) of the term" % (need, "/".join(sorted(mixed[2][0])), "/".join(sorted(mixed[2][1]))), where=mixed[0].where(mixed[1].line))
                continue
            via_ = reaches_membership_test(prog, nb2_) if nb2_ is not None else None
            if via_ is not None:
                ck.undecided("SIBLING", "site-present/" + need, "%s reaches a group membership test only in %s (an idiom the membership rule does not read)" % (need, via_.short))
                continue
        ck.ob("SIBLING", "site-present/" + need, present, "membership predicate located in %s" % need if present else "coverage-floor: no membership test found in %s" % need)

    # ------------------------------------------------------------------ the modifier filter of sub_ontology INTERSECTS: an emptiness test in one of its
    # closures that reads the modifier roots and a term's ancestors is taken of a `&` (or uses contains); with `|` between the two groups the test
    # is false for every term and the filter keeps nothing / everything
    sub_f = prog.body(SUB)
    if sub_f is not None:
        for cb_ in prog.family(sub_f):
            if cb_.kind != "Closure":
                continue
            for ebi_, et_ in cb_.calls():
                if et_.callee.method != "is_empty" or not et_.args:
                    continue
                at_ = pvn.of_operand(cb_, et_.args[0])
                reads_roots = any(a_[0] == "call" and a_[1].endswith("Ontology::modifier") for a_ in at_) or "modifier" in field_names(at_, "::Ontology")
                reads_term = bool(term_fields(at_) & {"all_parents", "parents"}) or any(a_[0] == "call" and re.search(r"::all_parents$|::all_parent_ids$", a_[1]) for a_ in at_)
                if not (reads_roots and reads_term):
                    continue
                g_and = any(a_[0] == "call" and a_[3] == cb_.id and "BitAnd" in a_[2] and "HpoGroup" in a_[2] for a_ in at_)
                g_or_groups = any(a_[0] == "call" and a_[3] == cb_.id and "BitOr" in a_[2] and "HpoGroup" in a_[2] and "HpoTermId>" not in a_[2] for a_ in at_)
                if g_or_groups and not g_and:
                    ck.ob("SIBLING", "modifier-filter/operator/%s" % cb_.short, False, "%s tests the emptiness of the UNION of a term's ancestors with the modifier roots (`|` between the two groups, no `&`): the test says nothing about membership" % cb_.short, where=cb_.where(et_.line))
                elif g_and:
                    ck.ob("SIBLING", "modifier-filter/operator/%s" % cb_.short, True, "%s tests the emptiness of an intersection with the modifier roots" % cb_.short, where=cb_.where(et_.line))
    # ------------------------------------------------------------------ KIND on the re-annotation loops
    sub = prog.body(SUB)
    if not ck.anchor("KIND", "Ontology::sub_ontology", sub):
        return
    fam = prog.family(sub)
    seen_kinds = set()
    # a public Builder method that annotate_K itself hands its work to (a bulk `annotate_gene_terms(id, name, terms)`) is annotate_K for this
    # section: same record, same links, the terms arrive as one collection
    deleg_ = {}
    for m_, K_ in ANNOT.items():
        for ab_ in prog.production():
            if ab_.kind == "AssocFn" and ab_.name == m_ and "Builder" in ab_.id:
                for fb_ in prog.family(ab_):
                    for _, t_ in fb_.calls():
                        tg_ = prog.bodies.get(t_.callee.res or "")
                        if tg_ is not None and tg_.kind == "AssocFn" and tg_.impl_self == ab_.impl_self and not tg_.impl_trait and (tg_.exported or tg_.reachable) and tg_.id != ab_.id and len(t_.args) == len(tg_.locals[1:tg_.nargs + 1]) == 4:
                            deleg_[tg_.id] = m_
    ctx["c14_deleg"] = deleg_
    for fb in fam:
        for bi, t in fb.calls():
            m = t.callee.res.rsplit("::", 1)[-1] if t.callee.res else ""
            if t.callee.res in deleg_:
                m = deleg_[t.callee.res]
            if m not in ANNOT or "Builder" not in (t.callee.res or ""):
                continue
            K = ANNOT[m]
            seen_kinds.add(K)
            foreign = []
            for ai, a in enumerate(t.args[1:], 1):
                for k, what in atom_kinds(pv.of_operand(fb, a)):
                    if k != K:
                        foreign.append((ai, k, what))
            if foreign:
                # the provenance with write-through-&mut flows is an over-approximation (a memo table filled deep inside a callee smears every
                # term field into it): a foreign kind counts only if the flow-exact provenance (no &mut side flows) shows it as well
                crisp = [(ai, k, what) for ai, a in enumerate(t.args[1:], 1) for k, what in atom_kinds(pv_crisp.of_operand(fb, a)) if k != K]
                if not crisp:
                    ck.undecided("KIND", "K2/sub_ontology/%s/args" % m, "%s: %s data reaches argument %d only through values written behind &mut references (%s): an over-approximated flow, not classified" % (m, foreign[0][1], foreign[0][0], foreign[0][2]), where=fb.where(t.line))
                    foreign = None
            if foreign is not None:
              ck.ob("KIND", "K2/sub_ontology/%s/args" % m, not foreign, "%s in sub_ontology %s" % (m, "receives only %s data" % K if not foreign else "receives %s data in argument %d: %s" % (foreign[0][1], foreign[0][0], foreign[0][2])), where=fb.where(t.line))
            # guard: dominated by the non-empty edge of (record.hpo_terms() & filtered ids).is_empty()
            guards = []
            for gbi in sorted(fb.reach):
                x = fb.blocks[gbi].term
                if x.k != "switch":
                    continue
                at = pvn.of_operand(fb, x.discr)
                if not any(a[0] == "call" and a[1].endswith("HpoGroup::is_empty") for a in at):
                    continue
                full = set(pv.of_operand(fb, x.discr))
                # the group operators are taken as what they are (a result drawn from both operands), whatever their body looks like today
                # (a loop, an iterator chain with `for_each`, a merge): their operands are followed as well
                for a_ in list(at):
                    if a_[0] == "call" and re.search(r"(BitAnd|BitOr|Add|Sub)>?::(bitand|bitor|add|sub)$", a_[1]) and "HpoGroup" in a_[1] and a_[3] in prog.bodies:
                        ob_ = prog.bodies[a_[3]]
                        ot_ = ob_.blocks[a_[4]].term
                        for arg_ in ot_.args:
                            full |= set(pv.of_operand(ob_, arg_))
                ks = {k for k, _ in atom_kinds(full)}
                fam_ids = {x_.id for x_ in prog.family(sub)}
                filtered = any(a[0] == "call" and a[1].endswith("::filter") and a[3] in fam_ids for a in full)
                vals = [v for v, _ in x.targets]
                false_t = [tg for v, tg in x.targets if v == 0]
                neg = any(a[0] == "op" and a[1] == "Not" for a in at)
                from engines import bool_const_cmp as _bcc14
                for _k14, _p14, _d14 in pvn.defs(fb).get(x.discr.place.local if x.discr.place is not None else -1, []):
                    if _k14 == "assign" and _bcc14(_d14.rv) is not None and _bcc14(_d14.rv)[1] == -1:
                        neg = not neg  # `(..).is_empty() == false`
                if false_t and not neg and fb.edge_dominates((gbi, false_t[0]), bi):
                    guards.append((ks, filtered, x))
            helper_guard = None
            for gbi, gt in fb.calls():
                tgh = prog.bodies.get(gt.callee.res) if gt.callee.res else None
                if tgh is None or tgh.kind not in ("Fn", "AssocFn") or tgh.file != fb.file or "Builder" in (gt.callee.res or ""):
                    continue
                if any(fb.edge_dominates(e, bi) for e in positive_edges(fb, pvn, gbi)):
                    ak = set()
                    for a_ in gt.args:
                        ak |= {k for k, _ in atom_kinds(pv.of_operand(fb, a_))}
                    if ak == {K}:
                        helper_guard = gt
            # second idiom of the same guard:  record.hpo_terms()...iter().any(|t| phenotype_ids.contains(t))  (an existence test instead of
            # the emptiness of the materialised intersection)
            any_guard = None
            if not guards:
                for gbi, gt in fb.calls():
                    if gt.callee.trait == "std::iter::Iterator" and gt.callee.method == "any" and len(gt.args) > 1:
                        cid = pv.closure_of_operand(fb, gt.args[1])
                        cbd = prog.bodies.get(cid) if cid else None
                        if cbd is None or not any((ct.callee.res or "").endswith("HpoGroup::contains") for cx in prog.family(cbd) for _, ct in cx.calls()):
                            continue
                        if any(fb.edge_dominates(e, bi) for e in positive_edges(fb, pvn, gbi)):
                            any_guard = (gbi, gt, cbd)
            if any_guard is not None:
                gbi, gt, cbd = any_guard
                ks = {k for k, _ in atom_kinds(pv_crisp.of_operand(fb, gt.args[0]))}
                fam_ids = {x_.id for x_ in prog.family(sub)}
                recv_at = set()
                for cx in prog.family(cbd):
                    for _, ct in cx.calls():
                        if (ct.callee.res or "").endswith("HpoGroup::contains"):
                            recv_at |= set(pv.of_operand(cx, ct.args[0]))
                filtered = any(a[0] == "call" and a[1].endswith("::filter") and a[3] in fam_ids for a in recv_at)
                if ks == {K} and not filtered:
                    ck.ob("KIND", "guard/sub_ontology/%s" % m, False, "%s is guarded by `any term of the %s record is contained in` a set that no filter of sub_ontology has produced: records annotated only to modifier terms are kept" % (m, K), where=fb.where(gt.line))
                elif ks == {K} and filtered:
                    ck.ob("KIND", "guard/sub_ontology/%s" % m, True, "%s is guarded by `any term of the %s record is contained in the modifier-filtered id set`" % (m, K), where=fb.where(gt.line))
                else:
                    ck.undecided("KIND", "guard/sub_ontology/%s" % m, "%s is guarded by an existence test (Iterator::any + HpoGroup::contains) whose operands are not classified (kinds %s, filtered set: %s)" % (m, sorted(ks), filtered), where=fb.where(gt.line))
            elif not guards and helper_guard is not None:
                ck.undecided("KIND", "guard/sub_ontology/%s" % m, "%s is guarded by the result of the private helper %s (which decides from the %s record's terms): the helper's test is not classified" % (m, (helper_guard.callee.res or "").rsplit("::", 1)[-1], K), where=fb.where(t.line))
            elif not guards and elsewhere_guard(prog, pv, pvn, sub, fb, t):
                ck.undecided("KIND", "guard/sub_ontology/%s" % m, "%s: the emptiness test of an intersection sits in %s, not on the path to this call: whether it keeps modifier-only records out is not classified" % (m, elsewhere_guard(prog, pv, pvn, sub, fb, t)), where=fb.where(t.line))
            elif not guards:
                ck.ob("KIND", "guard/sub_ontology/%s" % m, False, "%s is not guarded by a non-empty phenotype intersection: records annotated only to modifier terms are kept" % m, where=fb.where(t.line))
            else:
                ks, filtered, x = guards[-1]
                gat_ = pvn.of_operand(fb, x.discr)
                g_and = any(a_[0] == "call" and "BitAnd" in a_[2] and "HpoGroup" in a_[2] for a_ in gat_)
                g_or = any(a_[0] == "call" and "BitOr" in a_[2] and "HpoGroup" in a_[2] and "HpoTermId>" not in a_[2] for a_ in gat_)
                if g_or and not g_and:
                    ck.ob("KIND", "guard/sub_ontology/%s/operator" % m, False, "%s is guarded by the emptiness of a UNION (`|`) of the record's terms with the id set, not of their intersection: the test never holds for a non-empty ontology" % m, where=fb.where(x.line))
                ck.ob("KIND", "guard/sub_ontology/%s" % m, ks == {K} and filtered, "%s is guarded by the intersection of the %s record's terms with the %s id set" % (m, "/".join(sorted(ks)), "modifier-filtered" if filtered else "UNFILTERED"), where=fb.where(x.line))
            # link set: the term argument comes from record.hpo_terms() & (unfiltered ids)
            tat = pv.of_operand(fb, t.args[3]) if len(t.args) > 3 else frozenset()
            has_and = any(a[0] == "call" and "BitAnd" in a[2] and "HpoGroup" in a[2] for a in tat)
            fam_ids = {x_.id for x_ in prog.family(sub)}
            filt = any(a[0] == "call" and a[1].endswith("::filter") and a[3] in fam_ids for a in tat)  # a filter inside the set operators' own code is not the modifier filter
            has_or = any(a[0] == "call" and "BitOr" in a[2] and "HpoGroup" in a[2] and a[3] in fam_ids for a in tat)
            if not has_and and has_or:
                ck.ob("KIND", "links/sub_ontology/%s" % m, False, "%s links the record to the UNION of its direct terms and the retained ids (`|` where the intersection `&` is meant): the copy is linked to every retained term" % m, where=fb.where(t.line))
            elif not has_and:
                ck.undecided("KIND", "links/sub_ontology/%s" % m, "link set is not an intersection of group sets", where=fb.where(t.line))
            else:
                ck.ob("KIND", "links/sub_ontology/%s" % m, not filt, "%s links the record to its direct terms ∩ %s" % (m, "all retained ids" if not filt else "the modifier-FILTERED ids (modifier links are lost)"), where=fb.where(t.line))
    for m, K in sorted(ANNOT.items()):
        if K not in seen_kinds:
            from engines import private_scope
            far = [xb for xb in private_scope(prog, sub) if any((t_.callee.res or "").endswith("::" + m) for _, t_ in xb.calls())]
            if far:
                ck.undecided("KIND", "K3/sub_ontology/" + m, "sub_ontology re-annotates %s records in private code outside its own body (%s): the kind / guard / link rules of this section read the body only" % (K, far[0].short), where=sub.where())
                continue
        ck.ob("KIND", "K3/sub_ontology/" + m, K in seen_kinds, "sub_ontology %s %s records" % ("re-annotates" if K in seen_kinds else "never re-annotates", K), where=sub.where())

    check_complete_iteration(ck, "KIND", prog, [SUB], "the leaves, retained terms and annotation records")
    # the retained set: every leaf ITSELF and every term of its path to the root are put into it (two sources; without the first a leaf is missing
    # from its own sub-ontology, without the second the terms between leaf and root are)
    ins14 = [(fb_, bi_, t_) for fb_ in prog.family(sub) for bi_, t_ in fb_.calls() if t_.callee.method == "insert" and re.search(r"HashSet|BTreeSet", t_.callee.def_args or t_.callee.name or "") and "HpoTermInternal" in (t_.callee.def_args or "") and len(t_.args) == 2]
    if ins14:
        kinds14 = set()
        for fb_, bi_, t_ in ins14:
            at_ = pv.of_operand(fb_, t_.args[1])
            if any(a_[0] == "call" and a_[1].endswith("::path_to_ancestor") for a_ in at_):
                kinds14.add("path")
            else:
                kinds14.add("leaf")
        if kinds14 == {"leaf"}:
            # no store is SEEN to come from path_to_ancestor: the path may reach the set through a helper / an adaptor this rule does not follow
            ck.undecided("KIND", "retained-set/sources", "sub_ontology puts terms into the retained set in %d place(s); none of them is seen to take the terms of path_to_ancestor (another spelling?): not decided" % len(ins14), where=sub.where(ins14[0][2].line))
        else:
          ck.ob("KIND", "retained-set/sources", kinds14 == {"leaf", "path"}, "sub_ontology puts into the retained set: %s (expected: each leaf itself and the terms of its path to the root)" % (" and ".join(sorted({"leaf": "each leaf itself", "path": "the terms of the leaf's path to the root"}[k_] for k_ in kinds14)) or "nothing"), where=sub.where(ins14[0][2].line))
    # ... and none of its loops is left in the middle: a `break` where a record is merely to be skipped (`continue`) drops every later record
    from engines import for_loops as _fl14, loop_early_exits as _lee14
    for fb_ in prog.family(sub):
        for li_, lp_ in enumerate(_fl14(fb_)):
            ex_ = _lee14(fb_, lp_)
            ck.ob("KIND", "loop-runs-to-the-end/%s/%d" % (fb_.short, li_), not ex_, "%s: the loop in line %s %s" % (fb_.short, lp_["line"], "ends only when its iterator is exhausted (or with an error)" if not ex_ else
                  "can be left early (line %s) and still return normally: the terms / records behind that point are not copied" % fb_.blocks[ex_[0][0]].term.line), where=fb_.where(lp_["line"]))

    # "refused with an error when some leaf is not root OR A DESCENDANT of root": a leaf's validity is an inclusive relation.  `parent_of` /
    # `child_of` are strict (a term is not its own ancestor); deciding the error with one of them alone refuses the root itself as a leaf.
    from engines import private_scope as _psv, error_blocks as _eb
    for xb in [sub] + [y for y in _psv(prog, sub) if y.id != sub.id and y.kind in ("Fn", "AssocFn")]:
        if not _eb(xb) and not any(_eb(f_) for f_ in prog.family(xb)):
            continue
        for fb in prog.family(xb):
            strict = [(bi, t) for bi, t in fb.calls() if (t.callee.res or "").endswith(("HpoTerm::<'a>::parent_of", "HpoTerm::<'a>::child_of")) and len(t.args) == 2]
            if not strict:
                continue
            has_eq = any(t2.callee.trait == "std::cmp::PartialEq" and t2.callee.method in ("eq", "ne") and re.search(r"HpoTerm|HpoTermId", t2.callee.def_args or "") for _, t2 in fb.calls())
            # the test is a validity test when its result decides (directly, or as the predicate of all / any) about an error exit of xb
            decides = fb is not xb and any(t3.callee.method in ("all", "any", "find", "position") and pv.closure_of_operand(xb, t3.args[-1]) == fb.id for _, t3 in xb.calls() if t3.args) or (fb is xb) or bool(_eb(fb))  # ... or the closure builds the error itself (`map(|leaf| if root.parent_of(&leaf) { Ok(leaf) } else { Err(..) })`)
            if decides:
                bi, t = strict[0]
                ck.ob("ROLE", "leaf-validity/%s" % xb.short, has_eq, "%s decides whether a leaf is acceptable with `%s`%s" % (xb.short, t.callee.method, " together with an equality test (inclusive)" if has_eq else " alone: a strict relation, so the root itself is refused as a leaf (the property admits `root or a descendant of root`)"), where=fb.where(t.line))

    from engines import private_scope as _ps
    _scope = _ps(prog, sub)
    _own = {x.id for x in prog.family(sub)}

    def _far_only(pred_):
        """the step exists, but only in private code beyond the body and its direct helpers"""
        return not any(pred_(t_) for x in prog.family(sub) for _, t_ in x.calls()) and any(pred_(t_) for x in _scope if x.id not in _own for _, t_ in x.calls())
    _steps = [("re-annotate " + K, (lambda mm: (lambda t: (t.callee.res or "").endswith("::" + mm) or deleg_.get(t.callee.res or "") == mm))(m)) for m, K in sorted(ANNOT.items())] + [
        ("copy every retained term", lambda t: (t.callee.res or "").endswith("LooseCollection>::add_term")),
        ("link retained parents", lambda t: (t.callee.res or "").endswith("::add_parent_unchecked") or (t.callee.res or "").endswith("AllTerms>::add_parent")),
        ("connect_all_terms", lambda t: (t.callee.res or "").endswith("::connect_all_terms")),
        ("calculate_information_content", lambda t: (t.callee.res or "").endswith("::calculate_information_content"))]
    _near = []
    for lab_, pred_ in _steps:
        if _far_only(pred_):
            ck.undecided("KIND", "required-step/%s/%s" % (sub.short, lab_), "sub_ontology performs `%s` only in private code beyond its body and direct helpers: whether every success path passes it is not decided" % lab_, where=sub.where())
        else:
            _near.append((lab_, pred_))
    check_required_steps(ck, "KIND", prog, sub, _near)

    # ------------------------------------------------------------------ COVER: copied term
    getters = set()
    muts = set()
    news = 0
    # the copy may be made in a private helper of sub_ontology; the accessors of the internal term are recognised by the FIELD they
    # hand out, not by their name
    scan = list(fam)
    for fb in fam:
        for _, t in fb.calls():
            tg = prog.bodies.get(t.callee.res) if t.callee.res else None
            if tg is not None and tg.kind in ("Fn", "AssocFn") and not tg.reachable and not tg.impl_trait and tg.file == sub.file and tg not in scan:
                scan += [x for x in prog.family(tg) if x not in scan]
    # ... and the private code of other modules that sub_ontology reaches (`Selection::connected_copy` in a private sub-module)
    scan += [x for x in _scope if x not in scan]
    acc_field = {}
    for ab in prog.production():
        if ab.kind == "AssocFn" and (ab.impl_self or {}).get("adt") == "term::internal::HpoTermInternal" and ab.nargs == 1 and not ab.natural_loops() and len(ab.reach) <= 4:
            fl = {a[2] for a in pv.of_return(ab) if a[0] == "field" and a[1] == "term::internal::HpoTermInternal"}
            if len(fl) == 1:
                acc_field[ab.id] = (next(iter(fl)), "&mut" in ab.locals[0]["s"])
    for fb in scan:
        for bi, t in fb.calls():
            r = t.callee.res or ""
            if r in acc_field:
                nm, is_mut = acc_field[r]
                if not is_mut and nm in ("name", "id", "obsolete", "replacement"):
                    getters.add(nm)
                if is_mut and nm in ("obsolete", "replacement"):
                    # result must be written through
                    dl = t.dest.local
                    written = any(s.k == "assign" and "*" in s.place.fields() and s.place.local in (dl,) for _, s in fb.stmts()) or any(
                        s.k == "assign" and "*" in s.place.fields() and any(a[0] == "call" and a[4] == bi for a in pvn.of_local(fb, s.place.local)) for _, s in fb.stmts())
                    if written:
                        muts.add(nm + "_mut")
            if r.startswith("term::internal::HpoTermInternal::"):
                nm = r.rsplit("::", 1)[-1]
                if nm == "new":
                    news += 1
                    a0 = pv.of_operand(fb, t.args[0])
                    a1 = pv.of_operand(fb, t.args[1])
                    ck.ob("COVER", "copy/new-args", "name" in field_names(a0, "HpoTermInternal") and "id" in field_names(a1, "HpoTermInternal"),
                          "the copy is created from (source.name, source.id)", where=fb.where(t.line))
    need_g = {"name", "id", "obsolete", "replacement"}
    ck.ob("COVER", "copy/read", need_g <= getters, "sub_ontology reads %s of the source term%s" % (sorted(getters), "" if need_g <= getters else " (missing: %s)" % sorted(need_g - getters)), where=sub.where())
    ck.ob("COVER", "copy/write", {"obsolete_mut", "replacement_mut"} <= muts and news >= 1, "sub_ontology writes the copy through %s" % sorted(muts | ({"new"} if news else set())), where=sub.where())
    fr = prog.body("<term::internal::HpoTermInternal as std::convert::From<&term::hpoterm::HpoTerm<'_>>>::from")
    if fr is not None:
        used = set()
        for fb in prog.family(fr):
            for bi, t in fb.calls():
                r = t.callee.res or ""
                if "HpoTerm::<" in r:
                    used.add(r.rsplit("::", 1)[-1])
        ok = {"name", "id"} <= used and ("is_obsolete" in used) and (used & {"replaced_by", "replacement_id"})
        ck.ob("COVER", "from-hpoterm/read", bool(ok), "From<&HpoTerm> for HpoTermInternal reads %s" % sorted(used), where=fr.where())

    # ------------------------------------------------------------------ ROLE: induced links
    links = [(fb, bi, t) for fb in fam for bi, t in fb.calls() if (t.callee.res or "").endswith("::add_parent_unchecked") or (t.callee.res or "").endswith("AllTerms>::add_parent")]
    if not links:
        ck.undecided("ROLE", "links/add_parent", "no parent-link call in sub_ontology", where=sub.where())
    for n, (fb, bi, t) in enumerate(links):
        pa = pv.of_operand(fb, t.args[1])
        ca = pv.of_operand(fb, t.args[2])
        p_is_parent = any(a[0] == "call" and a[1].endswith("HpoTermInternal::parents") for a in pa) or "parents" in field_names(pa, "HpoTermInternal")
        c_is_id = "id" in field_names(ca, "HpoTermInternal") and not (any(a[0] == "call" and a[1].endswith("HpoTermInternal::parents") for a in ca))
        ok = p_is_parent and c_is_id
        if not ok:
            pa2, ca2 = pv_crisp.of_operand(fb, t.args[1]), pv_crisp.of_operand(fb, t.args[2])
            p2 = any(a[0] == "call" and a[1].endswith("HpoTermInternal::parents") for a in pa2) or "parents" in field_names(pa2, "HpoTermInternal")
            c2 = "id" in field_names(ca2, "HpoTermInternal") and not (any(a[0] == "call" and a[1].endswith("HpoTermInternal::parents") for a in ca2))
            if p2 and c2:
                ck.undecided("ROLE", "links/add_parent/%d/roles" % n, "the roles of the induced link are right on the direct flows (parent of the term, the term's id); flows through values written behind &mut references add further sources that are not classified", where=fb.where(t.line))
                continue
        ck.ob("ROLE", "links/add_parent/%d/roles" % n, ok, "induced link is add_parent(%s, %s)" % ("a parent of the term" if p_is_parent else "NOT a parent", "the term's id" if c_is_id else "NOT the term's id"), where=fb.where(t.line))
        # guarded by ids.contains(parent)
        g = False
        for gbi in sorted(fb.reach):
            x = fb.blocks[gbi].term
            if x.k == "switch":
                at = pvn.of_operand(fb, x.discr)
                if any(a[0] == "call" and a[1].endswith("HpoGroup::contains") for a in at) and not any(a[0] == "op" and a[1] == "Not" for a in at):
                    vals = [v for v, _ in x.targets]
                    true_t = [tg for v, tg in x.targets if v == 1] or ([x.otherwise] if vals == [0] else [])
                    if true_t and fb.edge_dominates((gbi, true_t[0]), bi):
                        g = True
        if not g:
            # `for parent in term.parents().iter().filter(|p| ids.contains(p))`: the guard is the filter of the pipeline
            g = bool(filter_guard_calls(prog, pv, pa, lambda c: c.res == "term::group::HpoGroup::contains" or (c.method == "contains" and "HashSet" in (c.name or "") + (c.def_args or ""))))
        ck.ob("ROLE", "links/add_parent/%d/guard" % n, g, "the link is %s" % ("only created when the parent is a retained term" if g else "not guarded by membership of the parent in the retained ids (dangling parent)"), where=fb.where(t.line))

    # ---- the retained chain is a SHORTEST one: path_to_ancestor reduces its candidate paths by length (anchor 2 of the property)
    ck.rule("SELECT", "the chain kept for each leaf is selected by minimal LENGTH (DESIGN 3.10)")
    pa = prog.body("term::hpoterm::HpoTerm::<'a>::path_to_ancestor")
    if ck.anchor("SELECT", "HpoTerm::path_to_ancestor", pa):
        reds = reductions(prog, prog.family(pa))
        if not reds:
            ck.undecided("SELECT", "path_to_ancestor/min", "no reduction recognised", where=pa.where())
        else:
            bad = [t for fb, bi, t in reds if t.callee.method.startswith("max")]
            ck.ob("SELECT", "path_to_ancestor/min", not bad, "path_to_ancestor reduces with %s" % sorted({t.callee.method for fb, bi, t in reds}), where=pa.where())
            path_reduction_key(ck, "SELECT", prog, Prov(prog), reds)
