"""C03 - information content (clauses: ROLE+KIND at the set_K contract sites, GUARD in calculate, K3)"""
import re
import absint
from engines import float_div_sites, kinds_in_type, KIND_FIELDS, kind_of_segment, kind_elements
from engines import check_required_steps
from engines import check_complete_iteration, chain_filters
from expr import Extract, S, C, F, div, show, unknowns
from expr import equal as expr_equal
from prov import Prov, params_of, call_atoms

CLAIM = ("(ROLE+KIND) at every production call of InformationContent::set_{gene,omim_disease,orpha_disease} the `total` argument derives from the "
         "length of the record map of the same kind (never from a per-term id set) and the `current` argument from the length of an id set of the "
         "same kind (never from a record map), and no other kind flows in; each set_K passes (total, current) on in that order and writes field K; "
         "the ratio inside `calculate` is current/total; (GUARD) the division and ln in `calculate` are guarded against 0 (divisor and ln argument "
         "proven positive); (K3) calculate_information_content reaches all three setters before an Ontology can be built.")
NOT_DECIDED = "the numeric value -ln(n/N) for every term and monotonicity along is_a (needs the data relation n <= N and exact inherited sets)."

IC = "term::information_content::InformationContent"
SETTERS = {"set_gene": "Gene", "set_omim_disease": "Omim", "set_orpha_disease": "Orpha"}


def len_roles(atoms):
    """classify len() call atoms: ('records', kinds) for map/Values lengths, ('ids', kinds) for HashSet lengths"""
    out = []
    for a in call_atoms(atoms):
        name, da = a[1], a[2]
        if not re.search(r"::len$|::count$", name) and not re.search(r"::len$|::count$", da):
            continue
        if re.search(r"HashMap::<|hash_map::Values<|hash_map::Iter<|hash_map::Keys<", da):
            out.append(("records", frozenset(kinds_in_type(da)), da))
        elif re.search(r"HashSet::<|hash_set::Iter<", da):
            out.append(("ids", frozenset(kinds_in_type(da)), da))
        else:
            out.append(("other", frozenset(kinds_in_type(da)), da))
    return out


def run(ck, prog, ctx):
    ck.rule("ROLE", "required ⊆ provenance and forbidden ∩ provenance = ∅ at contract sites (DESIGN 3.4)")
    ck.rule("KIND", "no foreign annotation kind at a K-labelled site (DESIGN 3.3)")
    ck.rule("GUARD", "divisor / ln argument proven positive (DESIGN 3.5)")
    pv = Prov(prog)
    sites = []
    for b in prog.production():
        for bi, t in b.calls():
            c = t.callee
            if c.res and c.res.startswith(IC + "::") and c.res.rsplit("::", 1)[-1] in SETTERS:
                sites.append((b, bi, t, c.res.rsplit("::", 1)[-1]))
    # ... and the places that hand a setter on as a VALUE to a shared helper (`self.ic_of_kind(self.genes.len(), |t| t.genes().len(), InformationContent::set_gene)`)
    from engines import fn_item_args
    vsites = fn_item_args(prog, lambda v: v.startswith(IC + "::") and v.rsplit("::", 1)[-1] in SETTERS)
    ck.floor("ROLE", "production call sites of InformationContent::set_K", len(sites) + len(vsites), 5, soft=True)
    vcnt = {}
    pv_crisp = Prov(prog, inline=False, mutflow=False)
    for b, bi, t, ai_, v in sorted(vsites, key=lambda x: (x[0].id, x[1])):
        setter = v.rsplit("::", 1)[-1]
        K = SETTERS[setter]
        base = "%s/%s/value" % (b.short, setter)
        i = vcnt.get(base, 0)
        vcnt[base] = i + 1
        roles = []
        foreign = []
        for j, a in enumerate(t.args):
            if j == ai_:
                continue
            cid = pv.closure_of_operand(b, a)
            if cid and cid in prog.bodies:
                for fb in prog.family(prog.bodies[cid]):
                    for e in kind_elements(fb):
                        (roles if e[0] == K else foreign).append(("closure", e[0], e[1]))
                continue
            for r in len_roles(pv_crisp.of_operand(b, a)):
                if r[1] and r[1] != {K}:
                    foreign.append((r[0], "/".join(sorted(r[1])), r[2]))
                elif r[1]:
                    roles.append((r[0], K, r[2]))
        ck.ob("KIND", "%s/%d" % (base, i), not foreign, "%s hands %s to %s together with %s" % (b.short, setter, (t.callee.res or t.callee.name or "?").rsplit("::", 1)[-1], "counts of kind %s only" % K if not foreign else "a count of ANOTHER kind: %s" % (foreign[0][2],)), where=b.where(t.line))
        rec = [r for r in roles if r[0] == "records"]
        if rec:
            ck.ob("ROLE", "%s/%d/total" % (base, i), True, "%s: the call that hands on %s passes the number of %s records (%s)" % (b.short, setter, K, rec[0][2]), where=b.where(t.line))
        else:
            ck.undecided("ROLE", "%s/%d/total" % (base, i), "%s hands %s on as a value: which count becomes `total` is decided inside the helper, which this rule does not follow" % (b.short, setter), where=b.where(t.line))
    cnt = {}
    for b, bi, t, setter in sorted(sites, key=lambda x: (x[0].id, x[1])):
        K = SETTERS[setter]
        owner = prog.bodies[b.root].short if b.kind == "Closure" and b.root in prog.bodies else b.short
        base = "%s/%s" % (owner, setter)
        i = cnt.get(base, 0)
        cnt[base] = i + 1
        if len(t.args) < 3:
            ck.undecided("ROLE", base + "/%d" % i, "unexpected arity", where=b.where(t.line))
            continue
        # a private helper may receive the counts as parameters: follow them to the call sites inside the crate
        tot = len_roles(pv.through_callers(pv.of_operand(b, t.args[1])))
        cur = len_roles(pv.through_callers(pv.of_operand(b, t.args[2])))
        # total
        rec = [r for r in tot if r[0] == "records"]
        ids = [r for r in tot if r[0] == "ids"]
        ok = bool(rec) and not ids
        ck.ob("ROLE", "%s/%d/total" % (base, i), ok,
              "%s: `total` of %s %s" % (owner, setter, "is the number of %s records (%s)" % (K, rec[0][2]) if ok else ("derives from a per-term id set length (%s)" % ids[0][2] if ids else "does not derive from the length of a record map")),
              where=b.where(t.line))
        # N is the number of ALL records of the kind: no filter / truncation between the record map and the count
        flt = chain_filters(b, pv, t.args[1])
        ck.ob("ROLE", "%s/%d/total-unfiltered" % (base, i), not flt, "%s: `total` of %s counts %s" % (owner, setter, "every %s record" % K if not flt else "only the records that pass `%s`: N is not the number of %s records" % (flt[0], K)), where=b.where(t.line))
        fltc = chain_filters(b, pv, t.args[2])
        ck.ob("ROLE", "%s/%d/current-unfiltered" % (base, i), not fltc, "%s: `current` of %s counts %s" % (owner, setter, "every linked %s id of the term" % K if not fltc else "only the ids that pass `%s`" % fltc[0]), where=b.where(t.line))
        foreign = [r for r in tot if r[1] and r[1] != {K}]
        ck.ob("KIND", "%s/%d/total" % (base, i), not foreign, "%s: `total` of %s %s" % (owner, setter, "counts kind %s only" % K if not foreign else "counts another kind: %s" % foreign[0][2]), where=b.where(t.line))
        rec = [r for r in cur if r[0] == "records"]
        ids = [r for r in cur if r[0] == "ids"]
        ok = bool(ids) and not rec
        ck.ob("ROLE", "%s/%d/current" % (base, i), ok,
              "%s: `current` of %s %s" % (owner, setter, "is the size of a %s id set (%s)" % (K, ids[0][2]) if ok else ("derives from a record map length (%s)" % rec[0][2] if rec else "does not derive from the length of an id set")),
              where=b.where(t.line))
        foreign = [r for r in cur if r[1] and r[1] != {K}]
        ck.ob("KIND", "%s/%d/current" % (base, i), not foreign, "%s: `current` of %s %s" % (owner, setter, "counts kind %s only" % K if not foreign else "counts another kind: %s" % foreign[0][2]), where=b.where(t.line))

    # ---- a function that computes the IC of exactly one kind touches no other kind (guards, counts, loops)
    by_body = {}
    for b, bi, t, setter in sites:
        root = prog.bodies[b.root] if b.kind == "Closure" and b.root in prog.bodies else b
        by_body.setdefault(root.id, set()).add(SETTERS[setter])
    for bid, ks in sorted(by_body.items()):
        if len(ks) != 1:
            continue
        K = next(iter(ks))
        rb = prog.bodies[bid]
        els = []
        for fb in prog.family(rb):
            els += kind_elements(fb)
        foreign = [e for e in els if e[0] != K]
        ck.ob("KIND", "K1/%s" % rb.short, not foreign, "%s (computes the %s IC) %s" % (rb.short, K, "touches no other annotation kind" if not foreign else "reads a %s element: %s" % (foreign[0][0], foreign[0][1])), where=rb.where(foreign[0][2] if foreign else None))

    check_complete_iteration(ck, "KIND", prog, sorted(by_body), "the terms of the ontology")

    for bid in sorted(by_body):
        rb = prog.bodies[bid]
        if rb.kind in ("Fn", "AssocFn"):
            check_required_steps(ck, "KIND", prog, rb, [("set_%s for every term" % "/".join(sorted(by_body[bid])), lambda t: (t.callee.res or "").startswith(IC + "::set_"))])
    cic0 = prog.one(r"^ontology::builder::Builder::<ontology::builder::ConnectedTerms>::calculate_information_content$")
    if cic0 is not None:
        vby = {}
        for b_, bi_, t_, ai_, v_ in vsites:
            vby.setdefault(v_.rsplit("::", 1)[-1], []).append(t_)
        check_required_steps(ck, "KIND", prog, cic0, [(k, (lambda kk: (lambda t: (t.callee.res or "").endswith("::calculate_%s_ic" % kk) or any(t is x for x in vby.get("set_" + kk, []))))(k)) for k in ("gene", "omim_disease", "orpha_disease")])

    # ---- whatever computes the IC on behalf of calculate_information_content walks ALL terms: the Builder methods (of any visibility) and the
    # private helpers it reaches that enumerate the arena (`values_mut` / `values` / `iter` / `keys`) use no truncating adaptor on the way.
    # (`Arena::values_mut()` already leaves the placeholder slot out; a `.skip(1)` on top of it skips the first real term, which keeps IC 0.)
    if cic0 is not None:
        walkers_ = []
        for rid_ in sorted(prog.reachable_bodies([cic0.id])):
            rb_ = prog.bodies.get(rid_)
            if rb_ is None or rb_.kind not in ("Fn", "AssocFn") or rb_.test or rb_.id in by_body or not rb_.id.startswith("ontology::builder::"):
                continue
            if any((t_.callee.res or "").startswith("ontology::termarena::Arena::") and t_.callee.res.rsplit("::", 1)[-1] in ("values_mut", "values", "iter", "keys") for fb_ in prog.family(rb_) for _, t_ in fb_.calls()) \
                    and any("InformationContent" in (t_.callee.res or "") or (t_.callee.res or "").endswith("::information_content_mut") for fb_ in prog.family(rb_) for _, t_ in fb_.calls()):
                walkers_.append(rb_)
        from engines import hard_truncations as _ht3
        ck.rule("WALK", "every Builder function reached from calculate_information_content that enumerates the term arena and writes information content walks ALL terms (no skip / take / step_by ... on the way); the instances are found by what they call, not by name")
        for rb_ in walkers_:
            cut_ = _ht3(prog, rb_)
            ck.ob("WALK", "ic-walk/" + rb_.short, not cut_, "%s (reached from calculate_information_content, enumerates the arena) %s" % (rb_.short, "walks every term" if not cut_ else "drops terms with `%s` (line %s): their information content stays 0" % (cut_[0][1].callee.method, cut_[0][1].line)), where=rb_.where(cut_[0][1].line if cut_ else None))

    # ---- inside the setters
    calc = prog.body(IC + "::calculate")
    for setter, K in sorted(SETTERS.items()):
        sb = prog.body(IC + "::" + setter)
        if not ck.anchor("ROLE", "InformationContent::" + setter, sb):
            continue
        writes = [s for _, s in sb.stmts() if s.k == "assign" and any(e != "*" and e[0] == "f" and e[2] == IC for e in s.place.fields())]
        fields = sorted({e[1] for s in writes for e in s.place.fields() if e != "*" and e[0] == "f" and e[2] == IC})
        kinds = {KIND_FIELDS.get(f) for f in fields}
        if not writes:
            # the write sits in a shared private helper selected by an InformationContentKind constant: `self.set_kind(InformationContentKind::Gene, ..)`
            sel = sorted({st.rv.get("variant") for _, st in sb.stmts() if st.k == "assign" and st.rv and st.rv["k"] == "agg" and (st.rv.get("adt") or "").endswith("InformationContentKind")} |
                         {a.const.get("variant") for _, t_ in sb.calls() for a in t_.args if a.kind == "const" and (a.const.get("adt") or a.const.get("ty") or "").endswith("InformationContentKind") and a.const.get("variant")})
            helpers = [t_ for _, t_ in sb.calls() if (t_.callee.res or "") in prog.bodies and (not (prog.bodies[t_.callee.res].exported or prog.bodies[t_.callee.res].reachable) or (prog.bodies[t_.callee.res].impl_self or {}).get("adt") == IC)]
            if helpers and sel:
                ck.ob("KIND", "setter/%s/field" % setter, sel == [K], "%s delegates the write to %s, selecting the kind %s (expected %s)" % (setter, prog.bodies[helpers[0].callee.res].short, "/".join(sel), K), where=sb.where())
            elif helpers:
                ck.undecided("KIND", "setter/%s/field" % setter, "%s writes through the private helper %s: the field it selects is not recognised" % (setter, prog.bodies[helpers[0].callee.res].short), where=sb.where())
            else:
                ck.ob("KIND", "setter/%s/field" % setter, False, "%s writes no field of InformationContent" % setter, where=sb.where())
            continue
        ck.ob("KIND", "setter/%s/field" % setter, kinds == {K}, "%s writes field(s) %s (expected the %s field only)" % (setter, fields, K), where=sb.where())
        for s in writes:
            at = pv.of_operand(sb, s.rv["op"]) if s.rv["k"] == "use" else frozenset()
            ps = params_of(at, sb.id)
            ck.ob("ROLE", "setter/%s/value" % setter, {2, 3} <= ps, "%s stores a value computed from both `total` and `current`" % setter if {2, 3} <= ps else "%s stores a value that does not depend on both arguments (params %s)" % (setter, sorted(ps)), where=sb.where(s.line))
        # a failure of the computation is the setter's failure: the stored value reaches the field through `?` alone (no default in
        # place of the error), and the error alternative of the setter's result comes from the computation
        pvs = Prov(prog, inline=False)
        for s in writes:
            if s.rv["k"] != "use":
                continue
            at = pvs.of_operand(sb, s.rv["op"])
            steps = sorted({a[1].rsplit("::", 1)[-1] for a in at if a[0] == "call" and a[3] == sb.id and not (a[2] in prog.bodies or a[1] in prog.bodies)})
            swallow = [m for m in steps if m in ("unwrap_or_default", "unwrap_or", "unwrap_or_else", "ok", "or", "or_else", "map_or", "map_or_else", "is_ok", "is_err", "unwrap", "expect")]
            crate_calls = [a for a in at if a[0] == "call" and a[3] == sb.id and (a[2] in prog.bodies or a[1] in prog.bodies)]
            if not crate_calls:
                continue
            ret_err = pvs.of_return(sb, (("errval",),))
            propagated = any(a[0] == "call" and a[3] == sb.id and (a[2] in prog.bodies or a[1] in prog.bodies) for a in ret_err)
            okp = not swallow and propagated
            ck.ob("ROLE", "setter/%s/error" % setter, okp, "%s %s" % (setter, "stores the computed value only when the computation succeeds and returns its error otherwise" if okp else
                  ("replaces a failed computation by a default (`%s`): the term keeps IC 0 and the caller sees success" % swallow[0] if swallow else "does not return the error of the computation")), where=sb.where(s.line))
        if calc is not None:
            for bi, t in sb.calls():
                if t.callee.res == calc.id and len(t.args) == 2:
                    p0 = params_of(pv.of_operand(sb, t.args[0]), sb.id)
                    p1 = params_of(pv.of_operand(sb, t.args[1]), sb.id)
                    ok = p0 == {2} and p1 == {3}
                    ck.ob("ROLE", "setter/%s/order" % setter, ok, "%s passes (total, current) on %s" % (setter, "in that order" if ok else "swapped or mixed (arg0<-%s, arg1<-%s)" % (sorted(p0), sorted(p1))), where=sb.where(t.line))

    # ---- GUARD + ratio roles in calculate
    if calc is None:
        ck.undecided("GUARD", "calculate", "private helper InformationContent::calculate not found: ratio and guards are checked wherever the arithmetic now lives")
        bodies = [prog.body(IC + "::" + s) for s in SETTERS if prog.body(IC + "::" + s)]
        # ... and the crate functions the setters reach (the arithmetic may have moved into free helper functions)
        seen_ids = {b_.id for b_ in bodies}
        for rid in sorted(prog.reachable_bodies([b_.id for b_ in bodies])):
            rb_ = prog.bodies.get(rid)
            if rb_ is not None and rb_.id not in seen_ids and rb_.kind in ("Fn", "AssocFn") and not rb_.test and float_div_sites(rb_):
                bodies.append(rb_)
                seen_ids.add(rb_.id)
    else:
        bodies = [calc]
        if True:
            # `calculate` hands the arithmetic on to a private helper (`IcTotal::information_content`): examined wherever it lives
            for rid in sorted(prog.reachable_bodies([calc.id])):
                rb_ = prog.bodies.get(rid)
                if rb_ is not None and rb_.id != calc.id and rb_.kind in ("Fn", "AssocFn") and not rb_.test and float_div_sites(rb_):
                    bodies.append(rb_)
    ai = absint.Interp(prog)
    nsites = 0
    for b in bodies:
        for n, site in enumerate(float_div_sites(b)):
            nsites += 1
            if site["kind"] == "div":
                c = ai.class_at(b, site["pos"], site["den"])
                ok = c in (absint.P, absint.NZ) or c is None
                if not ok and c == absint.T and b is not calc and not b.reachable and params_of(pv.of_operand(b, site["den"]), b.id):
                    ck.undecided("GUARD", "%s/div/%d" % (b.short, n), "%s divides by a parameter of a private helper: whether it is non-zero is decided at its call sites, which this rule does not follow" % b.short, where=b.where(site["line"]))
                    continue
                ck.ob("GUARD", "%s/div/%d" % (b.short, n), ok, "%s: divisor %s" % (b.short, "proven non-zero (class %s)" % c if ok else "can be 0 (class %s): IC would be NaN/inf" % c), where=b.where(site["line"]))
                if b is calc:
                    pn = params_of(pv.of_operand(b, site["num"]), b.id)
                    pd = params_of(pv.of_operand(b, site["den"]), b.id)
                    ok = pn == {2} and pd == {1}
                    ck.ob("ROLE", "calculate/ratio/%d" % n, ok, "the ratio is %s" % ("current/total" if ok else "not current/total (numerator<-%s, divisor<-%s): the sign of every score flips" % (sorted(pn), sorted(pd))), where=b.where(site["line"]))
            else:
                c = ai.class_at(b, site["pos"], site["arg"])
                ok = c == absint.P or c is None
                if not ok and c == absint.T and b is not calc and not b.reachable and params_of(pv.of_operand(b, site["arg"]), b.id):
                    ck.undecided("GUARD", "%s/ln/%d" % (b.short, n), "%s takes the logarithm of a value computed from the parameters of a private helper: positivity is decided at its call sites" % b.short, where=b.where(site["line"]))
                    continue
                ck.ob("GUARD", "%s/ln/%d" % (b.short, n), ok, "%s: ln argument %s" % (b.short, "proven positive" if ok else "not proven positive (class %s)" % c), where=b.where(site["line"]))
    if calc is not None or nsites:
        ck.floor("GUARD", "div/ln sites in the IC computation", nsites, 2)
    else:
        ck.undecided("GUARD", "calculate/sites", "no float division / ln found in the setters or in the functions they reach")

    # ---- FORMULA: the value computed is -ln(current / total)
    ck.rule("FORMULA", "the non-constant result of InformationContent::calculate, extracted as an expression over (total, current) and normalised (ln opaque), equals -ln(current/total)")
    if calc is not None:
        def leaf(ex, body, kind, obj):
            if kind == "param":
                return S({1: "total", 2: "current"}.get(obj[0], "p%d" % obj[0]))
            if kind == "call":
                r = obj.callee.res or obj.callee.name or ""
                if re.search(r"(^|::)(f32_from_usize|usize_to_f32)$", r) and len(obj.args) == 1:
                    return ex.operand(body, obj.args[0], 0, getattr(ex, "_at", None))
            return None
        EX = Extract(prog, pv, leaf, fold_named=True)  # `NEGATE = -1.0`: no rule judges such a constant where it is defined, its value belongs to this formula
        want = ("neg", F("ln", div(S("current"), S("total"))))
        rets = []
        for kind, pos, d in pv.defs(calc).get(0, []):
            e = EX.rvalue(calc, d, 0, pos) if kind == "assign" else EX.call(calc, d, 0, pos)
            from expr import symbols as _symbols
            only_consts = e[0] == "c" or (not unknowns(e) and _symbols(e) and all(x.startswith("const:") for x in _symbols(e)))
            if not only_consts and not (kind == "call" and d.callee.method == "from_residual"):
                rets.append((d.line, e))
        # the constant answers (no annotation at all / none for this term) are 0, the documented information content of `nothing known`
        for kind, pos, d in pv.defs(calc).get(0, []):
            if kind == "assign" and d.rv["k"] == "agg" and d.rv.get("variant") == "Ok" and d.rv["ops"] and d.rv["ops"][0].kind == "const" and d.rv["ops"][0].float_value() is not None:
                fv_ = d.rv["ops"][0].float_value()
                ck.ob("FORMULA", "calculate/zero-case@%d" % pos[0], fv_ == 0.0, "InformationContent::calculate answers the constant %s where it does not compute the logarithm (documented: 0 when total or current is 0)" % fv_, where=calc.where(d.line))
        if not rets:
            ck.ob("FORMULA", "calculate", False, "InformationContent::calculate returns only constants: -ln(current/total) is not computed", where=calc.where())
        for i, (ln_, e) in enumerate(rets):
            eq = expr_equal(e, want)
            key = "calculate" if i == 0 else "calculate/%d" % i
            if eq is None:
                ck.undecided("FORMULA", key, "result expression %s has leaves that are not recognised (%s)" % (show(e), "; ".join(unknowns(e)[:2])), where=calc.where(ln_))
            else:
                ck.ob("FORMULA", key, eq, "InformationContent::calculate returns %s %s the documented -ln(current/total)" % (show(e), "=" if eq else "which is NOT algebraically equal to"), where=calc.where(ln_))
    else:
        ck.undecided("FORMULA", "calculate", "private helper InformationContent::calculate not found")

    # ---- the counts reach the formula unchanged: the usize -> f32 helper converts exactly or reports an error
    from props.shared import check_exact_conversion
    check_exact_conversion(ck, "GUARD", prog, "f32_from_usize", "the annotation counts")
    from props.shared import check_conversion_range
    check_conversion_range(ck, "GUARD", prog, "f32_from_usize", 16, "record and annotation counts of the shipped ontology exceed 255 (the helper's u16 bound is the reviewed one)")

    # ---- K3: all three kinds are computed in the ConnectedTerms -> FullyAnnotated transition
    cic = prog.one(r"^ontology::builder::Builder::<ontology::builder::ConnectedTerms>::calculate_information_content$")
    if ck.anchor("KIND", "Builder<ConnectedTerms>::calculate_information_content", cic):
        reach = prog.reachable_bodies([cic.id])
        for setter, K in sorted(SETTERS.items()):
            ck.ob("KIND", "K3/" + setter, (IC + "::" + setter) in reach, "calculate_information_content %s %s" % ("reaches" if (IC + "::" + setter) in reach else "never reaches", setter), where=cic.where())

    # ---- accessors: a method named after a field returns that field, not a sibling of the same type
    ck.rule("GETTER", "an accessor `f()` / `f_mut()` of a struct with a field `f` (or its documented alias) derives its result from that field (DESIGN 3.9)")
    from engines import check_getters
    check_getters(ck, "GETTER", prog, r"^src/term/information_content\.rs$", floor=3)
    # failures of fallible crate functions are propagated or asserted, never turned into success
    ck.rule("ERR", "every call of a crate function returning Result<_, HpoError> propagates the error (`?` / return / match), panics on it (unwrap / expect), or is a listed documented exception; none replaces it by a default")
    from engines import check_error_discipline
    check_error_discipline(ck, "ERR", prog, r"^src/term/information_content\.rs$|^src/ontology/builder\.rs$", allowed=[(r"^Ontology::hpo$", r"try_new$", "documented: Ontology::hpo answers None for an id that is not in the ontology")], floor=3)
    # the gene / OMIM / ORPHA variants of one operation: none does something its siblings do not
    ck.rule("KSIB", "in a group of >= 3 kind variants of one operation, no member alone has an extra selecting / truncating / error-swallowing / text-changing step or calls a crate function no sibling calls")
    from engines import check_kind_siblings
    check_kind_siblings(ck, "KSIB", prog, r"^src/term/information_content\.rs$|^src/ontology/builder\.rs$", floor=1)
